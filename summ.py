#!/usr/bin/env python3
import json,collections,sys
cid=sys.argv[1]
c=collections.Counter(); ex={}
for i in range(16):
    try: r=json.load(open(f'/verif/runs/{cid}/shard-{i}.json'))
    except Exception as e: print('shard',i,e); continue
    for v in r['violations']:
        c[v['signature']]+=1; ex.setdefault(v['signature'],(v['detail'][:320],v['index']))
    if r['inconclusive']: print('inconcl',r['inconclusive'][:3])
for k,v in c.most_common(): print(v,k,ex[k])
