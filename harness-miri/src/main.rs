//! vmiri — the pure-Rust decoders / parsers of ant-protocol and ant-evm under Miri (UB interpreter).
//! usage (under `cargo +nightly miri run`): vmiri <seed> <count> [target]
//! Prints one line per panic ("PANIC target=.. input=..") and a final "DONE ops=.. panics=..".
//! A Miri UB report aborts the process with Miri's own diagnostic.

use ant_evm::AttoTokens;
use ant_protocol::messages::{Request, Response};
use ant_protocol::storage::{try_deserialize_record, try_serialize_record, Chunk, RecordHeader, RecordKind};
use ant_protocol::NetworkAddress;
use bytes::Bytes;
use libp2p::kad::{Record, RecordKey};
use std::str::FromStr;

struct Rng(u64);
impl Rng {
    fn next(&mut self) -> u64 {
        // splitmix64
        self.0 = self.0.wrapping_add(0x9E37_79B9_7F4A_7C15);
        let mut z = self.0;
        z = (z ^ (z >> 30)).wrapping_mul(0xBF58_476D_1CE4_E5B9);
        z = (z ^ (z >> 27)).wrapping_mul(0x94D0_49BB_1331_11EB);
        z ^ (z >> 31)
    }
    fn below(&mut self, n: usize) -> usize {
        (self.next() % n.max(1) as u64) as usize
    }
    fn bytes(&mut self, n: usize) -> Vec<u8> {
        (0..n).map(|_| self.next() as u8).collect()
    }
}

fn hostile_bytes(r: &mut Rng) -> Vec<u8> {
    match r.below(8) {
        0 => vec![],
        1 => vec![0x91],
        2 => {
            let n = r.below(6);
            r.bytes(n)
        }
        3 => {
            // valid chunk record, truncated
            let n = 1 + r.below(40);
            let v = try_serialize_record(&Chunk::new(Bytes::from(r.bytes(n))), RecordKind::Chunk).expect("ser").to_vec();
            let cut = r.below(v.len() + 1);
            v[..cut].to_vec()
        }
        4 => {
            // valid chunk record with a flipped byte
            let n = 1 + r.below(40);
            let mut v = try_serialize_record(&Chunk::new(Bytes::from(r.bytes(n))), RecordKind::Chunk).expect("ser").to_vec();
            let i = r.below(v.len());
            v[i] ^= 1 << r.below(8);
            v
        }
        5 => {
            // header with every tag value and a length-lying bin
            let mut v = vec![0x91, r.next() as u8, 0xc6, 0xff, 0xff, 0xff, 0xff];
            let n = r.below(8);
            v.extend(r.bytes(n));
            v
        }
        6 => {
            // deeply nested arrays
            let d = 1 + r.below(200);
            let mut v = vec![0x91; d];
            v.push(0xc0);
            v
        }
        _ => {
            let n = r.below(120);
            r.bytes(n)
        }
    }
}

fn hostile_str(r: &mut Rng) -> String {
    let pool = ["", "0", "1", "0.0", ".", "-1", "+1", "1.", ".1", "1e9", "0x10", "1_0", " 1", "1 ", "18446744073709551615", "18446744073709551616", "115792089237316195423570985008687907853269984665640564039457584007913129639935", "115792089237316195423570985008687907853269984665640564039457584007913129639936", "0.000000000000000001", "0.0000000000000000001", "1.000000000000000000", "9999999999999999999999999999999999999999999999999999999999999999999999999999999999", "١٢٣", "1.١", "NaN", "inf"];
    match r.below(4) {
        0 => pool[r.below(pool.len())].to_string(),
        1 => {
            let a = r.below(80);
            let b = r.below(24);
            let mut s: String = (0..a).map(|_| char::from(b'0' + (r.next() % 10) as u8)).collect();
            s.push('.');
            s.extend((0..b).map(|_| char::from(b'0' + (r.next() % 10) as u8)));
            s
        }
        2 => {
            let n = r.below(12);
            String::from_utf8_lossy(&r.bytes(n)).into_owned()
        }
        _ => format!("{}.{}", r.next(), r.next() % 1_000_000_000_000_000_000),
    }
}

fn run_target(name: &str, r: &mut Rng) -> (String, Result<(), ()>) {
    let mut desc = String::new();
    let res = std::panic::catch_unwind(std::panic::AssertUnwindSafe(|| match name {
        "record" => {
            let v = hostile_bytes(r);
            desc = format!("{v:02x?}");
            let rec = Record { key: RecordKey::from(r.bytes(32)), value: v, publisher: None, expires: None };
            let _ = RecordHeader::from_record(&rec);
            let _ = RecordHeader::is_record_of_type_chunk(&rec);
            if let Ok(c) = try_deserialize_record::<Chunk>(&rec) {
                // a decoded chunk's address is the hash of its value and it re-encodes
                assert_eq!(*c.name(), xor_name::XorName::from_content(c.value()));
                let _ = try_serialize_record(&c, RecordKind::Chunk).expect("re-encode");
            }
            let _ = try_deserialize_record::<Vec<u8>>(&rec);
            let _ = try_deserialize_record::<NetworkAddress>(&rec);
            let _ = try_deserialize_record::<Vec<(NetworkAddress, u64)>>(&rec);
        }
        "address" => {
            let n = [0usize, 1, 31, 32, 33, 64, 100][r.below(7)];
            let k = r.bytes(n);
            desc = format!("{k:02x?}");
            let a = NetworkAddress::from_record_key(&RecordKey::from(k.clone()));
            let b = NetworkAddress::from_record_key(&RecordKey::from(r.bytes(32)));
            let _ = a.distance(&b);
            let _ = a.as_bytes();
            let _ = a.to_record_key();
            let _ = a.as_kbucket_key();
            // Display only: the Debug form of a raw record key shorter than 3 bytes slices `[0..6]` of a shorter hex
            // string and panics (ant-protocol/src/lib.rs), but formatting is outside what C12 / C17 state
            let _ = format!("{a}");
            let enc = rmp_serde::to_vec(&a).expect("enc");
            let back: NetworkAddress = rmp_serde::from_slice(&enc).expect("dec");
            assert_eq!(a, back);
        }
        "message" => {
            let v = hostile_bytes(r);
            desc = format!("{v:02x?}");
            let _ = rmp_serde::from_slice::<Request>(&v);
            let _ = rmp_serde::from_slice::<Response>(&v);
            let _ = cbor4ii::serde::from_slice::<Request>(&v);
            let _ = cbor4ii::serde::from_slice::<Response>(&v);
        }
        "amount" => {
            let s = hostile_str(r);
            desc = s.clone();
            if let Ok(a) = AttoTokens::from_str(&s) {
                let shown = format!("{a}");
                let again = AttoTokens::from_str(&shown).expect("Display output parses");
                assert_eq!(a, again, "Display/FromStr round trip");
                let _ = a.checked_add(again);
                let _ = a.checked_sub(again);
                let _ = a.to_bytes();
            }
            let x = AttoTokens::from_u64(r.next());
            let y = AttoTokens::from_u128(((r.next() as u128) << 64) | r.next() as u128);
            let _ = x.checked_add(y);
            let _ = y.checked_sub(x);
            let _ = format!("{x} {y}");
        }
        other => panic!("unknown target {other}"),
    }));
    (desc, res.map_err(|_| ()))
}

fn main() {
    let args: Vec<String> = std::env::args().collect();
    let seed: u64 = args.get(1).and_then(|s| s.parse().ok()).unwrap_or(1);
    let count: usize = args.get(2).and_then(|s| s.parse().ok()).unwrap_or(50);
    let only = args.get(3).cloned();
    if std::env::var_os("VMIRI_TRACE").is_none() {
        std::panic::set_hook(Box::new(|_| {}));
    }
    let mut r = Rng(seed);
    let targets = ["record", "address", "message", "amount"];
    let (mut ops, mut panics) = (0usize, 0usize);
    for i in 0..count {
        let t = match &only {
            Some(t) => t.as_str(),
            None => targets[i % targets.len()],
        };
        let (desc, res) = run_target(t, &mut r);
        ops += 1;
        if res.is_err() {
            panics += 1;
            let d: String = desc.chars().take(200).collect();
            println!("PANIC target={t} input={d}");
        }
    }
    println!("DONE ops={ops} panics={panics}");
}
