#!/usr/bin/env python3
"""Regenerates MANIFEST.json from the table below (kept in one place so it stays valid)."""
import json, subprocess
CHECKS = {
 "C14": dict(level="exploration", tech="round-trip + bound oracle: real autonomi::self_encryption::encrypt, then a real Client (data_get_public / data_get) over a real client SwarmDriver whose kad get-record queries the harness answers from the produced chunks in FIFO / LIFO / random completion order; two builds (MAX_CHUNK_SIZE 1 MiB and 1 KiB) so that 1-4 data-map levels occur; addresses recomputed with an independent SHA3-256",
             text="Lengths on and next to every size-class boundary (0..6, MAX, 3*MAX, k*MAX, data-map level thresholds) with five content classes are encrypted twice and fetched back; inputs < 3 bytes must be rejected, everything else must round-trip byte-identically, every chunk must be <= MAX_CHUNK_SIZE and addressed by its content hash, both encryptions must give the same data map and chunk set. Exploration is the right level: the input space is unbounded and the deciding step is an oracle over real executions.",
             note="Honest holders (C15 covers substitution); multi-level maps are reached through self_encryption's compile-time MAX_CHUNK_SIZE knob; the +16-byte overshoot of full slices is a known finding in the external crate.", ref="DESIGN.md §4 C14"),
 "C05": dict(level="exploration", tech="history oracle over fabricated kad progress events fed to the real SwarmDriver handlers for real QueryIds, with 1-4 real callers (some cancelled) in Network::get_record_from_network; merges recomputed independently",
             text="Random reply sequences (distinct / duplicate / self responders, 1-3 content versions of four kinds, every terminal event, optional targets, all quorum settings) are delivered while callers attach before, between and after replies; each caller's outcome is judged against distinct-responder counts, target, deterministic merges, completeness of split outcomes and exactly-one-outcome.",
             note="Events are fabricated (the swarm is never polled); retry strategy None so one caller = one query outcome.", ref="DESIGN.md §4 C05"),
 "C07": dict(level="exploration", tech="version-history + reference-set oracle on a real node (driver + store + Node validation + vault stub): rounds of 1-3 simultaneous deliveries per key over the paid, unpaid-update and replication paths; the stored value is sampled after every local command touching the key and at quiescence",
             text="Scratchpads (fresh / stale / equal counters, unsigned, foreign signer, foreign owner, swapped payload), transaction vectors (valid, forged, foreign, duplicates) and register replicas (permitted / unauthorised / forged / oversized ops, other base) are delivered; stored content must always be owner-signed, never regress, and reflect every accepted or unconditional valid delivery. Lost updates inside rounds of concurrent deliveries are a recorded structural defect (seven signatures); everything else is armed.",
             note="Only Ok deliveries and valid paid/replicated deliveries are required to be reflected; same-key disk tasks and commands keep spawn order.", ref="DESIGN.md §4 C07"),
 "C04": dict(level="exploration", tech="before/after store-image oracle on a real node (driver + store + Node validation + vault stub): deliveries over the client, unpaid-update, replication and raw kad-put paths with adversarially mismatched (key, content) pairs; emitted UnverifiedRecord events captured",
             text="Every delivery under a key its content does not determine must return Err and leave the complete store image byte-identical; correctly keyed deliveries may change only their own key; raw puts are never readable before validation, oversized/unparseable ones are refused.",
             note="key_of(content) is computed by the harness from the property statement (hashes of bytes / owner / meta+owner); acceptance of correctly keyed deliveries is left to C03/C07.", ref="DESIGN.md §4 C04"),
 "C03": dict(level="exploration", tech="decision-table oracle over a real node (driver + store + real Node validation) driven by the harness event loop, with a local JSON-RPC payment-vault stub (own OS thread) as the contract; store inspected after the simulator has drained all commands, events and disk tasks",
             text="All 64 combinations of the six payment conditions (single-spot faults of otherwise valid proofs of 3/5 quotes) x four paid record kinds x prior content, plus random multi-fault proofs and unpaid uploads; stored-iff-all-hold, Err-iff-not-stored, held chunks unchanged, payment counter moves only on contract confirmation.",
             note="The stub models the contract interface (three best-paid results), not pricing; closeness is falsified by a payee unknown to the node.", ref="DESIGN.md §4 C03"),
 "C20": dict(level="exploration", tech="differential monitor: install-time definition (real add_node, captured by the simulated OS) vs upgrade-time definition (real build_upgrade_install_context on the recorded data), both interpreted by the real antnode binary of the working tree through the guarded option-dump hook",
             text="Random combinations of all installable options; definitions compared field by field, both argument lists must be accepted by the real clap parser with identical parsed options, and every parsed field must equal the intended configuration.",
             note="antnode is rebuilt from /repo with --features verif-hooks on every run; combinations are sampled (not exhaustive); cmd::node::upgrade itself is out of reach offline.", ref="DESIGN.md §4 C20"),
 "C19": dict(level="fault_enumeration", tech="fault enumeration over a simulated OS/RPC (ServiceControl / RpcActions implementations with a per-call fault plan) driving the real add_node, ServiceManager, refresh_node_registry and NodeRegistry save/load; state oracle after every operation",
             text="For every sampled operation sequence the fault-free run counts the N control/RPC calls; every single fault placement (and 'start succeeds but the process dies') is executed, in thorough also every pair (complete for N <= 16). After each operation of each run the registry is compared with the simulated process table.",
             note="SimOs/SimRpc model a well-behaved service manager plus injected failures; sequences are sampled, fault placements per sequence are enumerated; three signatures of one structural defect are known findings.", ref="DESIGN.md §4 C19"),
 "C11": dict(level="exploration", tech="independent reference metric (sha2 SHA-256 + big-endian XOR) compared with every closeness decision of the real code: distance conversion, peer sorting, range filters, closest-peer selection, replication candidates / close group / closest-K through a real driver with a filled routing table, store range counts and farthest record incl. after a real restart",
             text="Random and constructed address pairs of all six kinds (equal, typed vs raw-key, hashes sharing leading bytes) and peer sets of 0..K+1 are run through the real functions and compared with the integer metric; every 4th case builds a real node driver + store.",
             note="sha2 trusted; boundary distance == range not judged; 'too few known' read against the documented API (sort_peers errs below CLOSE_GROUP_SIZE).", ref="DESIGN.md §4 C11"),
 "C10": dict(level="exploration", tech="step-wise reference-model oracle on a real node store with small capacity: gate-controlled acknowledgements, index/distance-index snapshots through guarded hooks, independent SHA-256/XOR metric, quote inspection via the real GetLocalQuotingMetrics handler",
             text="Random histories of puts at chosen distances, bursts of unacknowledged writes, overwrites, range updates, clean-ups, payments and quiesced restarts; every put decision at capacity, every eviction, every refusal, the retained count after every step, the quoted figures and the index invariants at quiescent points are judged. Two structural defects are recorded as known findings with fine-grained signatures.",
             note="Capacity decisions judged only with nothing in flight; overshoot is classified as the known finding only up to the number of puts the harness saw accepted while logically full.", ref="DESIGN.md §4 C10"),
 "C02": dict(level="exploration", tech="crash-point + torn-file injection on a real node store with gate-controlled disk tasks, followed by real restarts (NetworkBuilder::build_node, same identity) judged by a history oracle",
             text="Random histories are crashed at random scheduler steps (arbitrary causally closed subsets of completed disk tasks); for an incomplete write the real ciphertext is cut at every byte prefix (<= 1 KiB) or at boundary + random cuts, and the node is really restarted over each variant; served bytes, durability of completed writes/removals, listing and index consistency are judged.",
             note="Crash granularity is the scheduler step; a write in progress is modelled as truncate + arbitrary ciphertext prefix; harness links ant-node with default features (shipped configuration).", ref="DESIGN.md §4 C02"),
 "C01": dict(level="exploration", tech="history + reference-model oracle on a real node SwarmDriver/NodeRecordStore driven through the real command handlers; guarded gates park the spawned disk-write / delete tasks and a seeded scheduler releases them in arbitrary cross-key order",
             text="Random multi-key histories of puts / overwrites / identical re-puts / removes / reads run on the real store (encryption on, small caches) while the scheduler permutes command handling and disk-task completion across keys; every read is judged against the values ever handed for that key, and at quiescent points every key is judged for exact bytes, contains, listing and file presence.",
             note="Same-key tasks and commands keep spawn order (the statement promises independence across keys only); the harness scheduler and gate hook are trusted to preserve causality.", ref="DESIGN.md §4 C01"),
 "C06": dict(level="exploration", tech="reference-model oracle (admissible-set model written from the statement) over random operation pools, delivery orders, duplications, partitions and merges on real SignedRegister / RegisterCrdt replicas; closure check by re-decoding and verify()",
             text="Pools of authorised / unauthorised / forged / oversized / foreign-address / causally chained operations are delivered to 2-5 real replicas in random orders and healed by random merges; every add_op result, every replica's op set, convergence of op sets and of CRDT reads, merge algebra and closure (incl. at and across the 1024-entry limit) are judged.",
             note="Open registers take any operation; forgeries are bit-level (no hash-collision attacks on the 64-bit signed digest).", ref="DESIGN.md §4 C06"),
 "C17": dict(level="exploration", tech="no-panic / round-trip monitor: 14 parser targets run under catch_unwind in sharded processes built with overflow-checks + debug-assertions (the arithmetic sanitizer); shard-crash journal turns aborts into violations",
             text="Generated hostile inputs (empty, boundary lengths around every fixed offset, boundary numerics, non-ASCII, very long, mutated valid encodings, hostile JSON leaves, authentic ciphertexts of hostile plaintexts) are fed to the real parsers; any panic/overflow/abort is a violation, and parse(format(x)) == x is checked where a formatter exists.",
             note="Overflow is observed because the harness compiles /repo crates with overflow-checks; ant-cli's binary-only wallet module is compiled in via #[path] from the working tree.", ref="DESIGN.md §4 C17"),
 "C12": dict(level="exploration", tech="round-trip + golden-vector + hostile-input monitor over the real encoders/decoders (MessagePack and CBOR), exhaustive over the 8-kind tag table and 248 unknown tags; shard-crash journal turns aborts into violations",
             text="Random values of every record kind (with/without payment proofs) and every request/response variant are encoded and decoded by the real code; tag table and a committed golden corpus pin the wire form; ~250 hostile byte strings per case go through 17 decoders under catch_unwind in sharded child processes.",
             note="Golden vectors were generated from the pinned tree and are the trusted wire form; equality uses the types' PartialEq.", ref="DESIGN.md §4 C12"),
 "C18": dict(level="exploration", tech="invariant + history oracle over random API histories on two stores sharing one file, CacheData-level merge/clean-up with arbitrary timestamps, corrupt-file corpus, and a multi-process writer/reader stress run observing the shared file",
             text="Every operation of random histories on the real BootstrapCacheStore is followed by bound/form/merge-superset/save-load checks; clean-up is judged on arbitrary timestamps; corrupt and hostile files must not crash; 4-10 real processes flush concurrently while a reader requires every load of an existing file to succeed. Exploration: unbounded histories and interleavings.",
             note="Bounds judged where the code promises them (after add/clean-up/load); stress run is nondeterministic but its oracle is interleaving-sound.", ref="DESIGN.md §4 C18"),
 "C08": dict(level="exploration", tech="online shadow-model monitor over random call traces on the real ReplicationFetcher (guarded wrapper), virtual time by deadline ageing, event capture",
             text="Random traces of advertisements/arrivals/completions/range+fullness updates/timer expiries are executed on the real fetcher; after every call returned fetches, queue snapshots and emitted events are judged by ten oracle clauses plus a bounded-progress phase. Exploration: the interleaving space is unbounded; the oracle is per-step and exact for the clauses it encodes.",
             note="Virtual time shifts the stored Instant deadlines through a guarded hook; store contents change only via notified puts; liveness restated as bounded progress (ceil(U/20)+7 rounds).", ref="DESIGN.md §4 C08"),
 "C13": dict(level="exploration", tech="mutation-based oracle over real signed quotes/proofs (ed25519 libp2p identities), clock-bracketed expiry samples",
             text="Authentically signed quotes and proofs are mutated field by field and in combination and the real verification/expiry/history functions are judged against the statement; held = no accepted forgery, no mis-classified timestamp on the cases listed.",
             note="Only ed25519 identities exist in this build; sub-second timestamp changes are unsigned by design and not judged; 'if' directions are sanity controls (inconclusive, not violation).", ref="DESIGN.md §4 C13"),
 "C16": dict(level="exploration", tech="reference-model oracle (independent decimal/256-bit arithmetic) over generated amounts, strings and pairs run against the real AttoTokens; overflow-checks build",
             text="Every generated amount/string/pair is executed against the real Display/FromStr/checked_add/checked_sub and judged by an independent byte-array reference; held = no disagreement on the cases listed in evidence. Exploration is the right level: the input space is unbounded, the oracle is exact.",
             note="Trusts ruint's byte (de)serialisation and the harness' own reference arithmetic; strings with an empty integer part or surplus zero fraction digits are not judged.", ref="DESIGN.md §4 C16"),
}
NOT_APPLICABLE = []
def hooks_commits():
    out = subprocess.run(["git","-C","/repo","log","--format=%h %s"],capture_output=True,text=True).stdout.splitlines()
    return [l.split()[0] for l in out if " verif-hooks:" in l]
m = {
 "version": 1,
 "setup_cmd": "cd /verif && ./setup.sh",
 "hooks": {
   "guard": "cargo feature `verif-hooks` (ant-networking, ant-node, autonomi); off by default",
   "enable": "the harness crate /verif/harness depends on /repo crates by path with features=[\"verif-hooks\"]; antnode for C20 is built with `--features verif-hooks`",
   "baseline_off_cmd": "cd /repo && cargo nextest run --workspace --no-fail-fast --test-threads 8 --offline || cargo test --workspace --no-fail-fast --offline",
   "source_commits": hooks_commits(),
   "add_only": True,
 },
 "engines": [
   {"name": "vcheck", "path": "/verif/harness", "serves_properties": sorted(CHECKS), "kind_free_text": "Rust harness linking the real crates from /repo's working tree: workload generators, schedule/fault control, event logs and oracles; sharded over 16 processes"}
 ],
 "checks": [
   {"property_id": pid, "quick_cmd": f"./check {pid} quick", "thorough_cmd": f"./check {pid} thorough",
    "evidence_file": f"/verif/evidence/{pid}.json", "replay_cmd_template": f"./check {pid} --replay {{path}}", "engine": "vcheck",
    "level_claimed": {"category": c["level"], "text": c["text"], "design_ref": c["ref"]},
    "level_note": c["note"], "technique": "runtime monitoring: " + c["tech"]}
   for pid, c in sorted(CHECKS.items())
 ],
 "not_applicable": NOT_APPLICABLE,
 "notes": "exit codes: 0 held on everything explored, 1 VIOLATION, 2 INCONCLUSIVE (never folded into the others). VERIF_SEED seeds every random choice. Known findings: /verif/known_findings.json.",
}
json.dump(m, open("/verif/MANIFEST.json","w"), indent=1)
print("checks:", len(m["checks"]))
