//! C14 — self-encrypted data round-trips; chunks are bounded and content-addressed.
//!
//! The real `autonomi::self_encryption::encrypt` produces the data map chunk and chunks; a real
//! `Client` (`data_get_public` / `data_get`) then fetches them back through a real client
//! SwarmDriver whose get-record queries the harness answers from memory in a chosen order.
//! `MAX_CHUNK_SIZE` is a compile-time constant of the self_encryption crate, so odd case indices run
//! in a second build of this harness with `MAX_CHUNK_SIZE=1024`, where data maps of a few hundred
//! KiB already need two and three levels.

use crate::clientsim::{ClientSim, Order, Reply};
use crate::common::*;
use crate::gen;
use autonomi::client::data::DataMapChunk;
use bytes::Bytes;
use rand::{seq::SliceRandom, Rng, RngCore};
use self_encryption::{DataMap, EncryptedChunk, MAX_CHUNK_SIZE};
use serde::Deserialize;
use serde_json::json;
use std::collections::HashMap;
use std::path::PathBuf;
use xor_name::XorName;

pub struct C14;

pub const SMALL_EXE: &str = "/verif/harness/target-small/release/vcheck";
pub const SMALL_MAX: usize = 1024;

/// mirror of autonomi's crate-private `DataMapLevel` (same serde shape)
#[derive(Deserialize)]
enum Level {
    First(DataMap),
    Additional(DataMap),
}

fn content_hash(b: &[u8]) -> [u8; 32] {
    use tiny_keccak::{Hasher, Sha3};
    let mut h = Sha3::v256();
    let mut out = [0u8; 32];
    h.update(b);
    h.finalize(&mut out);
    out
}

fn make_content<R: Rng>(rng: &mut R, len: usize) -> (Vec<u8>, &'static str) {
    let mut v = vec![0u8; len];
    match rng.gen_range(0..6) {
        0 | 1 => {
            rng.fill_bytes(&mut v);
            (v, "incompressible")
        }
        2 => (v, "zeros"),
        3 => {
            let pat = gen::bytes_r(rng, 1, 40);
            for (i, b) in v.iter_mut().enumerate() {
                *b = pat[i % pat.len()];
            }
            (v, "pattern")
        }
        4 => {
            let cut = if len > 0 { rng.gen_range(0..len) } else { 0 };
            rng.fill_bytes(&mut v[..cut]);
            (v, "half-random")
        }
        _ => {
            let words = [&b"lorem "[..], b"ipsum ", b"dolor ", b"sit ", b"amet, ", b"0123456789 "];
            let mut i = 0;
            while i < len {
                let w = words.choose(rng).expect("nonempty");
                let n = w.len().min(len - i);
                v[i..i + n].copy_from_slice(&w[..n]);
                i += n;
            }
            (v, "text")
        }
    }
}

/// harness-side reference traversal of what `encrypt` wrote (the writer's own format: the decrypted
/// bytes of an additional level are a msgpack `bin` holding the previous level's wrapped data map)
fn reference_unpack(top: &[u8], store: &HashMap<[u8; 32], Vec<u8>>) -> Result<(usize, Vec<u8>), String> {
    let mut level: Level = rmp_serde::from_slice(top).map_err(|e| format!("top level: {e}"))?;
    let mut levels = 1;
    loop {
        let map = match &level {
            Level::First(m) | Level::Additional(m) => m,
        };
        let mut enc = vec![];
        for info in map.infos() {
            let v = store.get(&info.dst_hash.0).ok_or_else(|| "data map names a chunk that encrypt did not return".to_string())?;
            enc.push(EncryptedChunk { index: info.index, content: Bytes::from(v.clone()) });
        }
        let data = self_encryption::decrypt_full_set(map, &enc).map_err(|e| format!("decrypt: {e}"))?;
        match level {
            Level::First(_) => return Ok((levels, data.to_vec())),
            Level::Additional(_) => {
                let inner: Bytes = rmp_serde::from_slice(&data).map_err(|e| format!("inner chunk: {e}"))?;
                level = rmp_serde::from_slice(&inner).map_err(|e| format!("inner level: {e}"))?;
                levels += 1;
            }
        }
    }
}

impl Check for C14 {
    fn id(&self) -> &'static str {
        "C14"
    }
    fn rule(&self) -> String {
        "each case: a byte string (length on / next to a size-class boundary: 0..6, MAX-1..MAX+1, 3*MAX-1..3*MAX+1, k*MAX-1..k*MAX+1, the data-map level thresholds, or random; content incompressible / zeros / short pattern / half random / text) is given to the real autonomi::self_encryption::encrypt twice; \
         then a real Client fetches it back (data_get_public from the data-map address, or data_get from the private data map) through a real client SwarmDriver whose kad get-record queries the harness answers from the produced chunks in FIFO, LIFO or random completion order. \
         Judged: inputs shorter than 3 bytes are rejected by an error, all others encrypt; both encryptions give the same data-map chunk and chunk address list; every produced chunk (data, additional-level and data-map chunk) is <= MAX_CHUNK_SIZE bytes and its address is the SHA3-256 of its content (recomputed by the harness); the client asks only for produced addresses; the bytes returned equal the input. \
         Even case indices run with the shipped MAX_CHUNK_SIZE (1 MiB), odd ones in a second build with MAX_CHUNK_SIZE=1024 where 2- and 3-level data maps occur. Non-trivial: an encryptable input whose fetch ran; distinct = hash of (length, content class, access mode, completion order of the answered queries)."
            .into()
    }
    fn assumptions(&self) -> Vec<String> {
        vec![
            "holders are honest here (C15 covers substituted content); each query is answered by one found-record reply".into(),
            "multi-level data maps are reached by compiling self_encryption with MAX_CHUNK_SIZE=1024 (its documented compile-time knob); with the shipped 1 MiB they need inputs of ~10 GiB".into(),
            "lengths up to 6 MiB (1 MiB build) and 1.7 MiB (1 KiB build)".into(),
        ]
    }
    fn cases(&self, tier: Tier) -> u64 {
        tier.pick(640, 16_000)
    }
    fn min_nontrivial(&self, tier: Tier) -> u64 {
        tier.pick(300, 8_000)
    }
    fn shard_budget(&self, tier: Tier) -> std::time::Duration {
        tier.pick(std::time::Duration::from_secs(200), std::time::Duration::from_secs(2400))
    }
    fn required_counters(&self, _tier: Tier) -> Vec<&'static str> {
        vec!["levels:1", "levels:2", "levels:3", "rejected:too-small", "order:Random", "content:incompressible", "build:max=1048576", "build:max=1024", "mode:public", "mode:private", "round-trip-ok"]
    }
    fn exe_for_index(&self, index: u64) -> Option<PathBuf> {
        if index % 2 == 1 {
            Some(PathBuf::from(SMALL_EXE))
        } else {
            Some(PathBuf::from("/verif/harness/target/release/vcheck"))
        }
    }
    fn lane_cases(&self, tier: Tier) -> u64 {
        tier.pick(6, 48)
    }
    fn run_case(&self, cx: &mut Cx) {
        // the number of chunk downloads a client runs at once is read from the environment once per process: each shard
        // process picks one setting (shards 0/1: unset; then 0, 1, 3, 64 ...) before the first read
        static BATCH: std::sync::OnceLock<String> = std::sync::OnceLock::new();
        let setting = BATCH.get_or_init(|| {
            let shard = (cx.index % LANE_BASE) % 16;
            let v = ["unset", "unset", "0", "0", "1", "1", "3", "3", "64", "64", "unset", "unset", "2", "2", "0", "0"][shard as usize];
            if v != "unset" {
                std::env::set_var("CHUNK_DOWNLOAD_BATCH_SIZE", v);
            }
            v.to_string()
        });
        cx.count(&format!("download-batch-size:{setting}"));
        if cx.index >= LANE_BASE {
            return crate::realcases::c14_case(cx);
        }
        let max = *MAX_CHUNK_SIZE;
        let want_small = cx.index % 2 == 1;
        if want_small != (max == SMALL_MAX) {
            cx.inconclusive(format!("case belongs to the other build (MAX_CHUNK_SIZE here is {max})"));
            return;
        }
        cx.count(&format!("build:max={max}"));
        // ---- length
        let small_lens = [0usize, 1, 2, 3, 4, 5, 6, 7, 8, 9, 10, 31, 32, 33, 100];
        let len = if want_small {
            match cx.rng.gen_range(0..12) {
                0 => *small_lens.choose(&mut cx.rng).expect("nonempty"),
                1 => cx.rng.gen_range(3..3 * max),
                2 => 3 * max + cx.rng.gen_range(0..3) - 1,
                3 | 4 => {
                    // around the first data-map threshold (about 8-14 chunks)
                    let k = cx.rng.gen_range(4..=16);
                    k * max + [0usize, 1, max - 1, cx.rng.gen_range(0..max)].choose(&mut cx.rng).copied().expect("nonempty")
                }
                5 | 6 | 7 => {
                    let k = cx.rng.gen_range(16..=200);
                    k * max + [0usize, 1, max - 1, cx.rng.gen_range(0..max)].choose(&mut cx.rng).copied().expect("nonempty")
                }
                8 => cx.rng.gen_range(1100..1700) * max + cx.rng.gen_range(0..max),
                _ => cx.rng.gen_range(3..300 * max),
            }
        } else {
            match cx.rng.gen_range(0..16) {
                0 | 1 => *small_lens.choose(&mut cx.rng).expect("nonempty"),
                2..=6 => cx.rng.gen_range(3..20_000),
                7 => max + cx.rng.gen_range(0..3) - 1,
                8 => cx.rng.gen_range(20_000..3 * max),
                9 | 10 => 3 * max + cx.rng.gen_range(0..3) - 1,
                11 => 4 * max + cx.rng.gen_range(0..3) - 1,
                12 => cx.rng.gen_range(3 * max..6 * max),
                _ => cx.rng.gen_range(3..200_000),
            }
        };
        let (data, class) = make_content(&mut cx.rng, len);
        cx.count(&format!("content:{class}"));
        cx.count(if len < 3 * max { "size-class:<3MAX" } else { "size-class:>=3MAX" });
        let w = json!({"len": len, "content": class, "max_chunk_size": max});

        // ---- encrypt twice
        let d1 = Bytes::from(data.clone());
        let d2 = Bytes::from(data.clone());
        let e1 = catch(|| autonomi::self_encryption::encrypt(d1));
        let e2 = catch(|| autonomi::self_encryption::encrypt(d2));
        cx.eval();
        let (e1, e2) = match (e1, e2) {
            (Ok(a), Ok(b)) => (a, b),
            (Err(p), _) | (_, Err(p)) => {
                cx.violation("encrypt-panicked", format!("encrypt panicked on {len} bytes: {p} {}", crate::last_panic()), w);
                return;
            }
        };
        if len < 3 {
            match &e1 {
                Err(_) => cx.count("rejected:too-small"),
                Ok(_) => cx.violation("too-small-input-accepted", format!("{len} bytes were self-encrypted instead of rejected"), w.clone()),
            }
            if e1.is_ok() != e2.is_ok() {
                cx.violation("nondeterministic-result", "two encryptions of the same input disagree on Ok/Err", w);
            }
            return;
        }
        let ((map1, chunks1), (map2, chunks2)) = match (e1, e2) {
            (Ok(a), Ok(b)) => (a, b),
            (Err(e), _) | (_, Err(e)) => {
                cx.violation("encryptable-input-rejected", format!("{len} bytes: {e}"), w);
                return;
            }
        };
        // the chunk *set* is what the statement fixes; `encrypt` collects from a parallel iterator and
        // does not promise an order of the returned Vec
        let mut addrs1: Vec<XorName> = chunks1.iter().map(|c| *c.name()).collect();
        let mut addrs2: Vec<XorName> = chunks2.iter().map(|c| *c.name()).collect();
        if addrs1 != addrs2 {
            cx.count("chunk-vec-order-differs-between-runs");
        }
        addrs1.sort();
        addrs2.sort();
        if map1.value() != map2.value() || map1.name() != map2.name() || addrs1 != addrs2 {
            cx.violation("nondeterministic-encryption", format!("two encryptions of the same {len} bytes differ (data map equal: {}, {} vs {} chunks)", map1.value() == map2.value(), addrs1.len(), addrs2.len()), w.clone());
        }
        // ---- bounds and addressing
        let mut store: HashMap<[u8; 32], Vec<u8>> = HashMap::new();
        let mut worst = 0usize;
        for c in chunks1.iter().chain(std::iter::once(&map1)) {
            cx.eval();
            let h = content_hash(c.value());
            if h != c.name().0 {
                cx.violation("chunk-address-not-content-hash", format!("chunk of {} bytes is addressed {} but hashes to {}", c.value().len(), hex(&c.name().0), hex(&h)), w.clone());
            }
            if c.value().len() > max {
                if c.name() == map1.name() {
                    cx.violation("data-map-chunk-exceeds-max-chunk-size", format!("the data map chunk is {} bytes, MAX_CHUNK_SIZE={max} (input {len} bytes)", c.value().len()), w.clone());
                } else {
                    worst = worst.max(c.value().len() - max);
                }
            }
            store.insert(c.name().0, c.value().to_vec());
        }
        if worst > 0 {
            // self_encryption slices the plaintext at MAX_CHUNK_SIZE and then compresses + AES-CBC-pads each
            // slice: an incompressible full slice grows by the stream framing and one cipher block
            let sig = if worst <= 32 { "chunk-exceeds-max-chunk-size:full-slice-plus-cipher-padding" } else { "chunk-exceeds-max-chunk-size" };
            cx.violation(sig, format!("a produced chunk is {worst} bytes larger than MAX_CHUNK_SIZE={max} (input {len} bytes, {class})"), w.clone());
        }
        let reference = reference_unpack(map1.value(), &store);
        let levels = match &reference {
            Ok((l, bytes)) => {
                if *bytes != data {
                    cx.violation("written-format-does-not-decode-to-input", "harness-side traversal of the produced chunks gives other bytes", w.clone());
                }
                *l
            }
            Err(e) => {
                cx.violation("written-format-unreadable", format!("harness-side traversal of the produced chunks failed: {e}"), w.clone());
                0
            }
        };
        cx.count(&format!("levels:{levels}"));
        cx.count_n("chunks-produced", chunks1.len() as u64 + 1);
        // ---- a later version of the same document, encrypted right afterwards in this process: same length, same
        // beginning and end, a few other bytes in between; what is produced for it must decode to IT
        if cx.rng.gen_bool(0.5) {
            let mut later = data.clone();
            let (lo, hi) = if len > 3 * 4096 { (len / 3, 2 * len / 3) } else { (0, len) };
            for _ in 0..cx.rng.gen_range(1..=8) {
                let at = cx.rng.gen_range(lo..hi);
                later[at] ^= cx.rng.gen_range(1..=255u8);
            }
            let lb = Bytes::from(later.clone());
            cx.eval();
            cx.count("later-versions-of-the-same-length");
            match catch(|| autonomi::self_encryption::encrypt(lb)) {
                Ok(Ok((lmap, lchunks))) => {
                    let mut lstore: HashMap<[u8; 32], Vec<u8>> = HashMap::new();
                    for c in lchunks.iter().chain(std::iter::once(&lmap)) {
                        lstore.insert(c.name().0, c.value().to_vec());
                    }
                    match reference_unpack(lmap.value(), &lstore) {
                        Ok((_, bytes)) if bytes == later => {}
                        Ok((_, bytes)) => cx.violation("later-version-encrypted-as-other-bytes", format!("a second version of the {len}-byte input (same length, other bytes in the middle) was encrypted to chunks that decode to {}", if bytes == data { "the FIRST version" } else { "something else" }), w.clone()),
                        Err(e) => cx.violation("written-format-unreadable", format!("later version: harness-side traversal failed: {e}"), w.clone()),
                    }
                }
                Ok(Err(e)) => cx.violation("encryptable-input-rejected", format!("later version of {len} bytes: {e}"), w.clone()),
                Err(p) => cx.violation("encrypt-panicked", format!("later version of {len} bytes: {p}"), w.clone()),
            }
        }

        // ---- fetch through the real client
        let mut cs = ClientSim::new(&mut cx.rng);
        let public = cx.rng.gen_bool(0.5);
        cx.count(if public { "mode:public" } else { "mode:private" });
        let order = match cx.rng.gen_range(0..4) {
            0 => Order::Fifo,
            1 => Order::Lifo,
            _ => Order::Random,
        };
        cx.count(match order {
            Order::Fifo => "order:Fifo",
            Order::Lifo => "order:Lifo",
            Order::Random => "order:Random",
        });
        let client = cs.client.clone();
        let h = if public {
            let addr = *map1.name();
            cs.sim.spawn(async move { client.data_get_public(addr).await })
        } else {
            let dm = DataMapChunk::from(map1.clone());
            cs.sim.spawn(async move { client.data_get(dm).await })
        };
        // one case in eight withholds one produced chunk (a holder that lost it): the read must then fail with an error,
        // never return bytes
        let withheld: Option<[u8; 32]> = if cx.rng.gen_bool(0.125) && !chunks1.is_empty() {
            let victim = chunks1[cx.rng.gen_range(0..chunks1.len())].name().0;
            store.remove(&victim);
            cx.count("fetches-with-a-withheld-chunk");
            Some(victim)
        } else {
            None
        };
        let mut unknown_asked: Vec<String> = vec![];
        let mut drive_rng = rand::rngs::StdRng::clone(&cx.rng);
        let finished = {
            let mut done = || h.is_finished();
            let mut answer = |key: &libp2p::kad::RecordKey, _nth: usize| -> Vec<Reply> {
                let k: Option<[u8; 32]> = key.as_ref().try_into().ok();
                match k.and_then(|k| store.get(&k)) {
                    Some(v) => {
                        let rec = gen::chunk_record(&ant_protocol::storage::Chunk::new(Bytes::from(v.clone())));
                        vec![Reply::Found(0, rec.value), Reply::Finished]
                    }
                    None => {
                        if k != withheld {
                            unknown_asked.push(hex(key.as_ref()));
                        }
                        vec![Reply::NotFound]
                    }
                }
            };
            cs.drive(&mut drive_rng, &order, &mut done, &mut answer)
        };
        if !finished {
            h.abort();
            cx.inconclusive(format!("fetch of {len} bytes did not finish ({} queries answered)", cs.answered.len()));
            return;
        }
        let out = cs.sim.rt.block_on(h);
        cx.evals(cs.answered.len() as u64);
        cx.count_n("queries-answered", cs.answered.len() as u64);
        if cs.max_outstanding >= 2 {
            cx.count("fetches-with-concurrent-queries");
        }
        cx.nontrivial(&(len, class, public, h64(&cs.answered)));
        if !unknown_asked.is_empty() {
            cx.violation("client-asked-for-unproduced-address", format!("client asked for {} which encrypt did not produce", unknown_asked[0]), w.clone());
        }
        let w2 = json!({"len": len, "content": class, "max_chunk_size": max, "levels": levels, "public": public, "queries": cs.answered.len(), "chunks": chunks1.len()});
        if withheld.is_some() {
            match out {
                Ok(Ok(bytes)) => cx.violation("bytes-returned-although-a-chunk-was-missing", format!("one of the {} chunks was not retrievable, yet the read returned {} bytes ({} were stored)", chunks1.len() + 1, bytes.len(), len), w2),
                Ok(Err(_)) => cx.count("withheld-chunk-reported-as-error"),
                Err(e) => cx.violation("fetch-task-panicked", format!("client fetch task died: {e} {}", crate::last_panic()), w2),
            }
            return;
        }
        match out {
            Err(e) => cx.violation("fetch-task-panicked", format!("client fetch task died: {e} {}", crate::last_panic()), w2),
            Ok(Err(e)) => {
                let class_e = format!("{e:?}");
                let short = class_e.split(['(', ' ', '{']).next().unwrap_or("").to_string();
                let sig = if levels >= 2 { format!("round-trip-failed:multi-level:{short}") } else { format!("round-trip-failed:{short}") };
                cx.violation(sig, format!("{len} bytes ({levels} data-map levels) did not come back: {e:?}"), w2);
            }
            Ok(Ok(bytes)) => {
                if bytes.as_ref() == data.as_slice() {
                    cx.count("round-trip-ok");
                    if levels >= 2 {
                        cx.count("round-trip-ok:multi-level");
                    }
                    cx.sample(w2);
                } else {
                    let sig = if levels >= 2 { "round-trip-mangled:multi-level" } else { "round-trip-mangled" };
                    cx.violation(sig, format!("{len} bytes went in, {} different bytes came back", bytes.len()), w2);
                }
            }
        }
    }
}
