//! A real autonomi `Client` over a real client `SwarmDriver` whose kad get-record queries are
//! answered by the harness: the real `GetNetworkRecord` handler registers the real query, the harness
//! plays the holders by feeding kad progress events for the real QueryId (as C05 does), in an order
//! and with contents the check chooses.

use crate::gen;
use crate::sim::Sim;
use autonomi::Client;
use libp2p::kad::{self, RecordKey};
use libp2p::PeerId;
use rand::Rng;
use std::collections::HashMap;
use std::num::NonZeroUsize;

#[derive(Clone, Debug)]
pub enum Reply {
    /// a holder (index into `ClientSim::peers`) returns this record value for the requested key
    Found(usize, Vec<u8>),
    Finished,
    NotFound,
    Timeout,
}

pub struct ClientSim {
    pub sim: Sim,
    pub ci: usize,
    pub client: Client,
    pub peers: Vec<PeerId>,
    /// keys in the order their queries were answered
    pub answered: Vec<Vec<u8>>,
    pub max_outstanding: usize,
    pub asked: HashMap<Vec<u8>, usize>,
    /// replies that reached the real handler while the query was still pending: (key, nth query, reply index)
    pub delivered: Vec<(Vec<u8>, usize, usize)>,
    steps: HashMap<String, usize>,
}

pub enum Order {
    Fifo,
    Random,
    Lifo,
}

impl ClientSim {
    pub fn new<R: Rng>(rng: &mut R) -> Self {
        let mut sim = Sim::new(rng.gen(), false);
        let ckp = gen::ed_keypair(rng);
        let ci = sim.add_client(ckp);
        let evm = evmlib::Network::new_custom("http://127.0.0.1:9/", "0x5FbDB2315678afecb367f032d93F642f64180aa3", "0x8464135c8F25Da09e49BC8782676a84730C318bC");
        let client = Client::verif_new(sim.nodes[ci].network.clone(), evm);
        let peers = (0..8).map(|_| PeerId::from(gen::ed_keypair(rng).public())).collect();
        ClientSim { sim, ci, client, peers, answered: vec![], max_outstanding: 0, asked: HashMap::new(), delivered: vec![], steps: HashMap::new() }
    }

    fn pump(&mut self) {
        for _ in 0..64 {
            if !self.sim.step() {
                break;
            }
        }
        self.sim.yield_rounds(3);
    }

    /// Drive the client operation behind `done` to its end. `answer(key, nth)` gives the replies for
    /// the nth query for that key. Returns false if the operation did not finish (inconclusive).
    pub fn drive<R: Rng>(&mut self, rng: &mut R, order: &Order, done: &mut dyn FnMut() -> bool, answer: &mut dyn FnMut(&RecordKey, usize) -> Vec<Reply>) -> bool {
        let wall = std::time::Instant::now();
        let mut idle = 0u32;
        loop {
            self.pump();
            if done() {
                return true;
            }
            if wall.elapsed() > std::time::Duration::from_secs(120) {
                return false;
            }
            let pending = self.sim.nodes[self.ci].drv.verif_pending_get_record();
            if pending.is_empty() {
                idle += 1;
                if idle > 600 {
                    return false;
                }
                // the client may be in a (virtual-time) back-off
                self.sim.advance(500);
                continue;
            }
            idle = 0;
            self.max_outstanding = self.max_outstanding.max(pending.len());
            // QueryIds grow with issue order
            let mut p: Vec<_> = pending.into_iter().map(|(q, k, _, _)| (format!("{q:?}"), q, k)).collect();
            p.sort_by_key(|(n, _, _)| n.trim_start_matches(|c: char| !c.is_ascii_digit()).trim_end_matches(')').parse::<u64>().unwrap_or(0));
            let pick = match order {
                Order::Fifo => 0,
                Order::Lifo => p.len() - 1,
                Order::Random => rng.gen_range(0..p.len()),
            };
            let (qname, qid, key) = p.swap_remove(pick);
            let nth = {
                let e = self.asked.entry(key.to_vec()).or_default();
                *e += 1;
                *e - 1
            };
            self.answered.push(key.to_vec());
            let replies = answer(&key, nth);
            for (ri, r) in replies.into_iter().enumerate() {
                let still = self.sim.nodes[self.ci].drv.verif_pending_get_record().iter().any(|(id, _, _, _)| *id == qid);
                if !still {
                    break;
                }
                self.delivered.push((key.to_vec(), nth, ri));
                let c = self.steps.entry(qname.clone()).or_default();
                *c += 1;
                let step = kad::ProgressStep { count: NonZeroUsize::new(*c).expect("nz"), last: !matches!(r, Reply::Found(..)) };
                let result = match r {
                    Reply::Found(p, value) => kad::QueryResult::GetRecord(Ok(kad::GetRecordOk::FoundRecord(kad::PeerRecord { peer: Some(self.peers[p % self.peers.len()]), record: gen::record(key.clone(), value) }))),
                    Reply::Finished => kad::QueryResult::GetRecord(Ok(kad::GetRecordOk::FinishedWithNoAdditionalRecord { cache_candidates: Default::default() })),
                    Reply::NotFound => kad::QueryResult::GetRecord(Err(kad::GetRecordError::NotFound { key: key.clone(), closest_peers: vec![] })),
                    Reply::Timeout => kad::QueryResult::GetRecord(Err(kad::GetRecordError::Timeout { key: key.clone() })),
                };
                let kev = kad::Event::OutboundQueryProgressed { id: qid, result, stats: kad::QueryStats::empty(), step };
                {
                    let _g = self.sim.rt.enter();
                    let _ = self.sim.nodes[self.ci].drv.verif_handle_kad_event(kev);
                }
                self.sim.yield_rounds(3);
            }
        }
    }
}
