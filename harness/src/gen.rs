//! Shared generators of protocol values (chunks, scratchpads, transactions, registers, payment
//! proofs) built through the public APIs, plus serde mirrors to craft forged variants.

use ant_evm::{EncodedPeerId, PaymentQuote, ProofOfPayment, QuotingMetrics, RewardsAddress};
use ant_protocol::storage::{
    try_serialize_record, Chunk, RecordKind, Scratchpad, ScratchpadAddress, Transaction,
};
use ant_protocol::NetworkAddress;
use ant_registers::{Permissions, Register, RegisterAddress, RegisterOp, SignedRegister};
use bls::{PublicKey, SecretKey, Signature};
use bytes::Bytes;
use crdts::merkle_reg::Node as MerkleDagEntry;
use libp2p::identity::Keypair;
use libp2p::kad::{Record, RecordKey};
use libp2p::PeerId;
use rand::Rng;
use serde::{Deserialize, Serialize};
use std::collections::BTreeSet;
use std::time::{Duration, SystemTime};
use xor_name::XorName;

/// deterministic BLS secret key from the case RNG
pub fn bls_sk(rng: &mut impl Rng) -> SecretKey {
    loop {
        let mut b = [0u8; 32];
        rng.fill(&mut b);
        b[0] &= 0x3f; // below the field modulus with high probability
        if let Ok(sk) = SecretKey::from_bytes(b) {
            return sk;
        }
    }
}

pub fn bytes(rng: &mut impl Rng, n: usize) -> Vec<u8> {
    let mut v = vec![0u8; n];
    rng.fill(v.as_mut_slice());
    v
}

/// random bytes with a random length in lo..=hi
pub fn bytes_r(rng: &mut impl Rng, lo: usize, hi: usize) -> Vec<u8> {
    let n = rng.gen_range(lo..=hi);
    bytes(rng, n)
}

pub fn chunk(rng: &mut impl Rng, n: usize) -> Chunk {
    Chunk::new(Bytes::from(bytes(rng, n)))
}

pub fn record(key: RecordKey, value: Vec<u8>) -> Record {
    Record { key, value, publisher: None, expires: None }
}

pub fn chunk_record(c: &Chunk) -> Record {
    record(
        NetworkAddress::from_chunk_address(*c.address()).to_record_key(),
        try_serialize_record(c, RecordKind::Chunk).expect("serialise chunk").to_vec(),
    )
}

/// Mirror of `Scratchpad` (field order = wire order) to craft arbitrary pads through serde.
#[derive(Serialize, Deserialize, Clone, Debug)]
pub struct RawPad {
    pub address: ScratchpadAddress,
    pub data_encoding: u64,
    pub encrypted_data: Bytes,
    pub counter: u64,
    pub signature: Option<Signature>,
}

impl RawPad {
    pub fn from_pad(p: &Scratchpad) -> Self {
        rmp_serde::from_slice(&rmp_serde::to_vec(p).expect("encode pad")).expect("pad -> raw")
    }
    pub fn to_pad(&self) -> Scratchpad {
        rmp_serde::from_slice(&rmp_serde::to_vec(self).expect("encode raw")).expect("raw -> pad")
    }
    /// the bytes the owner signs: counter (BE) ‖ hash(encrypted_data)
    pub fn signing_bytes(&self) -> Vec<u8> {
        let mut b = self.counter.to_be_bytes().to_vec();
        b.extend(XorName::from_content(&self.encrypted_data).0);
        b
    }
    pub fn sign(&mut self, sk: &SecretKey) {
        self.signature = Some(sk.sign(self.signing_bytes()));
    }
}

/// A validly signed scratchpad of `owner` with the given counter; `data` is stored as the
/// "encrypted" payload verbatim (deterministic, unlike `update_and_sign` which encrypts randomly).
pub fn pad(owner: &SecretKey, counter: u64, data: &[u8], encoding: u64) -> Scratchpad {
    let mut raw = RawPad {
        address: ScratchpadAddress::new(owner.public_key()),
        data_encoding: encoding,
        encrypted_data: Bytes::copy_from_slice(data),
        counter,
        signature: None,
    };
    raw.sign(owner);
    raw.to_pad()
}

pub fn pad_key(p: &Scratchpad) -> RecordKey {
    NetworkAddress::ScratchpadAddress(*p.address()).to_record_key()
}

pub fn pad_record(p: &Scratchpad) -> Record {
    record(pad_key(p), try_serialize_record(p, RecordKind::Scratchpad).expect("serialise pad").to_vec())
}

pub fn transaction(rng: &mut impl Rng, owner: &SecretKey) -> Transaction {
    let parents: Vec<PublicKey> = (0..rng.gen_range(0..3)).map(|_| bls_sk(rng).public_key()).collect();
    let outputs: Vec<(PublicKey, [u8; 32])> = (0..rng.gen_range(0..3)).map(|_| (bls_sk(rng).public_key(), rng.gen())).collect();
    Transaction::new(owner.public_key(), parents, rng.gen(), outputs, owner)
}

pub fn tx_key(owner: &PublicKey) -> RecordKey {
    NetworkAddress::from_transaction_address(ant_protocol::storage::TransactionAddress::from_owner(*owner)).to_record_key()
}

pub fn txs_record(key: RecordKey, txs: &Vec<Transaction>) -> Record {
    record(key, try_serialize_record(txs, RecordKind::Transaction).expect("serialise txs").to_vec())
}

pub fn register(owner: &SecretKey, meta: XorName, perms: Permissions) -> SignedRegister {
    let reg = Register::new(owner.public_key(), meta, perms);
    let sig = owner.sign(reg.bytes().expect("register bytes"));
    SignedRegister::new(reg, sig, BTreeSet::new())
}

/// an operation writing `entry` with the given children (entry hashes), addressed to `addr`, signed by `signer`
pub fn reg_op(addr: RegisterAddress, entry: Vec<u8>, children: BTreeSet<[u8; 32]>, signer: &SecretKey) -> RegisterOp {
    let node = MerkleDagEntry { children, value: entry };
    RegisterOp::new(addr, node, signer)
}

pub fn reg_key(addr: &RegisterAddress) -> RecordKey {
    NetworkAddress::from_register_address(*addr).to_record_key()
}

pub fn reg_record(r: &SignedRegister) -> Record {
    record(reg_key(r.address()), try_serialize_record(r, RecordKind::Register).expect("serialise register").to_vec())
}

/// Mirror of `RegisterOp` to forge fields (signature, source, address).
#[derive(Serialize, Deserialize, Clone, Debug)]
pub struct RawOp {
    pub address: RegisterAddress,
    pub crdt_op: MerkleDagEntry<Vec<u8>>,
    pub source: PublicKey,
    pub signature: Signature,
}

impl RawOp {
    pub fn from_op(op: &RegisterOp) -> Self {
        rmp_serde::from_slice(&rmp_serde::to_vec(op).expect("encode op")).expect("op -> raw")
    }
    pub fn to_op(&self) -> RegisterOp {
        rmp_serde::from_slice(&rmp_serde::to_vec(self).expect("encode raw")).expect("raw -> op")
    }
}

pub fn ed_keypair(rng: &mut impl Rng) -> Keypair {
    let mut seed = [0u8; 32];
    rng.fill(&mut seed);
    Keypair::ed25519_from_bytes(seed).expect("ed25519 from 32 bytes")
}

pub fn quote_for(kp: &Keypair, content: XorName, timestamp: SystemTime, rng: &mut impl Rng) -> PaymentQuote {
    let metrics = QuotingMetrics {
        close_records_stored: rng.gen_range(0..1000),
        max_records: 16 * 1024,
        received_payment_count: rng.gen_range(0..100),
        live_time: rng.gen_range(0..10_000),
        network_density: None,
        network_size: Some(rng.gen_range(10..100_000)),
    };
    let rewards = RewardsAddress::from(rng.gen::<[u8; 20]>());
    let bytes = PaymentQuote::bytes_for_signing(content, timestamp, &metrics, &rewards);
    PaymentQuote {
        content,
        timestamp,
        quoting_metrics: metrics,
        rewards_address: rewards,
        pub_key: kp.public().encode_protobuf(),
        signature: kp.sign(&bytes).expect("sign"),
    }
}

/// a fully authentic proof of payment for `content` quoted by the given nodes just now
pub fn proof_for(content: XorName, payees: &[&Keypair], rng: &mut impl Rng) -> ProofOfPayment {
    let ts = SystemTime::now() - Duration::from_secs(rng.gen_range(1..600));
    ProofOfPayment {
        peer_quotes: payees
            .iter()
            .map(|kp| (EncodedPeerId::from(PeerId::from(kp.public())), quote_for(kp, content, ts, rng)))
            .collect(),
    }
}
