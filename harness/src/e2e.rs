//! Real-network lane (the "stress mode" of DESIGN §2.1): real `ant_node::NodeBuilder::build_and_run` nodes — the real
//! `SwarmDriver::run` event loop, the real libp2p QUIC transport on 127.0.0.1, the real kad / request-response
//! behaviours, the real `Node::run` loop with its spawned validation tasks — each on its own multi-thread tokio
//! runtime, with the payment contract played by the vault stub. Nothing here is scheduled by the harness: the
//! interleavings are whatever the worker threads and the kernel produce.
//!
//! Oracles on this lane are written to be sound for *any* timing: safety clauses are judged on whatever is
//! observed; progress clauses are judged only at *logical* quiescence (every node's replication fetcher idle,
//! observed from inside the node's own event loop through the guarded `verif_with_driver` hook, and the
//! network-wide state unchanged between two samples), never on a wall-clock deadline. A wall-clock watchdog
//! surrounds every wait; when it fires the case is abandoned and counted (`realnet:abandoned:*`), not judged.

use crate::stub::VaultStub;
use ant_evm::RewardsAddress;
use ant_networking::{GetRecordCfg, Network, NetworkBuilder, PutRecordCfg, SwarmDriver, VerificationKind};
use ant_node::{NodeBuilder, RunningNode};
use ant_protocol::storage::RecordType;
use ant_protocol::NetworkAddress;
use libp2p::identity::Keypair;
use libp2p::kad::{Quorum, Record, RecordKey};
use libp2p::multiaddr::Protocol;
use libp2p::{Multiaddr, PeerId};
use std::collections::BTreeMap;
use std::path::PathBuf;
use std::time::{Duration, Instant};

pub struct RealNode {
    pub kp: Keypair,
    pub peer: PeerId,
    pub root: PathBuf,
    pub port: u16,
    pub addr: Multiaddr,
    /// full node (real Node layer) or bare holder (driver + store only, content set by the harness)
    pub full: bool,
    rt: Option<tokio::runtime::Runtime>,
    pub running: Option<RunningNode>,
    pub net: Option<Network>,
}

pub struct RealNet {
    pub ctl: tokio::runtime::Runtime,
    pub stub: VaultStub,
    pub nodes: Vec<RealNode>,
    pub client: Network,
    pub root: PathBuf,
    pub formed_in: Duration,
}

fn rewards() -> RewardsAddress {
    RewardsAddress::new([0x11; 20])
}

pub const OP_TIMEOUT: Duration = Duration::from_secs(60);

fn node_rt() -> Result<tokio::runtime::Runtime, String> {
    tokio::runtime::Builder::new_multi_thread().worker_threads(2).enable_all().build().map_err(|e| e.to_string())
}

fn start_node(ctl: &tokio::runtime::Runtime, kp: &Keypair, root: &PathBuf, port: u16, full: bool, initial: Vec<Multiaddr>, evm: &evmlib::Network, deadline: Instant) -> Result<(tokio::runtime::Runtime, Option<RunningNode>, Network, u16, Multiaddr), String> {
    let rt = node_rt()?;
    std::fs::create_dir_all(root).map_err(|e| e.to_string())?;
    let peer = kp.public().to_peer_id();
    let sock: std::net::SocketAddr = format!("127.0.0.1:{port}").parse().expect("addr");
    let (running, net) = {
        let _g = rt.enter();
        if full {
            let mut b = NodeBuilder::new(kp.clone(), rewards(), evm.clone(), sock, true, root.clone(), false);
            b.initial_peers(initial.clone());
            let r = b.build_and_run().map_err(|e| format!("build_and_run: {e}"))?;
            let n = r.verif_network().clone();
            (Some(r), n)
        } else {
            let mut b = NetworkBuilder::new(kp.clone(), true);
            b.listen_addr(sock);
            let (network, mut events, driver) = b.build_node(root.clone()).map_err(|e| format!("build_node: {e}"))?;
            tokio::spawn(driver.run());
            tokio::spawn(async move { while events.recv().await.is_some() {} });
            (None, network)
        }
    };
    let n2 = net.clone();
    let addr = ctl.block_on(async move {
        loop {
            if let Ok(st) = n2.get_swarm_local_state().await {
                if let Some(a) = st.listeners.iter().find(|a| a.to_string().starts_with("/ip4/127.0.0.1/")) {
                    return Some(a.clone());
                }
            }
            if Instant::now() > deadline {
                return None;
            }
            tokio::time::sleep(Duration::from_millis(10)).await;
        }
    });
    let Some(addr) = addr else { return Err("listener did not come up".into()) };
    let port = addr.iter().find_map(|p| if let Protocol::Udp(p) = p { Some(p) } else { None }).unwrap_or(0);
    if !full {
        // a bare holder dials by itself (the Node layer does it for full nodes)
        let n3 = net.clone();
        ctl.block_on(async move {
            for a in initial {
                let _ = n3.dial(a).await;
            }
        });
    }
    Ok((rt, running, net, port, addr.with(Protocol::P2p(peer))))
}

impl RealNet {
    /// Start `kinds.len()` nodes (`true` = full node, `false` = bare holder) and one client.
    pub fn start(kinds: &[bool], root: PathBuf, kps: Vec<Keypair>, watchdog: Duration) -> Result<RealNet, String> {
        let ctl = tokio::runtime::Builder::new_multi_thread().worker_threads(2).enable_all().build().map_err(|e| e.to_string())?;
        let stub = VaultStub::start();
        stub.set_default(None);
        let evm = stub.evm_network();
        let t0 = Instant::now();
        let deadline = t0 + watchdog;
        let n = kinds.len();
        let mut nodes: Vec<RealNode> = vec![];
        for (i, kp) in kps.into_iter().enumerate().take(n) {
            let nroot = root.join(format!("node{i}"));
            let initial: Vec<Multiaddr> = nodes.iter().take(3).map(|x| x.addr.clone()).collect();
            let (rt, running, net, port, addr) = start_node(&ctl, &kp, &nroot, 0, kinds[i], initial, &evm, deadline)?;
            nodes.push(RealNode { peer: kp.public().to_peer_id(), kp, root: nroot, port, addr, full: kinds[i], rt: Some(rt), running, net: Some(net) });
        }
        let client = {
            let _g = ctl.enter();
            let builder = NetworkBuilder::new(Keypair::generate_ed25519(), true);
            let (network, mut events, driver) = builder.build_client().map_err(|e| format!("build_client: {e}"))?;
            tokio::spawn(driver.run());
            tokio::spawn(async move { while events.recv().await.is_some() {} });
            network
        };
        let mut net = RealNet { ctl, stub, nodes, client, root, formed_in: Duration::ZERO };
        {
            let c = net.client.clone();
            let addrs: Vec<Multiaddr> = net.nodes.iter().take(3).map(|x| x.addr.clone()).collect();
            net.ctl.block_on(async move {
                for a in addrs {
                    let _ = c.dial(a).await;
                }
            });
        }
        if !net.wait_formed(deadline) {
            let e = format!("network of {n} did not form within {watchdog:?}");
            net.shutdown();
            return Err(e);
        }
        net.formed_in = t0.elapsed();
        Ok(net)
    }

    fn rt_size(&self, n: &Network) -> usize {
        let n = n.clone();
        self.ctl.block_on(async move {
            match tokio::time::timeout(Duration::from_secs(10), n.get_kbuckets()).await {
                Ok(Ok(kb)) => kb.values().map(|v| v.len()).sum::<usize>(),
                _ => 0,
            }
        })
    }

    /// every live node knows every other live node, and the client knows all of them
    pub fn wait_formed(&self, deadline: Instant) -> bool {
        let live: Vec<&RealNode> = self.nodes.iter().filter(|n| n.net.is_some()).collect();
        let want = live.len();
        loop {
            let mut ok = true;
            for nd in &live {
                if self.rt_size(nd.net.as_ref().expect("live")) < want - 1 {
                    ok = false;
                    break;
                }
            }
            if ok && self.rt_size(&self.client) < want {
                ok = false;
            }
            if ok {
                return true;
            }
            if Instant::now() > deadline {
                return false;
            }
            std::thread::sleep(Duration::from_millis(50));
        }
    }

    pub fn net_of(&self, i: usize) -> Result<Network, String> {
        self.nodes[i].net.clone().ok_or_else(|| format!("node {i} is down"))
    }

    /// Run `f` on node i's driver from inside its own event loop (the driver's own exclusive borrow).
    pub fn with_driver<T: Send + 'static>(&self, i: usize, f: impl FnOnce(&mut SwarmDriver) -> T + Send + 'static) -> Result<T, String> {
        let net = self.net_of(i)?;
        let (tx, rx) = std::sync::mpsc::channel();
        let _g = self.ctl.enter();
        net.verif_with_driver(Box::new(move |d| {
            let _ = tx.send(f(d));
        }));
        rx.recv_timeout(OP_TIMEOUT).map_err(|_| format!("node {i}: driver did not answer within {OP_TIMEOUT:?}"))
    }

    /// kad queries the client has started (puts, gets) that have not finished yet
    pub fn client_outstanding_queries(&self) -> Result<usize, String> {
        let (tx, rx) = std::sync::mpsc::channel();
        let _g = self.ctl.enter();
        self.client.verif_with_driver(Box::new(move |d| {
            let _ = tx.send(d.verif_outstanding_kad_queries());
        }));
        rx.recv_timeout(OP_TIMEOUT).map_err(|_| format!("client driver did not answer within {OP_TIMEOUT:?}"))
    }

    /// the record node i holds for `key` (through its own GetLocalRecord command)
    pub fn local(&self, i: usize, key: &RecordKey) -> Result<Option<Record>, String> {
        let net = self.net_of(i)?;
        let key = key.clone();
        self.ctl.block_on(async move {
            match tokio::time::timeout(OP_TIMEOUT, net.get_local_record(&key)).await {
                Ok(Ok(r)) => Ok(r),
                Ok(Err(e)) => Err(format!("get_local_record: {e}")),
                Err(_) => Err("get_local_record timed out".into()),
            }
        })
    }

    pub fn addresses(&self, i: usize) -> Result<BTreeMap<Vec<u8>, RecordType>, String> {
        let net = self.net_of(i)?;
        self.ctl.block_on(async move {
            match tokio::time::timeout(OP_TIMEOUT, net.get_all_local_record_addresses()).await {
                Ok(Ok(m)) => Ok(m.into_iter().map(|(a, t)| (a.to_record_key().to_vec(), t)).collect()),
                Ok(Err(e)) => Err(format!("get_all_local_record_addresses: {e}")),
                Err(_) => Err("get_all_local_record_addresses timed out".into()),
            }
        })
    }

    /// store `record` on node i bypassing validation and fresh replication (harness seeding / bare holders)
    pub fn seed_local(&self, i: usize, record: Record) -> Result<(), String> {
        let net = self.net_of(i)?;
        let key = record.key.clone();
        let want = record.value.clone();
        {
            let _g = self.ctl.enter();
            net.put_local_record(record);
        }
        let t0 = Instant::now();
        loop {
            if let Some(r) = self.local(i, &key)? {
                if r.value == want {
                    return Ok(());
                }
            }
            if t0.elapsed() > OP_TIMEOUT {
                return Err(format!("node {i}: seeded record not readable within {OP_TIMEOUT:?}"));
            }
            std::thread::sleep(Duration::from_millis(10));
        }
    }

    /// store arbitrary bytes on node i straight through its record store (no header parsing, no validation):
    /// what a faulty or malicious holder may serve
    pub fn seed_raw(&self, i: usize, record: Record) -> Result<(), String> {
        let key = record.key.clone();
        let want = record.value.clone();
        let rec2 = record.clone();
        let res = self.with_driver(i, move |d| {
            let h = xor_name::XorName::from_content(&rec2.value);
            match d.verif_store_mut() {
                Some(s) => s.verif_put_verified(rec2, RecordType::NonChunk(h)).map_err(|e| format!("{e:?}")),
                None => Err("no node record store".to_string()),
            }
        })?;
        res?;
        let t0 = Instant::now();
        loop {
            if let Some(r) = self.local(i, &key)? {
                if r.value == want {
                    return Ok(());
                }
            }
            if t0.elapsed() > OP_TIMEOUT {
                return Err(format!("node {i}: raw-seeded record not readable within {OP_TIMEOUT:?}"));
            }
            std::thread::sleep(Duration::from_millis(10));
        }
    }

    pub fn put(&self, record: Record, to: Option<Vec<PeerId>>, verify: Option<(VerificationKind, GetRecordCfg)>) -> Result<(), String> {
        let cfg = PutRecordCfg { put_quorum: Quorum::One, retry_strategy: None, use_put_record_to: to, verification: verify };
        let client = self.client.clone();
        self.ctl.block_on(async move {
            match tokio::time::timeout(OP_TIMEOUT, client.put_record(record, &cfg)).await {
                Ok(r) => r.map_err(|e| format!("{e:?}")),
                Err(_) => Err("WATCHDOG".into()),
            }
        })
    }

    pub fn get_cfg(&self, key: RecordKey, cfg: GetRecordCfg) -> Result<Result<Record, ant_networking::NetworkError>, String> {
        let client = self.client.clone();
        self.ctl.block_on(async move {
            match tokio::time::timeout(OP_TIMEOUT, client.get_record_from_network(key, &cfg)).await {
                Ok(r) => Ok(r),
                Err(_) => Err("WATCHDOG".into()),
            }
        })
    }

    /// periodic replication on node i, as its interval timer would do, with the real-time throttle lifted
    pub fn trigger_replication(&self, i: usize) -> Result<(), String> {
        self.with_driver(i, |d| d.verif_reset_replication_throttle())?;
        let _g = self.ctl.enter();
        self.net_of(i)?.trigger_interval_replication();
        Ok(())
    }

    /// Logical quiescence of replication: three consecutive samples, `gap` apart, in which the network-wide
    /// (key, version) listing AND every live node's fetcher queues (pending and in-flight entries) are identical.
    /// (An in-flight entry for a version its holder has meanwhile replaced stays until its 20 s time-out; it does
    /// not move anything, so "unchanged" rather than "empty" is the criterion.)
    pub fn wait_quiescent(&self, gap: Duration, watchdog: Duration) -> Result<bool, String> {
        let t0 = Instant::now();
        type Sample = Vec<(BTreeMap<Vec<u8>, RecordType>, Vec<(Vec<u8>, String, PeerId)>, Vec<(Vec<u8>, String, PeerId)>)>;
        let mut prev: Option<Sample> = None;
        let mut stable = 0;
        loop {
            let mut sample: Sample = vec![];
            for i in 0..self.nodes.len() {
                if self.nodes[i].net.is_none() {
                    sample.push((BTreeMap::new(), vec![], vec![]));
                    continue;
                }
                let (mut queued, mut inflight) = self.with_driver(i, |d| {
                    let s = d.verif_fetcher_snapshot();
                    let f = |v: &Vec<(RecordKey, RecordType, PeerId, i64)>| v.iter().map(|(k, t, p, _)| (k.to_vec(), format!("{t:?}"), *p)).collect::<Vec<_>>();
                    (f(&s.to_be_fetched), f(&s.on_going_fetches))
                })?;
                queued.sort();
                inflight.sort();
                sample.push((self.addresses(i)?, queued, inflight));
            }
            if prev.as_ref() == Some(&sample) {
                stable += 1;
                if stable >= 3 {
                    return Ok(true);
                }
            } else {
                stable = 0;
            }
            prev = Some(sample);
            if t0.elapsed() > watchdog {
                return Ok(false);
            }
            std::thread::sleep(gap);
        }
    }

    /// Abrupt stop of node i: its runtime is torn down wherever its tasks happen to be.
    pub fn crash(&mut self, i: usize) {
        let nd = &mut self.nodes[i];
        nd.running = None;
        nd.net = None;
        if let Some(rt) = nd.rt.take() {
            rt.shutdown_background();
        }
    }

    /// Restart node i with the same identity, directory and port.
    pub fn restart(&mut self, i: usize, watchdog: Duration) -> Result<(), String> {
        let deadline = Instant::now() + watchdog;
        let initial: Vec<Multiaddr> = self.nodes.iter().enumerate().filter(|(j, n)| *j != i && n.net.is_some()).take(3).map(|(_, n)| n.addr.clone()).collect();
        let evm = self.stub.evm_network();
        let (kp, root, port, full) = (self.nodes[i].kp.clone(), self.nodes[i].root.clone(), self.nodes[i].port, self.nodes[i].full);
        // the UDP port may need a moment to be released by the torn-down runtime
        let mut last = String::new();
        loop {
            // the builder panics ("Multiaddr should be supported ...") while the old socket still holds the port
            let attempt = std::panic::catch_unwind(std::panic::AssertUnwindSafe(|| start_node(&self.ctl, &kp, &root, port, full, initial.clone(), &evm, deadline))).unwrap_or_else(|_| Err("listener could not be bound yet".into()));
            match attempt {
                Ok((rt, running, net, port, addr)) => {
                    let nd = &mut self.nodes[i];
                    nd.rt = Some(rt);
                    nd.running = running;
                    nd.net = Some(net);
                    nd.port = port;
                    nd.addr = addr.clone();
                    // the client's old connection to this identity is gone with the old process
                    let c = self.client.clone();
                    self.ctl.block_on(async move {
                        let _ = tokio::time::timeout(Duration::from_secs(20), c.dial(addr)).await;
                    });
                    return Ok(());
                }
                Err(e) => last = e,
            }
            if Instant::now() > deadline {
                return Err(format!("restart of node {i} failed: {last}"));
            }
            std::thread::sleep(Duration::from_millis(200));
        }
    }

    /// node indices by closeness to `key` (reference metric)
    pub fn by_closeness(&self, key: &RecordKey) -> Vec<usize> {
        let mut order: Vec<usize> = (0..self.nodes.len()).collect();
        order.sort_by_key(|i| crate::refmetric::ref_distance(key.as_ref(), &self.nodes[*i].peer.to_bytes()));
        order
    }

    pub fn shutdown(self) {
        let RealNet { ctl, stub, nodes, client, root, .. } = self;
        drop(client);
        for mut n in nodes {
            n.running = None;
            n.net = None;
            if let Some(rt) = n.rt.take() {
                rt.shutdown_background();
            }
        }
        ctl.shutdown_background();
        drop(stub);
        // let the torn-down runtimes' threads leave before the directories go
        std::thread::sleep(Duration::from_millis(100));
        let _ = std::fs::remove_dir_all(root);
    }
}

/// `vcheck E2E --aux probe:<n>`: timing probe for the lane (not a check).
pub fn aux_main(spec: &str) -> i32 {
    use crate::gen;
    use rand::SeedableRng;
    let n: usize = spec.split(':').nth(1).and_then(|s| s.parse().ok()).unwrap_or(8);
    let mut rng = rand::rngs::StdRng::seed_from_u64(7);
    let kps: Vec<Keypair> = (0..n).map(|_| gen::ed_keypair(&mut rng)).collect();
    let root = crate::common::scratch_dir("e2e-probe");
    let t0 = Instant::now();
    let mut net = match RealNet::start(&vec![true; n], root, kps, Duration::from_secs(120)) {
        Ok(n) => n,
        Err(e) => {
            eprintln!("start failed: {e}");
            return 2;
        }
    };
    eprintln!("network of {n} formed in {:?}", net.formed_in);
    let chunk = gen::chunk(&mut rng, 5000);
    let addr = NetworkAddress::from_chunk_address(*chunk.address());
    let key = addr.to_record_key();
    let order = net.by_closeness(&key);
    let payees: Vec<&Keypair> = order.iter().take(3).map(|i| &net.nodes[*i].kp).collect();
    let proof = gen::proof_for(*chunk.name(), &payees, &mut rng);
    for (_, q) in &proof.peer_quotes {
        net.stub.set_paid(q.hash().0, 10, true);
    }
    let value = ant_protocol::storage::try_serialize_record(&(proof, chunk.clone()), ant_protocol::storage::RecordKind::ChunkWithPayment).expect("ser").to_vec();
    let t1 = Instant::now();
    let r = net.put(Record { key: key.clone(), value, publisher: None, expires: None }, Some(vec![net.nodes[order[0]].peer]), None);
    eprintln!("put -> {r:?} in {:?}", t1.elapsed());
    let q = net.wait_quiescent(Duration::from_millis(100), Duration::from_secs(30));
    let holders: Vec<usize> = (0..n).filter(|i| matches!(net.local(*i, &key), Ok(Some(_)))).collect();
    eprintln!("quiescent={q:?} after {:?}; holders {holders:?}", t1.elapsed());
    let victim = order[0];
    net.crash(victim);
    let r = net.restart(victim, Duration::from_secs(30));
    eprintln!("restart -> {r:?}; formed again: {}", net.wait_formed(Instant::now() + Duration::from_secs(30)));
    eprintln!("restarted node holds it: {:?}", net.local(victim, &key).map(|r| r.map(|r| r.value.len())));
    for i in 0..n {
        let _ = net.trigger_replication(i);
    }
    eprintln!("after a triggered round: quiescent={:?}", net.wait_quiescent(Duration::from_millis(100), Duration::from_secs(30)));
    net.shutdown();
    eprintln!("total {:?}", t0.elapsed());
    0
}
