//! "The harness is the event loop and the transport": real SwarmDrivers built by the real
//! NetworkBuilder are never `run()`; the simulator pulls the commands the real `Network` API
//! queues, feeds them to the real handlers in an order it chooses, moves requests between
//! simulated nodes, delivers NetworkEvents to the real node layer and releases the record
//! store's gated disk tasks.

use crate::stub::VaultStub;
use ant_networking::verif::{GateEvent, GateFn, GateKind, LocalSwarmCmd, NetworkSwarmCmd};
use ant_networking::{GetRecordError, MsgResponder, Network, NetworkBuilder, NetworkEvent, SwarmDriver};
use ant_node::verif::VerifNode;
use ant_protocol::messages::{Cmd, CmdResponse, Request, Response};
use libp2p::identity::Keypair;
use libp2p::{Multiaddr, PeerId};
use rand::{rngs::StdRng, Rng, SeedableRng};
use std::collections::{HashMap, VecDeque};
use std::path::PathBuf;
use std::sync::{Arc, Mutex};
use tokio::sync::{mpsc, oneshot};

#[derive(Clone, Debug, PartialEq, Eq, Hash)]
pub struct GateId {
    pub kind: GateKind,
    pub key: Vec<u8>,
    pub seq: u64,
}

#[derive(Default)]
pub struct GateState {
    next_seq: u64,
    /// announced but not yet entered (spawned, not polled)
    pub announced: VecDeque<GateId>,
    /// entered and parked, waiting for release
    pub parked: Vec<(GateId, oneshot::Sender<()>)>,
    /// released / running, not yet exited
    pub running: Vec<GateId>,
    pub completed: u64,
    /// every task ever seen (announce order) and the ones that ran to completion
    pub all_ids: Vec<GateId>,
    pub completed_ids: Vec<GateId>,
    pub controlled: bool,
    pub log: Vec<String>,
}

impl GateState {
    pub fn outstanding(&self) -> usize {
        self.announced.len() + self.parked.len() + self.running.len()
    }
}

pub fn gate_controller(state: Arc<Mutex<GateState>>) -> GateFn {
    Arc::new(move |ev: GateEvent| {
        let state = state.clone();
        match ev {
            GateEvent::Announce(kind, key) => {
                let mut s = state.lock().expect("gate state");
                let seq = s.next_seq;
                s.next_seq += 1;
                let id = GateId { kind, key, seq };
                s.all_ids.push(id.clone());
                s.announced.push_back(id);
                Box::pin(async {})
            }
            GateEvent::Enter(kind, key) => {
                let mut s = state.lock().expect("gate state");
                // the oldest announced task of this (kind, key)
                let pos = s.announced.iter().position(|g| g.kind == kind && g.key == key);
                let id = match pos {
                    Some(p) => s.announced.remove(p).expect("announced entry"),
                    None => {
                        let seq = s.next_seq;
                        s.next_seq += 1;
                        let id = GateId { kind, key, seq };
                        s.all_ids.push(id.clone());
                        id
                    }
                };
                if s.controlled {
                    let (tx, rx) = oneshot::channel();
                    s.parked.push((id, tx));
                    drop(s);
                    Box::pin(async move {
                        let _ = rx.await;
                    })
                } else {
                    s.running.push(id);
                    Box::pin(async {})
                }
            }
            GateEvent::Exit(kind, key) => {
                let mut s = state.lock().expect("gate state");
                if let Some(p) = s.running.iter().position(|g| g.kind == kind && g.key == key) {
                    let id = s.running.remove(p);
                    s.completed_ids.push(id);
                    s.completed += 1;
                }
                Box::pin(async {})
            }
        }
    })
}

pub struct SimNode {
    pub kp: Keypair,
    pub peer: PeerId,
    pub root: PathBuf,
    pub network: Network,
    pub events_rx: mpsc::Receiver<NetworkEvent>,
    pub drv: SwarmDriver,
    pub node: Option<VerifNode>,
    pub local_q: VecDeque<LocalSwarmCmd>,
    pub net_q: VecDeque<NetworkSwarmCmd>,
    pub event_q: VecDeque<NetworkEvent>,
    pub is_client: bool,
    /// events the node layer was not given (kept for the check to inspect)
    pub kept_events: Vec<NetworkEvent>,
    /// outbound requests to peers that are not simulated nodes
    pub dropped_requests: Vec<(PeerId, Request)>,
    /// every Replicate command this node sent: (target, holder, keys)
    pub sent_replicates: Vec<(PeerId, ant_protocol::NetworkAddress, Vec<(ant_protocol::NetworkAddress, ant_protocol::storage::RecordType)>)>,
}

#[derive(Clone, Copy, PartialEq, Eq, Debug)]
pub enum Policy {
    /// commands in channel order, local before network, events last; gates in spawn order
    Fifo,
    /// any enabled step (per-key FIFO for gated disk tasks)
    Random,
}

/// How GetNetworkRecord commands are answered for *node* drivers (clients are handled by the checks).
#[derive(Clone, Copy, PartialEq, Eq)]
pub enum KadGet {
    NotFound,
    Keep,
}

pub struct Sim {
    pub rt: tokio::runtime::Runtime,
    pub nodes: Vec<SimNode>,
    pub gates: Arc<Mutex<GateState>>,
    pub stub: Option<VaultStub>,
    pub rng: StdRng,
    pub policy: Policy,
    pub schedule: Vec<String>,
    pub steps: u64,
    pub kad_get: KadGet,
    /// deliver node-bound NetworkEvents to the real node layer automatically
    pub auto_events: bool,
    /// GetNetworkRecord commands taken from drivers and left for the check to answer
    pub pending_kad_gets: Vec<(usize, libp2p::kad::RecordKey, oneshot::Sender<Result<libp2p::kad::Record, GetRecordError>>)>,
    /// release handles of tasks that must never run (crashed node); dropped only after the runtime
    pub graveyard: Vec<(GateId, oneshot::Sender<()>)>,
    /// keys whose stored value is sampled after every local command that concerns them: (node, key)
    pub watch: Vec<(usize, Vec<u8>)>,
    /// (step, node, key, value as returned by the store right after the command)
    pub watch_log: Vec<(u64, usize, Vec<u8>, Option<Vec<u8>>)>,
    /// network partition: every request between simulated nodes is lost
    pub partitioned: bool,
    /// keep every parked disk task parked (no gate is released by the scheduler)
    pub hold_gates: bool,
    /// why the last `settle` gave up: true = the logical step budget ran out (no quiescence), false = wall clock / other
    pub settle_ran_out_of_steps: bool,
}

pub fn quic_addr(port: u16) -> Multiaddr {
    format!("/ip4/127.0.0.1/udp/{port}/quic-v1").parse().expect("multiaddr")
}

impl Sim {
    pub fn new(seed: u64, with_stub: bool) -> Self {
        let rt = tokio::runtime::Builder::new_current_thread().enable_all().start_paused(true).build().expect("runtime");
        let gates = Arc::new(Mutex::new(GateState::default()));
        ant_networking::verif::install_thread_gate_controller(Some(gate_controller(gates.clone())));
        Sim {
            rt,
            nodes: vec![],
            gates,
            stub: if with_stub { Some(VaultStub::start()) } else { None },
            rng: StdRng::seed_from_u64(seed),
            policy: Policy::Fifo,
            schedule: vec![],
            steps: 0,
            kad_get: KadGet::NotFound,
            auto_events: true,
            pending_kad_gets: vec![],
            graveyard: vec![],
            watch: vec![],
            watch_log: vec![],
            partitioned: false,
            hold_gates: false,
            settle_ran_out_of_steps: false,
        }
    }

    pub fn set_gates_controlled(&self, on: bool) {
        self.gates.lock().expect("gates").controlled = on;
    }

    /// Build a real node (driver + store + node layer) over `root` with the given identity.
    pub fn add_node(&mut self, kp: Keypair, root: PathBuf, with_node_layer: bool) -> usize {
        let _g = self.rt.enter();
        std::fs::create_dir_all(&root).expect("root dir");
        let mut nb = NetworkBuilder::new(kp.clone(), true);
        nb.listen_addr("127.0.0.1:0".parse().expect("addr"));
        let (network, events_rx, drv) = nb.build_node(root.clone()).expect("build_node");
        let peer = PeerId::from(kp.public());
        let node = if with_node_layer {
            let evm = match &self.stub {
                Some(s) => s.evm_network(),
                None => evmlib::Network::new_custom("http://127.0.0.1:9/", "0x5FbDB2315678afecb367f032d93F642f64180aa3", "0x8464135c8F25Da09e49BC8782676a84730C318bC"),
            };
            Some(VerifNode::new(network.clone(), evm, evmlib::utils::dummy_address()))
        } else {
            None
        };
        self.nodes.push(SimNode {
            kp,
            peer,
            root,
            network,
            events_rx,
            drv,
            node,
            local_q: VecDeque::new(),
            net_q: VecDeque::new(),
            event_q: VecDeque::new(),
            is_client: false,
            kept_events: vec![],
            dropped_requests: vec![],
            sent_replicates: vec![],
        });
        self.nodes.len() - 1
    }

    pub fn add_client(&mut self, kp: Keypair) -> usize {
        let _g = self.rt.enter();
        let nb = NetworkBuilder::new(kp.clone(), true);
        let (network, events_rx, drv) = nb.build_client().expect("build_client");
        let peer = PeerId::from(kp.public());
        self.nodes.push(SimNode {
            kp,
            peer,
            root: PathBuf::new(),
            network,
            events_rx,
            drv,
            node: None,
            local_q: VecDeque::new(),
            net_q: VecDeque::new(),
            event_q: VecDeque::new(),
            is_client: true,
            kept_events: vec![],
            dropped_requests: vec![],
            sent_replicates: vec![],
        });
        self.nodes.len() - 1
    }

    /// Drop a node as a crash would: the driver and its parked background tasks never run again.
    pub fn crash_node(&mut self, idx: usize) -> (Keypair, PathBuf) {
        let n = self.nodes.remove(idx);
        (n.kp.clone(), n.root.clone())
    }

    pub fn node_index(&self, peer: &PeerId) -> Option<usize> {
        self.nodes.iter().position(|n| n.peer == *peer)
    }

    pub fn yield_rounds(&self, n: usize) {
        self.rt.block_on(async {
            for _ in 0..n {
                tokio::task::yield_now().await;
            }
        });
    }

    /// move everything queued by the real code into the simulator's buffers
    pub fn collect(&mut self) {
        self.yield_rounds(6);
        for n in self.nodes.iter_mut() {
            while let Some(c) = n.drv.verif_try_recv_local_cmd() {
                n.local_q.push_back(c);
            }
            while let Some(c) = n.drv.verif_try_recv_network_cmd() {
                n.net_q.push_back(c);
            }
            while let Ok(e) = n.events_rx.try_recv() {
                n.event_q.push_back(e);
            }
        }
    }

    fn enabled_gates(&self) -> Vec<GateId> {
        if self.hold_gates {
            return vec![];
        }
        let s = self.gates.lock().expect("gates");
        // per key: only the oldest parked task may be released (independence is promised across keys only)
        let mut out: Vec<GateId> = vec![];
        for (g, _) in s.parked.iter() {
            let older_same_key = s.parked.iter().any(|(o, _)| o.key == g.key && o.seq < g.seq) || s.running.iter().any(|o| o.key == g.key && o.seq < g.seq) || s.announced.iter().any(|o| o.key == g.key && o.seq < g.seq);
            if !older_same_key {
                out.push(g.clone());
            }
        }
        out.sort_by_key(|g| g.seq);
        out
    }

    pub fn release_gate(&mut self, id: &GateId) {
        let tx = {
            let mut s = self.gates.lock().expect("gates");
            match s.parked.iter().position(|(g, _)| g == id) {
                Some(p) => {
                    let (g, tx) = s.parked.remove(p);
                    s.running.push(g);
                    Some(tx)
                }
                None => None,
            }
        };
        if let Some(tx) = tx {
            let _ = tx.send(());
            self.schedule.push(format!("gate:{:?}:{}", id.kind, crate::common::short_hex(&id.key)));
            self.yield_rounds(4);
        }
    }

    /// One scheduler step. Returns false if nothing was enabled.
    pub fn step(&mut self) -> bool {
        self.collect();
        #[derive(Debug)]
        enum S {
            Local(usize),
            Net(usize),
            Event(usize),
            Gate(GateId),
        }
        let mut en: Vec<S> = vec![];
        for (i, n) in self.nodes.iter().enumerate() {
            if !n.local_q.is_empty() {
                en.push(S::Local(i));
            }
        }
        for (i, n) in self.nodes.iter().enumerate() {
            if !n.net_q.is_empty() {
                en.push(S::Net(i));
            }
        }
        for (i, n) in self.nodes.iter().enumerate() {
            if !n.event_q.is_empty() && self.auto_events {
                en.push(S::Event(i));
            }
        }
        for g in self.enabled_gates() {
            en.push(S::Gate(g));
        }
        if en.is_empty() {
            return false;
        }
        let pick = match self.policy {
            Policy::Fifo => 0,
            Policy::Random => self.rng.gen_range(0..en.len()),
        };
        let s = en.swap_remove(pick);
        self.steps += 1;
        match s {
            S::Local(i) => {
                let qlen = self.nodes[i].local_q.len();
                let mut j = if self.policy == Policy::Random && qlen > 1 { self.rng.gen_range(0..qlen.min(4)) } else { 0 };
                // commands about the same record key keep their order
                if j > 0 {
                    if let Some(k) = local_cmd_key(&self.nodes[i].local_q[j]) {
                        if let Some(first) = (0..j).find(|x| local_cmd_key(&self.nodes[i].local_q[*x]).as_ref() == Some(&k)) {
                            j = first;
                        }
                    }
                }
                let cmd = self.nodes[i].local_q.remove(j).expect("local cmd");
                self.schedule.push(format!("n{i}:local:{}", cmd_name(&format!("{cmd:?}"))));
                let watched = local_cmd_key(&cmd).filter(|k| matches!(cmd, LocalSwarmCmd::PutLocalRecord { .. } | LocalSwarmCmd::AddLocalRecordAsStored { .. } | LocalSwarmCmd::RemoveFailedLocalRecord { .. }) && self.watch.contains(&(i, k.clone())));
                let _g = self.rt.enter();
                let _ = self.nodes[i].drv.verif_handle_local_cmd(cmd);
                if let Some(k) = watched {
                    use libp2p::kad::store::RecordStore;
                    let v = self.nodes[i].drv.verif_store_mut().and_then(|st| st.get(&libp2p::kad::RecordKey::from(k.clone())).map(|r| r.value.clone()));
                    if self.watch_log.last().map(|(_, n, lk, lv)| !(*n == i && *lk == k && *lv == v)).unwrap_or(true) {
                        self.watch_log.push((self.steps, i, k, v));
                    }
                }
            }
            S::Net(i) => {
                let qlen = self.nodes[i].net_q.len();
                let j = if self.policy == Policy::Random && qlen > 1 { self.rng.gen_range(0..qlen.min(4)) } else { 0 };
                let cmd = self.nodes[i].net_q.remove(j).expect("net cmd");
                self.handle_net_cmd(i, cmd);
            }
            S::Event(i) => {
                let ev = self.nodes[i].event_q.pop_front().expect("event");
                self.schedule.push(format!("n{i}:event:{}", cmd_name(&format!("{ev:?}"))));
                let _g = self.rt.enter();
                match &self.nodes[i].node {
                    Some(node) => node.handle_network_event(ev),
                    None => self.nodes[i].kept_events.push(ev),
                }
            }
            S::Gate(g) => self.release_gate(&g),
        }
        self.yield_rounds(4);
        true
    }

    fn handle_net_cmd(&mut self, i: usize, cmd: NetworkSwarmCmd) {
        let name = cmd_name(&format!("{cmd:?}"));
        self.schedule.push(format!("n{i}:net:{name}"));
        let _g = self.rt.enter();
        match cmd {
            NetworkSwarmCmd::SendRequest { req, peer, sender } if peer != self.nodes[i].peer => {
                match self.node_index(&peer) {
                    Some(t) if !self.nodes[t].is_client && !self.partitioned => {
                        match req {
                            Request::Cmd(Cmd::Replicate { holder, keys }) => {
                                self.nodes[i].sent_replicates.push((peer, holder.clone(), keys.clone()));
                                self.nodes[t].drv.verif_handle_replicate(holder, keys);
                                if let Some(s) = sender {
                                    let _ = s.send(Ok(Response::Cmd(CmdResponse::Replicate(Ok(())))));
                                }
                            }
                            Request::Cmd(Cmd::PeerConsideredAsBad { .. }) => {
                                if let Some(s) = sender {
                                    let _ = s.send(Ok(Response::Cmd(CmdResponse::PeerConsideredAsBad(Ok(())))));
                                }
                            }
                            Request::Query(query) => {
                                // the responder side is the real Node::handle_query -> Network::send_response
                                let ev = NetworkEvent::QueryRequestReceived { query, channel: MsgResponder::FromSelf(sender) };
                                self.nodes[t].event_q.push_back(ev);
                            }
                        }
                    }
                    _ => {
                        if let Request::Cmd(Cmd::Replicate { holder, keys }) = &req {
                            self.nodes[i].sent_replicates.push((peer, holder.clone(), keys.clone()));
                        }
                        // not a simulated node: the request is lost; an awaiting caller sees a closed channel
                        self.nodes[i].dropped_requests.push((peer, req));
                        drop(sender);
                    }
                }
            }
            NetworkSwarmCmd::GetNetworkRecord { key, sender, cfg } if !self.nodes[i].is_client => match self.kad_get {
                KadGet::NotFound => {
                    let _ = cfg;
                    let _ = sender.send(Err(GetRecordError::RecordNotFound));
                }
                KadGet::Keep => self.pending_kad_gets.push((i, key, sender)),
            },
            NetworkSwarmCmd::GetClosestPeersToAddressFromNetwork { key, sender } => {
                // answer from the local routing table view (no live network)
                let _ = key;
                let peers = self.nodes[i].drv.verif_closest_k_value_local_peers();
                let _ = sender.send(peers);
            }
            other => {
                let _ = self.nodes[i].drv.verif_handle_network_cmd(other);
            }
        }
    }

    pub fn outstanding_rpc(&self) -> u64 {
        self.stub.as_ref().map(|s| s.outstanding.load(std::sync::atomic::Ordering::SeqCst)).unwrap_or(0)
    }

    /// Run until nothing is enabled. `handles_done` tells whether the check's own spawned
    /// operations have finished (while they have not, the simulator keeps waiting: they may be
    /// blocked on a real RPC round-trip or on a virtual-time sleep).
    /// Returns false if the step or wall-clock budget was exhausted (inconclusive).
    pub fn settle(&mut self, handles_done: &mut dyn FnMut() -> bool) -> bool {
        let wall = std::time::Instant::now();
        let mut spins_since_progress = 0u32;
        let mut quiet_advanced_ms = 0u64;
        let mut budget = 400_000u64;
        self.settle_ran_out_of_steps = false;
        loop {
            if budget == 0 {
                self.settle_ran_out_of_steps = true;
                return false;
            }
            if wall.elapsed() > std::time::Duration::from_secs(90) {
                return false;
            }
            budget -= 1;
            if self.step() {
                spins_since_progress = 0;
                quiet_advanced_ms = 0;
                continue;
            }
            let gates_busy = {
                let s = self.gates.lock().expect("gates");
                s.announced.len() + s.running.len() > 0
            };
            if self.outstanding_rpc() > 0 || gates_busy {
                // a real RPC round trip, or a disk task that was spawned / released but has not run to its end yet
                std::thread::sleep(std::time::Duration::from_micros(200));
                self.yield_rounds(4);
                spins_since_progress += 1;
                if spins_since_progress > 100_000 {
                    return false;
                }
                continue;
            }
            if !handles_done() {
                // the check's own operation is still pending with nothing enabled: it is either in the
                // short window around a real RPC (give real time first) or sleeping on the paused clock
                spins_since_progress += 1;
                if spins_since_progress > 4_000 {
                    return false;
                }
                if self.stub.is_some() && spins_since_progress <= 25 {
                    std::thread::sleep(std::time::Duration::from_micros(300));
                    self.yield_rounds(4);
                } else {
                    if self.stub.is_some() {
                        std::thread::sleep(std::time::Duration::from_micros(100));
                    }
                    self.advance(100);
                }
                continue;
            }
            // everything the check started has returned: let detached tasks that sleep on virtual
            // time (e.g. the fresh-record replication retry loop) run out
            if quiet_advanced_ms < 1_600 {
                self.advance(100);
                quiet_advanced_ms += 100;
                continue;
            }
            return true;
        }
    }

    /// a crash: every parked / announced background task is moved out of reach; they never run
    pub fn bury_background_tasks(&mut self) {
        self.yield_rounds(6);
        let mut s = self.gates.lock().expect("gates");
        let parked: Vec<_> = s.parked.drain(..).collect();
        s.announced.clear();
        s.running.clear();
        drop(s);
        self.graveyard.extend(parked);
    }

    pub fn advance(&mut self, ms: u64) {
        self.rt.block_on(async {
            tokio::time::advance(std::time::Duration::from_millis(ms)).await;
        });
        self.yield_rounds(4);
    }

    /// spawn an async operation of the check on the simulator's runtime
    pub fn spawn<F, T>(&self, f: F) -> tokio::task::JoinHandle<T>
    where
        F: std::future::Future<Output = T> + Send + 'static,
        T: Send + 'static,
    {
        self.rt.spawn(f)
    }

    pub fn join<T>(&self, h: tokio::task::JoinHandle<T>) -> Option<T> {
        if h.is_finished() {
            self.rt.block_on(h).ok()
        } else {
            h.abort();
            None
        }
    }

    /// synchronous local queries straight through the real command handler
    pub fn get_local(&mut self, i: usize, key: &libp2p::kad::RecordKey) -> Option<libp2p::kad::Record> {
        let (tx, mut rx) = oneshot::channel();
        let _g = self.rt.enter();
        let _ = self.nodes[i].drv.verif_handle_local_cmd(LocalSwarmCmd::GetLocalRecord { key: key.clone(), sender: tx });
        rx.try_recv().ok().flatten()
    }
    pub fn has_key(&mut self, i: usize, key: &libp2p::kad::RecordKey) -> bool {
        let (tx, mut rx) = oneshot::channel();
        let _g = self.rt.enter();
        let _ = self.nodes[i].drv.verif_handle_local_cmd(LocalSwarmCmd::RecordStoreHasKey { key: key.clone(), sender: tx });
        rx.try_recv().unwrap_or(false)
    }
    pub fn all_addresses(&mut self, i: usize) -> HashMap<ant_protocol::NetworkAddress, ant_protocol::storage::RecordType> {
        let (tx, mut rx) = oneshot::channel();
        let _g = self.rt.enter();
        let _ = self.nodes[i].drv.verif_handle_local_cmd(LocalSwarmCmd::GetAllLocalRecordAddresses { sender: tx });
        rx.try_recv().unwrap_or_default()
    }

    pub fn schedule_hash(&self) -> u64 {
        crate::common::h64(&self.schedule)
    }
}

impl Drop for Sim {
    fn drop(&mut self) {
        ant_networking::verif::install_thread_gate_controller(None);
    }
}

/// the record key a local command concerns, if any (used to keep per-key FIFO order)
pub fn local_cmd_key(c: &LocalSwarmCmd) -> Option<Vec<u8>> {
    match c {
        LocalSwarmCmd::PutLocalRecord { record } => Some(record.key.to_vec()),
        LocalSwarmCmd::RemoveFailedLocalRecord { key } => Some(key.to_vec()),
        LocalSwarmCmd::AddLocalRecordAsStored { key, .. } => Some(key.to_vec()),
        LocalSwarmCmd::GetLocalRecord { key, .. } => Some(key.to_vec()),
        LocalSwarmCmd::RecordStoreHasKey { key, .. } => Some(key.to_vec()),
        LocalSwarmCmd::FetchCompleted((key, _)) => Some(key.to_vec()),
        _ => None,
    }
}

fn cmd_name(dbg: &str) -> String {
    dbg.split(|c: char| !(c.is_alphanumeric() || c == ':' || c == '_')).next().unwrap_or("").rsplit("::").next().unwrap_or("").to_string()
}

impl Sim {
    /// Spawn an async operation of the check, drive the simulator until it (and everything it
    /// triggered) has settled, and return its output. None = did not finish (inconclusive).
    pub fn run_op<F, T>(&mut self, f: F) -> Option<T>
    where
        F: std::future::Future<Output = T> + Send + 'static,
        T: Send + 'static,
    {
        let h = self.rt.spawn(f);
        let mut done = || h.is_finished();
        let ok = self.settle(&mut done);
        if !ok && !h.is_finished() {
            h.abort();
            return None;
        }
        self.rt.block_on(h).ok()
    }

    /// fill node i's routing table with `n` random peers (optionally only peers farther from the node than `min_d`)
    pub fn add_rt_peers(&mut self, i: usize, peers: &[PeerId]) -> Vec<PeerId> {
        let mut added = vec![];
        for (j, p) in peers.iter().enumerate() {
            if self.nodes[i].drv.verif_add_peer(*p, quic_addr(30_000 + (j as u16 % 20_000))) {
                added.push(*p);
            }
        }
        added
    }
}
