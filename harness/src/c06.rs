//! C06 — register replicas converge and accept only authorised writes.

use crate::common::*;
use crate::gen;
use ant_registers::{Permissions, RegisterAddress, RegisterCrdt, RegisterOp, SignedRegister};
use bls::SecretKey;
use rand::{seq::SliceRandom, Rng};
use serde_json::json;
use std::collections::BTreeSet;
use xor_name::XorName;

pub struct C06;

const MAX_ENTRY: usize = 1024;

#[derive(Clone)]
struct PoolOp {
    op: RegisterOp,
    admissible: bool,
    why: &'static str,
}

fn reencode(r: &SignedRegister) -> Option<SignedRegister> {
    rmp_serde::from_slice(&rmp_serde::to_vec(r).ok()?).ok()
}

fn read_of(addr: RegisterAddress, ops: &[RegisterOp]) -> Option<BTreeSet<(ant_registers::EntryHash, Vec<u8>)>> {
    let mut crdt = RegisterCrdt::new(addr);
    for op in ops {
        crdt.apply_op(op.clone()).ok()?;
    }
    Some(crdt.read())
}

fn perms_label(p: &Permissions) -> &'static str {
    match p {
        Permissions::AnyoneCanWrite => "anyone",
        Permissions::Writers(w) if w.len() <= 1 => "owner-only",
        _ => "writers",
    }
}

struct Ctx<'a, 'b> {
    cx: &'a mut Cx<'b>,
    perms: &'static str,
}

impl Ctx<'_, '_> {
    /// every state reached through an accepted operation or merge must verify on any other replica
    fn closure(&mut self, r: &SignedRegister, how: &str) {
        self.cx.eval();
        self.cx.count("closure-checks");
        match reencode(r) {
            None => self.cx.violation("closure:not-decodable", format!("register reached by {how} does not survive encode/decode"), json!({"ops": r.ops().len()})),
            Some(back) => {
                if let Err(e) = back.verify() {
                    self.cx.violation(
                        format!("closure:{}", if r.ops().len() >= 1024 { "entry-count-limit" } else { "verify-rejects-reachable-state" }),
                        format!("a replica reached {} ops through accepted {how}, but verify() on another replica says {e:?} (permissions: {})", r.ops().len(), self.perms),
                        json!({"ops": r.ops().len(), "how": how, "permissions": self.perms}),
                    );
                }
            }
        }
    }
}

fn limit_scenario(c: &mut Ctx) {
    // open register: no signature checks, so operations can be minted cheaply with one signature
    let owner = gen::bls_sk(&mut c.cx.rng);
    let base = gen::register(&owner, XorName(c.cx.rng.gen()), Permissions::new_anyone_can_write());
    let addr = *base.address();
    let template = gen::RawOp::from_op(&gen::reg_op(addr, vec![0], BTreeSet::new(), &owner));
    let mut counter = 0u32;
    let mut mint = |n: usize| -> Vec<RegisterOp> {
        (0..n)
            .map(|_| {
                counter += 1;
                let mut raw = template.clone();
                raw.crdt_op.value = counter.to_be_bytes().to_vec();
                raw.to_op()
            })
            .collect()
    };
    let n1 = *[1020usize, 1022, 1023, 1024].choose(&mut c.cx.rng).expect("nonempty");
    let mut x = base.clone();
    let mut accepted = 0usize;
    for op in mint(n1 + 4) {
        c.cx.eval();
        let before = x.ops().len();
        match x.add_op(op) {
            Ok(()) => {
                accepted += 1;
                if x.ops().len() >= 1022 {
                    c.closure(&x.clone(), "add_op");
                }
            }
            Err(_) => {
                if x.ops().len() != before {
                    c.cx.violation("rejected-op-changed-replica", "add_op returned Err yet the op set changed".to_string(), json!({}));
                }
            }
        }
    }
    c.cx.count("limit:add_op-runs");
    // merging across the limit
    for verified in [false, true] {
        let (na, nb) = *[(1023usize, 1usize), (1020, 4), (1000, 24), (600, 424), (512, 512), (1023, 3), (1020, 3), (1000, 30), (600, 600), (1024, 1), (1021, 4)].choose(&mut c.cx.rng).expect("nonempty");
        let (mut a, mut b) = (base.clone(), base.clone());
        for op in mint(na) {
            let _ = a.add_op(op);
        }
        for op in mint(nb) {
            let _ = b.add_op(op);
        }
        c.cx.eval();
        let before_ops = a.ops().clone();
        let res = if verified { a.verified_merge(&b) } else { a.merge(&b) };
        c.cx.count("limit:merges");
        // the two replicas hold disjoint operations: the union has na + nb entries and fits iff that is <= 1024
        // (a register of exactly 1024 entries is reachable by add_op and verifies)
        let union = na + nb;
        if union == 1024 {
            c.cx.count("limit:merges-to-exactly-the-limit");
        }
        match (&res, union <= 1024) {
            (Err(e), true) => c.cx.violation("merge-within-entry-limit-refused", format!("replicas of {na} and {nb} disjoint operations (union {union} <= 1024) were not merged: {e:?}"), json!({"verified": verified})),
            (Ok(()), false) => c.cx.violation("merge-beyond-entry-limit-accepted", format!("replicas of {na} and {nb} disjoint operations (union {union} > 1024) were merged"), json!({"verified": verified})),
            _ => {}
        }
        if res.is_ok() {
            c.closure(&a, if verified { "verified_merge" } else { "merge" });
        } else {
            c.cx.count("limit:merges-refused");
            if *a.ops() != before_ops {
                c.cx.violation("refused-merge-changed-replica", format!("a merge of {na} + {nb} operations was refused ({res:?}) yet the replica went from {} to {} operations", before_ops.len(), a.ops().len()), json!({"verified": verified}));
            }
            c.closure(&a, "refused merge");
        }
    }
    // the same entries written once more by another signer (an open register takes them): the operations differ, their
    // entry hashes do not. Whatever the merge decides at the limit, what it leaves must verify elsewhere.
    {
        let other_signer = gen::bls_sk(&mut c.cx.rng).public_key();
        let na = *[1024usize, 1023, 1022, 1020].choose(&mut c.cx.rng).expect("nonempty");
        let ops = mint(na);
        let mut a = base.clone();
        for op in &ops {
            let _ = a.add_op(op.clone());
        }
        let ntw = c.cx.rng.gen_range(1..=6);
        let mut b = base.clone();
        for op in ops.iter().take(ntw) {
            let mut raw = gen::RawOp::from_op(op);
            raw.source = other_signer;
            let _ = b.add_op(raw.to_op());
        }
        if b.ops().len() == ntw && a.ops().len() == na {
            for verified in [false, true] {
                c.cx.eval();
                c.cx.count("limit:merges-of-same-entries-by-another-signer");
                let mut aa = a.clone();
                let before = aa.ops().clone();
                let res = if verified { aa.verified_merge(&b) } else { aa.merge(&b) };
                if res.is_ok() {
                    c.closure(&aa, if verified { "verified_merge of the same entries written by another signer" } else { "merge of the same entries written by another signer" });
                } else if *aa.ops() != before {
                    c.cx.violation("refused-merge-changed-replica", format!("a merge of {na} operations with {ntw} operations writing the same entries under another signer was refused ({res:?}) yet the operation set changed"), json!({"verified": verified}));
                }
            }
        }
    }
    // a replica holding exactly the limit keeps merging what it already holds (duplication at the cap), and a replica
    // holding part of it can take the rest
    {
        let ops = mint(1024);
        let mut a = base.clone();
        for op in &ops {
            let _ = a.add_op(op.clone());
        }
        let k = *[1usize, 2, 500, 1023, 1024].choose(&mut c.cx.rng).expect("nonempty");
        let mut sub = base.clone();
        for op in ops.choose_multiple(&mut c.cx.rng, k) {
            let _ = sub.add_op(op.clone());
        }
        if a.ops().len() == 1024 && sub.ops().len() == k {
            for verified in [false, true] {
                c.cx.eval();
                c.cx.count("limit:merges-into-a-full-replica");
                let (mut aa, copy) = (a.clone(), a.clone());
                let r0 = if verified { aa.verified_merge(&copy) } else { aa.merge(&copy) };
                if r0.is_err() || aa.ops() != a.ops() {
                    c.cx.violation("merge-not-idempotent", format!("a replica of exactly 1024 ops merged with a copy of itself: {r0:?}"), json!({"verified": verified, "at_the_limit": true}));
                }
                let mut aa = a.clone();
                let r1 = if verified { aa.verified_merge(&sub) } else { aa.merge(&sub) };
                if r1.is_err() || aa.ops() != a.ops() {
                    c.cx.violation("merge-of-held-operations-refused-at-the-limit", format!("a replica of exactly 1024 ops was given {k} of its own operations again: {r1:?}, {} ops afterwards", aa.ops().len()), json!({"verified": verified}));
                }
                let mut ss = sub.clone();
                let r2 = if verified { ss.verified_merge(&a) } else { ss.merge(&a) };
                if r2.is_err() || ss.ops() != a.ops() {
                    c.cx.violation("merge-within-entry-limit-refused", format!("a replica holding {k} of 1024 operations merged with the replica holding all of them: {r2:?}, {} ops afterwards", ss.ops().len()), json!({"verified": verified}));
                } else {
                    c.closure(&ss, "merge up to exactly the limit");
                }
            }
        }
    }
    // overlapping replicas whose sizes sum to more than the limit while their union stays below it
    {
        let ops = mint(900);
        let (lo, hi) = (c.cx.rng.gen_range(200..400), c.cx.rng.gen_range(500..700));
        let (mut a, mut b) = (base.clone(), base.clone());
        for op in &ops[..hi] {
            let _ = a.add_op(op.clone());
        }
        for op in &ops[lo..] {
            let _ = b.add_op(op.clone());
        }
        for verified in [false, true] {
            c.cx.eval();
            c.cx.count("limit:overlap-merges");
            let mut aa = a.clone();
            let self_copy = a.clone();
            let r0 = if verified { aa.verified_merge(&self_copy) } else { aa.merge(&self_copy) };
            if r0.is_err() || aa.ops() != a.ops() {
                c.cx.violation("merge-not-idempotent", format!("a replica of {} ops merged with a copy of itself: {r0:?}", a.ops().len()), json!({"verified": verified}));
            }
            let (mut ab, mut ba) = (a.clone(), b.clone());
            let (r1, r2) = if verified { (ab.verified_merge(&b), ba.verified_merge(&a)) } else { (ab.merge(&b), ba.merge(&a)) };
            if r1.is_err() || r2.is_err() || ab.ops() != ba.ops() || ab.ops().len() != 900 {
                c.cx.violation(
                    "merge-of-overlapping-replicas-failed",
                    format!("replicas of {} and {} ops whose union is 900 (< limit): a+b={r1:?} b+a={r2:?}, sizes {} / {}", a.ops().len(), b.ops().len(), ab.ops().len(), ba.ops().len()),
                    json!({"verified": verified}),
                );
            } else {
                c.closure(&ab, "merge of overlapping replicas");
            }
        }
    }
    // overlapping replicas whose UNION exceeds the limit: the merge must be refused and - sharing operations or not -
    // a refused merge leaves both replicas exactly as they were
    {
        let ops = mint(1060);
        let (lo, hi) = (c.cx.rng.gen_range(40..400), c.cx.rng.gen_range(700..1020));
        let (mut a, mut b) = (base.clone(), base.clone());
        for op in &ops[..hi] {
            let _ = a.add_op(op.clone());
        }
        for op in &ops[lo..] {
            let _ = b.add_op(op.clone());
        }
        for verified in [false, true] {
            c.cx.eval();
            c.cx.count("limit:overlap-merges-beyond-the-limit");
            let (mut ab, mut ba) = (a.clone(), b.clone());
            let (r1, r2) = if verified { (ab.verified_merge(&b), ba.verified_merge(&a)) } else { (ab.merge(&b), ba.merge(&a)) };
            if r1.is_ok() || r2.is_ok() {
                c.cx.violation("merge-beyond-entry-limit-accepted", format!("replicas of {} and {} ops sharing {} whose union is 1060 were merged: {r1:?} / {r2:?}", a.ops().len(), b.ops().len(), hi - lo), json!({"verified": verified}));
            } else if ab.ops() != a.ops() || ba.ops() != b.ops() {
                c.cx.violation(
                    "refused-merge-changed-replica",
                    format!("a merge of overlapping replicas ({} and {} ops, {} shared, union 1060) was refused ({r1:?}) yet the replicas went to {} / {} operations", a.ops().len(), b.ops().len(), hi - lo, ab.ops().len(), ba.ops().len()),
                    json!({"verified": verified, "overlapping": true}),
                );
            }
        }
    }
    c.cx.nontrivial(&("limit", c.cx.index, n1, accepted));
}

impl Check for C06 {
    fn id(&self) -> &'static str {
        "C06"
    }
    fn rule(&self) -> String {
        "each case: one base register (permissions: owner only / writer set / anyone) and a pool of 5-60 operations (authorised signer, unauthorised signer, forged signature, entry of exactly 1024 and of 1025 bytes, operation addressed to another register, concurrent roots and causally chained operations), delivered to 2-5 replicas as random permutations with duplicates (full delivery) or random subsets healed by random pairwise merge / verified_merge; \
         judged: every add_op result equals admissibility by the statement, every replica's op set is a subset of the admissible set, replicas with equal admissible sets have equal ops() and equal RegisterCrdt::read(), merge is commutative / associative / idempotent, merge with a different base register fails and changes nothing, \
         and every state reached by an accepted add_op / merge / verified_merge re-decodes and verify()s (closure). Every 12th case also drives an open register to 1020-1028 entries by add_op and across the limit by merge. \
         Non-trivial: a pool containing at least one inadmissible and one causally chained operation; distinct = hash of the pool and delivery plan."
            .into()
    }
    fn assumptions(&self) -> Vec<String> {
        vec![
            "an open (anyone-can-write) register takes any operation regardless of its signature; forged signatures are only generated for permissioned registers".into(),
            "\"against a different base register\" is read as: an operation whose address names another register, and a merge between replicas whose address or permissions differ".into(),
            "forgeries are bit-level (signature by another key / over other bytes); collisions of the 64-bit hash that RegisterOp signs are out of scope".into(),
        ]
    }
    fn cases(&self, tier: Tier) -> u64 {
        tier.pick(480, 12_000)
    }
    fn min_nontrivial(&self, tier: Tier) -> u64 {
        tier.pick(150, 4_000)
    }
    fn shard_budget(&self, tier: Tier) -> std::time::Duration {
        tier.pick(std::time::Duration::from_secs(150), std::time::Duration::from_secs(1500))
    }
    fn required_counters(&self, _tier: Tier) -> Vec<&'static str> {
        vec!["closure-checks", "limit:merges", "limit:overlap-merges", "ops:forged-reparented", "ops:forged-signature", "ops:foreign-address", "ops:unauthorised-signer", "merges"]
    }
    fn run_case(&self, cx: &mut Cx) {
        let owner = gen::bls_sk(&mut cx.rng);
        let w1 = gen::bls_sk(&mut cx.rng);
        let outsider = gen::bls_sk(&mut cx.rng);
        let perms = match cx.rng.gen_range(0..3) {
            0 => Permissions::default(),
            1 => Permissions::new_with([w1.public_key()]),
            _ => Permissions::new_anyone_can_write(),
        };
        let open = perms.can_anyone_write();
        let meta = XorName(cx.rng.gen());
        let base = gen::register(&owner, meta, perms.clone());
        let addr = *base.address();
        let plabel = perms_label(base.base_register().permissions());
        let mut c = Ctx { cx, perms: plabel };
        if c.cx.index % 12 == 0 {
            limit_scenario(&mut c);
        }
        // a different base register (other permissions, same address) and a foreign register (other address)
        let other_perms = if open { Permissions::default() } else { Permissions::new_anyone_can_write() };
        let other_base = gen::register(&owner, meta, other_perms);
        let foreign = gen::register(&owner, XorName(c.cx.rng.gen()), perms.clone());

        // ---- pool
        let pool_size = if c.cx.rng.gen_bool(0.15) { c.cx.rng.gen_range(30..=60) } else { c.cx.rng.gen_range(5..=22) };
        let mut pool: Vec<PoolOp> = vec![];
        let mut hashes: Vec<[u8; 32]> = vec![];
        let (mut has_bad, mut has_chain) = (false, false);
        for _ in 0..pool_size {
            let children: BTreeSet<[u8; 32]> = if !hashes.is_empty() && c.cx.rng.gen_bool(0.6) {
                has_chain = true;
                let n = c.cx.rng.gen_range(1..=hashes.len().min(3));
                hashes.choose_multiple(&mut c.cx.rng, n).cloned().collect()
            } else {
                BTreeSet::new()
            };
            let kind = c.cx.rng.gen_range(0..100);
            let (signer, why): (&SecretKey, &'static str) = match kind {
                0..=44 => (&owner, "authorised:owner"),
                45..=59 => (&w1, "signer:w1"),
                60..=69 => (&outsider, "unauthorised-signer"),
                70..=77 => (&owner, "forged-signature"),
                78..=83 => (&owner, "entry-1025"),
                84..=89 => (&owner, "entry-1024"),
                90..=95 => (&owner, "foreign-address"),
                _ => (&w1, "forged-signature"),
            };
            let elen = match why {
                "entry-1025" => MAX_ENTRY + 1,
                "entry-1024" => MAX_ENTRY,
                _ => c.cx.rng.gen_range(0..48),
            };
            let entry = gen::bytes(&mut c.cx.rng, elen);
            let target_addr = if why == "foreign-address" { *foreign.address() } else { addr };
            let mut op = gen::reg_op(target_addr, entry, children, signer);
            if why == "forged-signature" {
                if open {
                    continue; // not judged for open registers
                }
                let mut raw = gen::RawOp::from_op(&op);
                let variant = c.cx.rng.gen_range(0..5);
                if variant >= 3 {
                    // a genuine signed operation replayed with altered causal links (same value, source, signature)
                    let mut other_children: BTreeSet<[u8; 32]> = raw.crdt_op.children.clone();
                    if let Some(h) = hashes.choose(&mut c.cx.rng) {
                        if !other_children.remove(h) {
                            other_children.insert(*h);
                        }
                    } else {
                        other_children.insert(c.cx.rng.gen());
                    }
                    raw.crdt_op.children = other_children;
                    c.cx.count("ops:forged-reparented");
                }
                raw.signature = match variant {
                    0 => outsider.sign(b"something else"),
                    1 => signer.sign(b"other bytes"),
                    3 | 4 => raw.signature.clone(),
                    _ => {
                        // signature of a different (valid) operation by the same signer
                        gen::RawOp::from_op(&gen::reg_op(addr, vec![9, 9, 9], BTreeSet::new(), signer)).signature
                    }
                };
                op = raw.to_op();
            }
            let signer_pk = signer.public_key();
            let permitted = open || base.base_register().permissions().can_write(&signer_pk);
            let admissible = permitted && why != "forged-signature" && why != "entry-1025" && why != "foreign-address";
            c.cx.count(&format!("ops:{}", why.split(':').next().unwrap_or(why)));
            if !admissible {
                has_bad = true;
            }
            hashes.push(gen::RawOp::from_op(&op).crdt_op.hash());
            pool.push(PoolOp { op, admissible, why });
        }
        let admissible_set: BTreeSet<RegisterOp> = pool.iter().filter(|p| p.admissible).map(|p| p.op.clone()).collect();

        // ---- deliveries
        let nrep = c.cx.rng.gen_range(2..=5);
        let full = c.cx.rng.gen_bool(0.5);
        let mut replicas: Vec<SignedRegister> = vec![base.clone(); nrep];
        let mut received: Vec<Vec<RegisterOp>> = vec![vec![]; nrep]; // admissible ops in delivery order
        let mut plan = vec![];
        for r in 0..nrep {
            let mut order: Vec<usize> = (0..pool.len()).collect();
            order.shuffle(&mut c.cx.rng);
            if !full {
                let keep = c.cx.rng.gen_range(0..=order.len());
                order.truncate(keep);
            }
            // duplicates
            for _ in 0..c.cx.rng.gen_range(0..4) {
                if let Some(&d) = order.choose(&mut c.cx.rng) {
                    let pos = c.cx.rng.gen_range(0..=order.len());
                    order.insert(pos, d);
                }
            }
            plan.push(order.clone());
            for i in order {
                let p = pool[i].clone();
                c.cx.eval();
                let before = replicas[r].ops().clone();
                let res = replicas[r].add_op(p.op.clone());
                if res.is_ok() != p.admissible {
                    let d = if p.admissible {
                        format!("admissible operation ({}) rejected by add_op: {res:?} (permissions: {plabel})", p.why)
                    } else {
                        format!("inadmissible operation ({}) accepted by add_op (permissions: {plabel})", p.why)
                    };
                    c.cx.violation(
                        format!("add_op:{}:{}", if p.admissible { "rejected-admissible" } else { "accepted-inadmissible" }, p.why.split(':').next().unwrap_or(p.why)),
                        d,
                        json!({"why": p.why, "permissions": plabel, "entry_len": gen::RawOp::from_op(&p.op).crdt_op.value.len()}),
                    );
                }
                if res.is_err() && *replicas[r].ops() != before {
                    c.cx.violation("rejected-op-changed-replica", format!("add_op returned Err for {} yet the replica's op set changed", p.why), json!({}));
                }
                if p.admissible && !received[r].contains(&p.op) {
                    received[r].push(p.op);
                }
            }
            // nothing but admissible operations entered
            for op in replicas[r].ops() {
                if !admissible_set.contains(op) {
                    let why = pool.iter().find(|p| p.op == *op).map(|p| p.why).unwrap_or("?");
                    c.cx.violation(format!("inadmissible-op-in-replica:{why}"), format!("replica holds an operation that is not admissible ({why}, permissions: {plabel})"), json!({"why": why}));
                }
            }
        }
        // ---- convergence of replicas that received the same admissible set
        for a in 0..nrep {
            for b in (a + 1)..nrep {
                let (sa, sb): (BTreeSet<_>, BTreeSet<_>) = (received[a].iter().cloned().collect(), received[b].iter().cloned().collect());
                if sa != sb {
                    continue;
                }
                c.cx.eval();
                c.cx.count("convergence-pairs");
                if replicas[a].ops() != replicas[b].ops() {
                    c.cx.violation("divergent-op-sets", "two replicas received the same admissible operations (different order / duplication) but hold different op sets".to_string(), json!({"orders": [plan[a].clone(), plan[b].clone()]}));
                }
                let (ra, rb) = (read_of(addr, &received[a]), read_of(addr, &received[b]));
                if ra.is_none() || ra != rb {
                    c.cx.violation("divergent-current-values", "two replicas applied the same admissible operations in different orders and present different current values".to_string(), json!({"orders": [plan[a].clone(), plan[b].clone()]}));
                }
            }
        }
        // ---- merges: heal the partition by random pairwise merges
        let union_all: BTreeSet<RegisterOp> = replicas.iter().flat_map(|r| r.ops().iter().cloned()).collect();
        for round in 0..3 {
            let mut pairs: Vec<(usize, usize)> = (0..nrep).flat_map(|a| (0..nrep).filter(move |b| *b != a).map(move |b| (a, b))).collect();
            pairs.shuffle(&mut c.cx.rng);
            for (a, b) in pairs {
                let other = replicas[b].clone();
                let expected: BTreeSet<RegisterOp> = replicas[a].ops().union(other.ops()).cloned().collect();
                let verified = c.cx.rng.gen_bool(0.5);
                c.cx.eval();
                c.cx.count("merges");
                let res = if verified { replicas[a].verified_merge(&other) } else { replicas[a].merge(&other) };
                match res {
                    Ok(()) => {
                        if *replicas[a].ops() != expected {
                            c.cx.violation("merge-not-union", "merge of two replicas of the same register is not the union of their operations".to_string(), json!({"verified": verified}));
                        }
                    }
                    Err(e) => c.cx.violation("merge-of-same-base-failed", format!("merging two replicas of the same base register failed: {e:?}"), json!({"verified": verified})),
                }
            }
            if round == 0 {
                for r in replicas.clone() {
                    c.closure(&r, "add_op and merge");
                }
            }
        }
        for r in &replicas {
            if *r.ops() != union_all {
                c.cx.violation("no-convergence-after-merges", "after every pair of replicas merged (three rounds) a replica does not hold the union of all operations".to_string(), json!({}));
                break;
            }
        }
        if let Some(rd) = read_of(addr, &union_all.iter().cloned().collect::<Vec<_>>()) {
            // identical current values whatever order the union is applied in
            let mut shuffled: Vec<RegisterOp> = union_all.iter().cloned().collect();
            shuffled.shuffle(&mut c.cx.rng);
            if read_of(addr, &shuffled) != Some(rd) {
                c.cx.violation("divergent-current-values", "the same operation set applied in two orders presents different current values".to_string(), json!({}));
            }
        }
        // ---- merge algebra on three partial replicas
        {
            let mk = |c: &mut Ctx| {
                let mut r = base.clone();
                for p in pool.iter().filter(|p| p.admissible) {
                    if c.cx.rng.gen_bool(0.5) {
                        let _ = r.add_op(p.op.clone());
                    }
                }
                r
            };
            let (a, b, d) = (mk(&mut c), mk(&mut c), mk(&mut c));
            let m = |x: &SignedRegister, y: &SignedRegister| {
                let mut z = x.clone();
                z.merge(y).map(|_| z)
            };
            c.cx.eval();
            match (m(&a, &b), m(&b, &a)) {
                (Ok(ab), Ok(ba)) => {
                    if ab.ops() != ba.ops() {
                        c.cx.violation("merge-not-commutative", "A.merge(B) and B.merge(A) hold different operations".to_string(), json!({}));
                    }
                    match (m(&ab, &d), m(&b, &d).and_then(|bd| m(&a, &bd))) {
                        (Ok(l), Ok(r)) if l.ops() != r.ops() => c.cx.violation("merge-not-associative", "(A+B)+C != A+(B+C)".to_string(), json!({})),
                        _ => {}
                    }
                }
                _ => c.cx.violation("merge-of-same-base-failed", "merge of replicas of the same base failed".to_string(), json!({})),
            }
            if m(&a, &a).map(|aa| aa.ops() != a.ops()).unwrap_or(true) {
                c.cx.violation("merge-not-idempotent", "A.merge(A) != A".to_string(), json!({}));
            }
        }
        // ---- CRDT-level merge of replicas that hold operations without their predecessors (delivery gaps)
        {
            let mut chain: Vec<RegisterOp> = vec![];
            let mut prev: Option<[u8; 32]> = None;
            let n = c.cx.rng.gen_range(3..=7);
            for i in 0..n {
                // a chain v1 <- v2 <- ... with an occasional concurrent root
                let children: BTreeSet<[u8; 32]> = match prev {
                    Some(h) if !c.cx.rng.gen_bool(0.15) => [h].into_iter().collect(),
                    _ => BTreeSet::new(),
                };
                let op = gen::reg_op(addr, vec![0xc0, i as u8, c.cx.rng.gen()], children, &owner);
                prev = Some(gen::RawOp::from_op(&op).crdt_op.hash());
                chain.push(op);
            }
            let subset = |c: &mut Ctx| -> Vec<RegisterOp> { chain.iter().filter(|_| c.cx.rng.gen_bool(0.55)).cloned().collect() };
            let (sa, sb) = (subset(&mut c), subset(&mut c));
            let build = |ops: &[RegisterOp]| {
                let mut r = RegisterCrdt::new(addr);
                for op in ops {
                    let _ = r.apply_op(op.clone());
                }
                r
            };
            let (a, b) = (build(&sa), build(&sb));
            let (mut ab, mut ba) = (a.clone(), b.clone());
            ab.merge(b.clone());
            ba.merge(a.clone());
            let mut union: Vec<RegisterOp> = sa.clone();
            for op in &sb {
                if !union.contains(op) {
                    union.push(op.clone());
                }
            }
            let reference = build(&union);
            c.cx.eval();
            c.cx.count("crdt-gap-merges");
            let gaps = union.len() < chain.len();
            if gaps {
                c.cx.count("crdt-gap-merges:with-missing-predecessors");
            }
            if ab.size() != reference.size() || ba.size() != reference.size() || ab.read() != reference.read() || ba.read() != reference.read() {
                c.cx.violation(
                    "crdt-merge-lost-or-diverged",
                    format!("replicas holding {} and {} of {} chained operations: A.merge(B) has {} entries, B.merge(A) {}, applying the union directly gives {} (current values equal: {})", sa.len(), sb.len(), chain.len(), ab.size(), ba.size(), reference.size(), ab.read() == ba.read()),
                    json!({"a": sa.len(), "b": sb.len(), "chain": chain.len()}),
                );
            }
        }
        // ---- an unauthorised "twin" of an operation the replica already holds (same entry and causal links, signed by
        //      a key that may not write) arriving inside another replica's state: it must not enter through a merge
        if !open {
            let holder = replicas.iter().find(|r| !r.ops().is_empty()).cloned();
            if let Some(a) = holder {
                let held = a.ops().iter().next().cloned().expect("nonempty");
                let mut raw = gen::RawOp::from_op(&held);
                let twin = gen::reg_op(raw.address, raw.crdt_op.value.clone(), raw.crdt_op.children.clone(), &outsider);
                raw = gen::RawOp::from_op(&twin);
                let twin = raw.to_op();
                if twin != held && gen::RawOp::from_op(&twin).crdt_op.hash() == gen::RawOp::from_op(&held).crdt_op.hash() {
                    let mut ops: BTreeSet<RegisterOp> = if c.cx.rng.gen_bool(0.5) { a.ops().clone() } else { BTreeSet::new() };
                    ops.insert(twin.clone());
                    let sig = owner.sign(base.base_register().bytes().expect("bytes"));
                    let forged_state = SignedRegister::new(base.base_register().clone(), sig, ops);
                    let mut target = a.clone();
                    let before = target.ops().clone();
                    c.cx.eval();
                    c.cx.count("merges:unauthorised-twin-of-a-held-op");
                    let res = target.verified_merge(&forged_state);
                    if target.ops().contains(&twin) || res.is_ok() {
                        c.cx.violation(
                            "inadmissible-op-entered-through-merge:unauthorised-twin-of-a-held-op",
                            format!("a state carrying a copy of a held operation signed by a key without write permission was merged ({res:?}); the copy is now in the replica: {}", target.ops().contains(&twin)),
                            json!({"perms": c.perms}),
                        );
                    } else if *target.ops() != before {
                        c.cx.violation("refused-merge-changed-replica", "a refused verified_merge changed the operation set".to_string(), json!({"perms": c.perms}));
                    }
                }
            }
        }
        // ---- an operation addressed to another register arriving inside a whole replica state (all permission settings,
        //      the open one included: the address is not a matter of who may write)
        {
            let stray = gen::reg_op(*foreign.address(), vec![0x5a, c.cx.rng.gen()], BTreeSet::new(), &owner);
            let a = replicas[c.cx.rng.gen_range(0..replicas.len())].clone();
            let mut ops: BTreeSet<RegisterOp> = if c.cx.rng.gen_bool(0.5) { a.ops().clone() } else { BTreeSet::new() };
            ops.insert(stray.clone());
            let sig = owner.sign(base.base_register().bytes().expect("bytes"));
            let state = SignedRegister::new(base.base_register().clone(), sig, ops);
            c.cx.eval();
            c.cx.count("states-with-op-of-another-register");
            let v = state.verify();
            let va = state.verify_with_address(addr);
            let mut target = a.clone();
            let before = target.ops().clone();
            let res = target.verified_merge(&state);
            if v.is_ok() || va.is_ok() || res.is_ok() || target.ops().contains(&stray) {
                c.cx.violation(
                    "inadmissible-op-entered-through-merge:op-of-another-register",
                    format!("a replica state carrying an operation addressed to another register: verify={v:?} verify_with_address={va:?} verified_merge={res:?}; the operation is now in the replica: {} (permissions: {})", target.ops().contains(&stray), c.perms),
                    json!({"perms": c.perms}),
                );
            } else if *target.ops() != before {
                c.cx.violation("refused-merge-changed-replica", "a refused verified_merge changed the operation set".to_string(), json!({"perms": c.perms}));
            }
        }
        // ---- different base register
        {
            let mut other = other_base.clone();
            // give the other-base replica an op so that a wrongly accepted merge is visible
            let _ = other.add_op(gen::reg_op(addr, vec![1, 2, 3], BTreeSet::new(), &owner));
            for verified in [false, true] {
                let mut a = replicas[0].clone();
                let before = a.ops().clone();
                c.cx.eval();
                c.cx.count("different-base-merges");
                let res = if verified { a.verified_merge(&other) } else { a.merge(&other) };
                if res.is_ok() || *a.ops() != before {
                    c.cx.violation("merged-different-base-register", format!("merge with a replica whose permissions differ returned {res:?} / changed the op set"), json!({"verified": verified}));
                }
                let mut f = foreign.clone();
                let _ = f.add_op(gen::reg_op(*foreign.address(), vec![4], BTreeSet::new(), &owner));
                let mut a2 = replicas[0].clone();
                let res2 = if verified { a2.verified_merge(&f) } else { a2.merge(&f) };
                if res2.is_ok() || *a2.ops() != before {
                    c.cx.violation("merged-different-base-register", format!("merge with a replica of another register returned {res2:?} / changed the op set"), json!({"verified": verified}));
                }
            }
        }
        for r in replicas.clone() {
            c.closure(&r, "add_op and merge");
        }
        if has_bad && has_chain {
            let key = (pool.iter().map(|p| (p.why, gen::RawOp::from_op(&p.op).crdt_op.hash())).collect::<Vec<_>>(), plan.clone());
            c.cx.nontrivial(&key);
        }
        if c.cx.index < 3 {
            let whys: Vec<&str> = pool.iter().map(|p| p.why).collect();
            c.cx.sample(json!({"permissions": plabel, "pool": whys, "replicas": nrep, "full_delivery": full, "delivery_orders": plan}));
        }
    }
}
