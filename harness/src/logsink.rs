//! A minimal `tracing` subscriber that behaves like the shipped binaries' logging as far as the code under test can
//! tell: when switched on, every event and span is enabled, so the arguments of the repository's own `warn!` /
//! `debug!` / `trace!` statements are evaluated and formatted (into a sink). Without a subscriber — the situation of
//! `cargo test` — those arguments are never evaluated.
use std::fmt::Write;
use std::sync::atomic::{AtomicBool, AtomicU64, Ordering};
use tracing::field::{Field, Visit};
use tracing::span::{Attributes, Id, Record};
use tracing::subscriber::Interest;
use tracing::{Event, Metadata, Subscriber};

static ON: AtomicBool = AtomicBool::new(false);
static EVENTS: AtomicU64 = AtomicU64::new(0);
static BYTES: AtomicU64 = AtomicU64::new(0);

struct Fmt(String);
impl Visit for Fmt {
    fn record_debug(&mut self, _f: &Field, v: &dyn std::fmt::Debug) {
        self.0.clear();
        let _ = write!(self.0, "{v:?}");
        BYTES.fetch_add(self.0.len() as u64, Ordering::Relaxed);
    }
}

struct Sink;
impl Subscriber for Sink {
    fn register_callsite(&self, _m: &'static Metadata<'static>) -> Interest {
        Interest::sometimes()
    }
    fn enabled(&self, _m: &Metadata<'_>) -> bool {
        ON.load(Ordering::Relaxed)
    }
    fn new_span(&self, a: &Attributes<'_>) -> Id {
        a.record(&mut Fmt(String::new()));
        Id::from_u64(1)
    }
    fn record(&self, _s: &Id, v: &Record<'_>) {
        v.record(&mut Fmt(String::new()));
    }
    fn record_follows_from(&self, _s: &Id, _f: &Id) {}
    fn event(&self, e: &Event<'_>) {
        EVENTS.fetch_add(1, Ordering::Relaxed);
        e.record(&mut Fmt(String::new()));
    }
    fn enter(&self, _s: &Id) {}
    fn exit(&self, _s: &Id) {}
}

/// install the sink once per process (idempotent) and switch it on or off
pub fn set(on: bool) {
    static INSTALLED: AtomicBool = AtomicBool::new(false);
    if !INSTALLED.swap(true, Ordering::SeqCst) {
        let _ = tracing::subscriber::set_global_default(Sink);
    }
    ON.store(on, Ordering::SeqCst);
}

pub fn events() -> u64 {
    EVENTS.load(Ordering::Relaxed)
}
