//! C05 — quorum reads return only what enough distinct peers agree on.
//!
//! A real client SwarmDriver handles the real GetNetworkRecord command (real kademlia.get_record ->
//! real QueryId); the harness then feeds fabricated kad progress events (found records from chosen
//! peers, finished, not found, quorum failed, timeout) to the real event handler while 1-4 callers
//! (some cancelled) wait in the real `Network::get_record_from_network`.

use crate::common::*;
use crate::gen;
use crate::sim::{Policy, Sim};
use ant_networking::{GetRecordCfg, GetRecordError, NetworkError};
use ant_protocol::storage::{try_deserialize_record, RecordKind, Scratchpad, Transaction};
use ant_registers::{Permissions, RegisterOp, SignedRegister};
use libp2p::kad::{self, Quorum, Record, RecordKey};
use libp2p::PeerId;
use rand::{seq::SliceRandom, Rng};
use serde_json::json;
use std::collections::{BTreeMap, BTreeSet};
use std::num::NonZeroUsize;
use xor_name::XorName;

pub struct C05;

#[derive(Clone, Copy, Debug, PartialEq, Eq)]
pub(crate) enum Kind {
    Chunk,
    Pad,
    Txs,
    Reg,
}

#[derive(Clone, Debug)]
enum Ev {
    Found { peer: Option<usize>, version: usize },
    Finished,
    NotFound,
    QuorumFailed,
    Timeout,
    /// a new caller attaches (index into callers)
    Call(usize),
    /// a waiting caller goes away
    Cancel(usize),
}

pub(crate) fn quorum_value(q: &Quorum) -> usize {
    match q {
        Quorum::One => 1,
        Quorum::Majority => 3,
        Quorum::All => 5,
        Quorum::N(n) => n.get(),
    }
}

pub(crate) struct Versions {
    pub kind: Kind,
    pub key: RecordKey,
    pub bytes: Vec<Vec<u8>>,
    /// scratchpads: (counter, valid)
    pub pads: Vec<(u64, bool)>,
    pub regs: Vec<Option<SignedRegister>>, // None = does not verify
}

pub(crate) fn make_versions(cx: &mut Cx, kind: Kind, n: usize) -> Versions {
    let owner = gen::bls_sk(&mut cx.rng);
    match kind {
        Kind::Chunk => {
            // differing content under one requested key (what faulty / malicious holders may return)
            let key = RecordKey::from(gen::bytes(&mut cx.rng, 32));
            let bytes = (0..n).map(|_| gen::chunk_record(&gen::chunk(&mut cx.rng, 40)).value).collect();
            Versions { kind, key, bytes, pads: vec![], regs: vec![] }
        }
        Kind::Pad => {
            let mut pads: Vec<(u64, bool)> = vec![];
            let mut bytes = vec![];
            let mut key = None;
            for i in 0..n {
                let counter = if i > 0 && cx.rng.gen_bool(0.25) { pads[0].0 } else { cx.rng.gen_range(1..50u64) };
                let valid = cx.rng.gen_bool(0.75);
                let data = gen::bytes_r(&mut cx.rng, 1, 60);
                let p = if valid {
                    gen::pad(&owner, counter, &data, 0)
                } else {
                    let mut raw = gen::RawPad::from_pad(&gen::pad(&owner, counter, &data, 0));
                    if cx.rng.gen_bool(0.5) {
                        raw.signature = None;
                    } else {
                        raw.sign(&gen::bls_sk(&mut cx.rng));
                    }
                    raw.to_pad()
                };
                key = Some(gen::pad_key(&p));
                bytes.push(gen::pad_record(&p).value);
                pads.push((counter, valid));
            }
            Versions { kind, key: key.expect("n>=1"), bytes, pads, regs: vec![] }
        }
        Kind::Txs => {
            let key = gen::tx_key(&owner.public_key());
            let mut pool: Vec<Transaction> = (0..4).map(|_| gen::transaction(&mut cx.rng, &owner)).collect();
            // twins: the same owner, parents, content and outputs under another signature - distinct transactions
            // (which of them is authentic is for the reader of the union to decide, the union must keep both)
            for i in 0..2 {
                let mut twin = pool[i].clone();
                twin.signature = gen::bls_sk(&mut cx.rng).sign(b"twin");
                pool.push(twin);
            }
            let mut bytes: Vec<Vec<u8>> = vec![];
            // one holder in four of the multi-version cases returns something that is not a transaction record at all
            let rubbish_at = if n >= 2 && cx.rng.gen_bool(0.25) { Some(cx.rng.gen_range(0..n)) } else { None };
            while bytes.len() < n {
                if Some(bytes.len()) == rubbish_at {
                    cx.count("tx-versions:undecodable-among-them");
                    bytes.push(if cx.rng.gen_bool(0.5) { gen::chunk_record(&gen::chunk(&mut cx.rng, 20)).value } else { gen::bytes_r(&mut cx.rng, 3, 40) });
                    continue;
                }
                let k = cx.rng.gen_range(1..=3);
                let v: Vec<Transaction> = pool.choose_multiple(&mut cx.rng, k).cloned().collect();
                let b = gen::txs_record(key.clone(), &v).value;
                if !bytes.contains(&b) {
                    bytes.push(b);
                }
            }
            Versions { kind, key, bytes, pads: vec![], regs: vec![] }
        }
        Kind::Reg => {
            let base = gen::register(&owner, XorName(cx.rng.gen()), Permissions::default());
            let addr = *base.address();
            let pool: Vec<RegisterOp> = (0..5).map(|i| gen::reg_op(addr, vec![i as u8, cx.rng.gen()], BTreeSet::new(), &owner)).collect();
            let mut bytes: Vec<Vec<u8>> = vec![];
            let mut regs = vec![];
            while bytes.len() < n {
                let mut r = base.clone();
                let k = cx.rng.gen_range(1..=4);
                for op in pool.choose_multiple(&mut cx.rng, k) {
                    let _ = r.add_op(op.clone());
                }
                let verifying = cx.rng.gen_bool(0.8);
                let r = if verifying {
                    r
                } else {
                    // an operation by somebody who may not write, injected through serde
                    let mut ops = r.ops().clone();
                    ops.insert(gen::reg_op(addr, vec![9, 9], BTreeSet::new(), &gen::bls_sk(&mut cx.rng)));
                    SignedRegister::new(base.base_register().clone(), owner.sign(base.base_register().bytes().expect("bytes")), ops)
                };
                let b = gen::reg_record(&r).value;
                if !bytes.contains(&b) {
                    bytes.push(b);
                    regs.push(if verifying { Some(r) } else { None });
                }
            }
            Versions { kind, key: gen::reg_key(&addr), bytes, pads: vec![], regs }
        }
    }
}

/// is `got` the deterministic merge of the versions in `seen` (by the statement)?
pub(crate) fn is_merge(v: &Versions, seen: &BTreeSet<usize>, got: &[u8]) -> bool {
    let rec = |b: &[u8]| gen::record(v.key.clone(), b.to_vec());
    match v.kind {
        Kind::Chunk => false,
        Kind::Txs => {
            // sets of the transactions' encodings, not of the values: the oracle must not lean on the type's own ordering
            let enc = |t: Transaction| rmp_serde::to_vec(&t).unwrap_or_default();
            let want: BTreeSet<Vec<u8>> = seen.iter().flat_map(|i| try_deserialize_record::<Vec<Transaction>>(&rec(&v.bytes[*i])).unwrap_or_default()).map(enc).collect();
            let have: BTreeSet<Vec<u8>> = try_deserialize_record::<Vec<Transaction>>(&rec(got)).unwrap_or_default().into_iter().map(enc).collect();
            !want.is_empty() && want == have
        }
        Kind::Reg => {
            let want: BTreeSet<RegisterOp> = seen.iter().filter_map(|i| v.regs[*i].as_ref()).flat_map(|r| r.ops().iter().cloned()).collect();
            match try_deserialize_record::<SignedRegister>(&rec(got)) {
                Ok(r) => seen.iter().any(|i| v.regs[*i].is_some()) && *r.ops() == want && r.verify().is_ok(),
                Err(_) => false,
            }
        }
        Kind::Pad => {
            let best = seen.iter().filter(|i| v.pads[**i].1).map(|i| v.pads[*i].0).max();
            match (best, try_deserialize_record::<Scratchpad>(&rec(got))) {
                (Some(b), Ok(p)) => p.is_valid() && p.count() == b && seen.iter().any(|i| v.bytes[*i] == got),
                _ => false,
            }
        }
    }
}

impl Check for C05 {
    fn id(&self) -> &'static str {
        "C05"
    }
    fn rule(&self) -> String {
        "each case: a real client SwarmDriver, one key of kind chunk / scratchpad / transactions / register with 1-3 content versions (valid, forged, equal counters, non-verifying registers), a quorum in {One, Majority, All, N(1..7)}, an optional expected target (matching, different, register mode), 1-4 callers in Network::get_record_from_network arriving before / between / after replies, some cancelled, \
         and a random sequence of fabricated kad events for the real QueryId: found-record replies from 0-8 distinct peers incl. duplicates from the same peer (same and different content) and from 'self', ending in finished / not-found / quorum-failed / timeout (or never). \
         Judged per caller: a value is returned only if at least Q distinct peers had returned byte-identical content (and it matches the target), or it is the deterministic merge of ALL versions seen (transaction union, union of verifying register replicas, highest validly signed scratchpad); once two versions had been seen a single non-merge version is never returned; SplitRecord errors carry every version seen; \
         every live caller gets exactly one outcome and callers of one query get the same class; a reached quorum is never reported as a dropped internal channel to a live caller. Non-trivial: a sequence with >= 2 versions or a duplicate responder or >= 2 callers; distinct = hash of the event sequence, quorum, target mode and kind."
            .into()
    }
    fn assumptions(&self) -> Vec<String> {
        vec![
            "kad progress events are fabricated for the real QueryId returned by kademlia.get_record; the swarm itself is never polled".into(),
            "retry strategy None, so each caller observes the outcome of exactly one query".into(),
            "the quorum is judged on the replies delivered before the outcome was produced".into(),
        ]
    }
    fn cases(&self, tier: Tier) -> u64 {
        tier.pick(4_000, 80_000)
    }
    fn min_nontrivial(&self, tier: Tier) -> u64 {
        tier.pick(2_000, 30_000)
    }
    fn shard_budget(&self, tier: Tier) -> std::time::Duration {
        tier.pick(std::time::Duration::from_secs(150), std::time::Duration::from_secs(1500))
    }
    fn required_counters(&self, _tier: Tier) -> Vec<&'static str> {
        vec!["outcome:value", "outcome:split", "outcome:merged", "terminal:Timeout", "terminal:Finished", "callers:cancelled", "duplicate-responder-sequences", "retry:reads-below-quorum", "retry:reads-reaching-quorum", "retry:reads-expecting-a-version-no-holder-has"]
    }
    fn lane_cases(&self, tier: Tier) -> u64 {
        tier.pick(8, 64)
    }
    fn run_case(&self, cx: &mut Cx) {
        if cx.index >= LANE_BASE {
            return crate::realcases::c05_case(cx);
        }
        // every 10th case: a read with a retry strategy, the same few holders answering every attempt
        if cx.index % 10 == 9 {
            return retry_case(cx);
        }
        if cx.index % 10 == 4 {
            return two_targets_case(cx);
        }
        let mut sim = Sim::new(cx.rng.gen(), false);
        sim.policy = Policy::Fifo;
        let ckp = gen::ed_keypair(&mut cx.rng);
        sim.add_client(ckp);
        let kind = *[Kind::Chunk, Kind::Pad, Kind::Txs, Kind::Reg].choose(&mut cx.rng).expect("nonempty");
        let nver = *[1usize, 1, 2, 2, 3].choose(&mut cx.rng).expect("nonempty");
        let v = make_versions(cx, kind, nver);
        let quorum = match cx.rng.gen_range(0..6) {
            0 => Quorum::One,
            1 | 2 => Quorum::Majority,
            3 => Quorum::All,
            _ => Quorum::N(NonZeroUsize::new(cx.rng.gen_range(1..=7)).expect("nz")),
        };
        let q = quorum_value(&quorum);
        let target_mode = cx.rng.gen_range(0..5); // 0,1: none; 2: matching v0; 3: different; 4: register mode (if reg)
        let target_record = match target_mode {
            2 => Some(gen::record(v.key.clone(), v.bytes[0].clone())),
            3 => Some(gen::record(v.key.clone(), gen::chunk_record(&gen::chunk(&mut cx.rng, 33)).value)),
            4 if kind == Kind::Reg => Some(gen::record(v.key.clone(), v.bytes[0].clone())),
            _ => None,
        };
        let cfg = GetRecordCfg { get_quorum: quorum, retry_strategy: None, target_record: target_record.clone(), expected_holders: Default::default(), is_register: target_mode == 4 && kind == Kind::Reg };
        let peers: Vec<PeerId> = (0..8).map(|_| PeerId::from(gen::ed_keypair(&mut cx.rng).public())).collect();
        let ncallers = cx.rng.gen_range(1..=4);
        // ---- event script
        let mut script: Vec<Ev> = vec![Ev::Call(0)];
        let nreplies = cx.rng.gen_range(0..=10);
        let mut late_callers: Vec<usize> = (1..ncallers).collect();
        let mut dup = false;
        let mut used: Vec<(Option<usize>, usize)> = vec![];
        for _ in 0..nreplies {
            if !late_callers.is_empty() && cx.rng.gen_bool(0.35) {
                script.push(Ev::Call(late_callers.remove(0)));
            }
            if cx.rng.gen_bool(0.08) {
                script.push(Ev::Cancel(cx.rng.gen_range(0..ncallers)));
            }
            let peer = if cx.rng.gen_bool(0.07) { None } else { Some(cx.rng.gen_range(0..peers.len().min(2 + q))) };
            let version = cx.rng.gen_range(0..nver);
            if used.iter().any(|(p, _)| *p == peer) {
                dup = true;
            }
            used.push((peer, version));
            script.push(Ev::Found { peer, version });
        }
        for c in late_callers.drain(..) {
            script.push(Ev::Call(c));
        }
        let terminal = match cx.rng.gen_range(0..8) {
            0..=2 => Some(Ev::Finished),
            3 => Some(Ev::NotFound),
            4 => Some(Ev::QuorumFailed),
            5 | 6 => Some(Ev::Timeout),
            _ => None,
        };
        if let Some(t) = &terminal {
            script.push(t.clone());
        }
        if dup {
            cx.count("duplicate-responder-sequences");
        }

        // ---- run
        let network = sim.nodes[0].network.clone();
        let mut handles: BTreeMap<usize, tokio::task::JoinHandle<Result<Record, NetworkError>>> = BTreeMap::new();
        let mut cancelled: BTreeSet<usize> = BTreeSet::new();
        // per caller: the set of (peer, version) replies delivered to "its" query before its outcome, and versions seen
        let mut query_of_caller: BTreeMap<usize, usize> = BTreeMap::new(); // caller -> query generation
        let mut generation = 0usize;
        let mut gen_of_qid: BTreeMap<String, usize> = BTreeMap::new();
        let mut replies_of_gen: BTreeMap<usize, Vec<(PeerId, usize)>> = BTreeMap::new();
        let mut terminal_of_gen: BTreeMap<usize, String> = BTreeMap::new();
        let self_id = sim.nodes[0].peer;
        let mut count = 0usize;
        let pump = |sim: &mut Sim| {
            for _ in 0..12 {
                if !sim.step() {
                    sim.yield_rounds(3);
                }
            }
        };
        for ev in &script {
            match ev {
                Ev::Call(c) => {
                    let (n2, key, cfg2) = (network.clone(), v.key.clone(), cfg.clone());
                    handles.insert(*c, sim.spawn(async move { n2.get_record_from_network(key, &cfg2).await }));
                    pump(&mut sim);
                    // which query did it attach to? identified by the real QueryId
                    let pending = sim.nodes[0].drv.verif_pending_get_record();
                    match pending.iter().find(|(_, k, _, _)| *k == v.key) {
                        Some((qid, _, _, _)) => {
                            let name = format!("{qid:?}");
                            generation = match gen_of_qid.get(&name) {
                                Some(g) => *g,
                                None => {
                                    let g = gen_of_qid.len();
                                    gen_of_qid.insert(name, g);
                                    replies_of_gen.insert(g, vec![]);
                                    g
                                }
                            };
                        }
                        None => {
                            cx.inconclusive("GetNetworkRecord was not registered as a pending query");
                            return;
                        }
                    }
                    query_of_caller.insert(*c, generation);
                }
                Ev::Cancel(c) => {
                    if let Some(h) = handles.get(c) {
                        if !h.is_finished() && !cancelled.contains(c) {
                            h.abort();
                            cancelled.insert(*c);
                            cx.count("callers:cancelled");
                            pump(&mut sim);
                        }
                    }
                }
                other => {
                    let pending = sim.nodes[0].drv.verif_pending_get_record();
                    let Some((qid, _, _, _)) = pending.iter().find(|(_, k, _, _)| *k == v.key).cloned() else {
                        cx.count("events-after-query-ended");
                        continue;
                    };
                    generation = gen_of_qid.get(&format!("{qid:?}")).copied().unwrap_or(generation);
                    count += 1;
                    let step = kad::ProgressStep { count: NonZeroUsize::new(count).expect("nz"), last: !matches!(other, Ev::Found { .. }) };
                    let result = match other {
                        Ev::Found { peer, version } => {
                            let p = peer.map(|i| peers[i]);
                            replies_of_gen.entry(generation).or_default().push((p.unwrap_or(self_id), *version));
                            kad::QueryResult::GetRecord(Ok(kad::GetRecordOk::FoundRecord(kad::PeerRecord { peer: p, record: gen::record(v.key.clone(), v.bytes[*version].clone()) })))
                        }
                        Ev::Finished => kad::QueryResult::GetRecord(Ok(kad::GetRecordOk::FinishedWithNoAdditionalRecord { cache_candidates: Default::default() })),
                        Ev::NotFound => kad::QueryResult::GetRecord(Err(kad::GetRecordError::NotFound { key: v.key.clone(), closest_peers: vec![] })),
                        Ev::QuorumFailed => kad::QueryResult::GetRecord(Err(kad::GetRecordError::QuorumFailed { key: v.key.clone(), records: vec![], quorum: NonZeroUsize::new(q).expect("nz") })),
                        Ev::Timeout => kad::QueryResult::GetRecord(Err(kad::GetRecordError::Timeout { key: v.key.clone() })),
                        _ => unreachable!(),
                    };
                    if !matches!(other, Ev::Found { .. }) {
                        terminal_of_gen.insert(generation, format!("{other:?}"));
                        cx.count(&format!("terminal:{other:?}"));
                    }
                    let kev = kad::Event::OutboundQueryProgressed { id: qid, result, stats: kad::QueryStats::empty(), step };
                    {
                        let _g = sim.rt.enter();
                        let _ = sim.nodes[0].drv.verif_handle_kad_event(kev);
                    }
                    pump(&mut sim);
                    // did the query end with this event?
                    let still = sim.nodes[0].drv.verif_pending_get_record().iter().any(|(id, _, _, _)| *id == qid);
                    if !still && !terminal_of_gen.contains_key(&generation) {
                        terminal_of_gen.insert(generation, "quorum-reached".into());
                    }
                    // a terminal event ends the kad query: nothing may stay registered for it (a later read of the key
                    // would attach to the dead query and never get an outcome)
                    if still && !matches!(other, Ev::Found { .. }) {
                        cx.violation("query-still-pending-after-its-terminal-event", format!("the pending entry of the query survived its terminal event {other:?}; later reads of the key attach to it and wait for ever"), json!({"event": format!("{other:?}"), "kind": format!("{kind:?}"), "quorum": q, "versions": nver}));
                    }
                }
            }
        }
        pump(&mut sim);
        // ---- judge
        cx.eval();
        let script_s: Vec<String> = script.iter().map(|e| format!("{e:?}")).collect();
        let w = json!({"kind": format!("{kind:?}"), "quorum": q, "versions": nver, "target_mode": target_mode, "script": script_s, "pads": format!("{:?}", v.pads)});
        let nontrivial = nver >= 2 || dup || ncallers >= 2;
        if nontrivial {
            cx.nontrivial(&(format!("{kind:?}"), q, target_mode, &script_s));
        }
        let mut class_of_gen: BTreeMap<usize, BTreeSet<String>> = BTreeMap::new();
        for (c, h) in handles {
            if cancelled.contains(&c) {
                continue;
            }
            let gen_id = query_of_caller.get(&c).copied().unwrap_or(0);
            let ended = terminal_of_gen.get(&gen_id).cloned();
            let replies = replies_of_gen.get(&gen_id).cloned().unwrap_or_default();
            let seen: BTreeSet<usize> = replies.iter().map(|(_, ver)| *ver).collect();
            let agree = |ver: usize| replies.iter().filter(|(_, x)| *x == ver).map(|(p, _)| *p).collect::<BTreeSet<_>>().len();
            if !h.is_finished() {
                if ended.is_some() {
                    cx.violation("caller-without-outcome", format!("caller {c} is still waiting although its query ended ({ended:?})"), w.clone());
                }
                h.abort();
                continue;
            }
            let out = sim.rt.block_on(h);
            let Ok(out) = out else { continue };
            cx.eval();
            if ended.is_none() {
                cx.violation("outcome-before-query-ended", format!("caller {c} got {:?} although no quorum was reached and no terminal event arrived", out.as_ref().map(|r| r.value.len())), w.clone());
                continue;
            }
            let class = match &out {
                Ok(r) => {
                    let which = v.bytes.iter().position(|b| *b == r.value);
                    let single_ok = which.map(|i| agree(i) >= q).unwrap_or(false);
                    let merged = seen.len() >= 2 && is_merge(&v, &seen, &r.value);
                    if merged {
                        cx.count("outcome:merged");
                    } else {
                        cx.count("outcome:value");
                    }
                    if !single_ok && !merged {
                        cx.violation(
                            "value-without-quorum",
                            format!("caller {c} received a value although only {} distinct peer(s) returned that content (quorum {q}) and it is not the merge of the versions seen", which.map(agree).unwrap_or(0)),
                            w.clone(),
                        );
                    }
                    if seen.len() >= 2 && !merged {
                        // a single version although differing content had been seen: allowed only if the other versions arrived after the quorum fired
                        let i = which.unwrap_or(0);
                        let mut peers_for_i = BTreeSet::new();
                        let mut seen_before_fire = BTreeSet::new();
                        for (p, ver) in &replies {
                            seen_before_fire.insert(*ver);
                            if *ver == i {
                                peers_for_i.insert(*p);
                                if peers_for_i.len() >= q {
                                    break;
                                }
                            }
                        }
                        if seen_before_fire.len() >= 2 && ended.as_deref() == Some("quorum-reached") {
                            cx.violation("arbitrary-version-returned-on-split", format!("caller {c} received one plain version although {} different versions had been returned before the quorum fired", seen_before_fire.len()), w.clone());
                        }
                    }
                    if let Some(t) = &target_record {
                        let matches_target = if cfg.is_register {
                            match (try_deserialize_record::<SignedRegister>(t), try_deserialize_record::<SignedRegister>(r)) {
                                (Ok(a), Ok(b)) => a.base_register() == b.base_register() && a.ops() == b.ops(),
                                _ => false,
                            }
                        } else {
                            t.value == r.value
                        };
                        if !matches_target && !merged {
                            cx.violation("value-differs-from-expected-target", format!("caller {c} received a value that is not the expected target"), w.clone());
                        }
                    }
                    "value".to_string()
                }
                Err(NetworkError::GetRecordError(GetRecordError::SplitRecord { result_map })) => {
                    cx.count("outcome:split");
                    let got: BTreeSet<Vec<u8>> = result_map.values().map(|(r, _)| r.value.clone()).collect();
                    let want: BTreeSet<Vec<u8>> = seen.iter().map(|i| v.bytes[*i].clone()).collect();
                    if got != want {
                        cx.violation("split-outcome-incomplete", format!("SplitRecord carries {} version(s), {} had been returned", got.len(), want.len()), w.clone());
                    }
                    "split".to_string()
                }
                Err(NetworkError::InternalMsgChannelDropped) => {
                    cx.violation(
                        "live-caller-got-dropped-channel",
                        format!("caller {c} (alive) got InternalMsgChannelDropped instead of the outcome of its query (which ended with {ended:?}; other callers cancelled: {})", !cancelled.is_empty()),
                        w.clone(),
                    );
                    "dropped".to_string()
                }
                Err(e) => {
                    cx.count("outcome:error");
                    let s = format!("{e:?}");
                    s.split(['(', '{', ' ']).next().unwrap_or("error").to_string()
                }
            };
            class_of_gen.entry(gen_id).or_default().insert(class);
        }
        for (g, classes) in class_of_gen {
            if classes.len() > 1 {
                cx.violation("callers-of-one-query-got-different-outcomes", format!("callers attached to query #{g} received different outcome classes: {classes:?}"), w.clone());
            }
        }
        let leftover = sim.nodes[0].drv.verif_pending_get_record();
        if leftover.iter().any(|(id, k, n, _)| *k == v.key && *n > 0 && gen_of_qid.get(&format!("{id:?}")).map(|g| terminal_of_gen.contains_key(g)).unwrap_or(false)) {
            cx.violation("senders-left-pending-after-terminal", format!("{} waiting sender(s) remain registered after the terminal event", leftover.iter().map(|(_, _, n, _)| n).sum::<usize>()), w.clone());
        }
        if cx.index < 3 {
            cx.sample(w);
        }
    }
}

/// A read that retries: every attempt is its own kad query; a quorum is Q distinct peers agreeing WITHIN one
/// attempt - the same holders answering again in the next attempt add nothing.
/// Two (or three) concurrent readers of ONE key that expect DIFFERENT records (a put verifying the version it just wrote
/// racing a put - or read - that expects another one), same quorum: each outcome is judged against its own expectation.
fn two_targets_case(cx: &mut Cx) {
    use crate::clientsim::{ClientSim, Order, Reply};
    let mut cs = ClientSim::new(&mut cx.rng);
    let kind = *[Kind::Pad, Kind::Txs, Kind::Chunk].choose(&mut cx.rng).expect("nonempty");
    let v = make_versions(cx, kind, 2);
    if v.bytes.len() < 2 || v.bytes[0] == v.bytes[1] {
        return;
    }
    let quorum = match cx.rng.gen_range(0..3) {
        0 => Quorum::One,
        1 => Quorum::Majority,
        _ => Quorum::N(NonZeroUsize::new(cx.rng.gen_range(1..=4)).expect("nz")),
    };
    let q = quorum_value(&quorum);
    // which version the holders have, and what each reader expects (reader 0 always expects what the holders have or the
    // other one at random; at least two readers differ)
    let held = cx.rng.gen_range(0..2usize);
    let nreaders = cx.rng.gen_range(2..=3usize);
    let mut expects: Vec<usize> = (0..nreaders).map(|_| cx.rng.gen_range(0..2usize)).collect();
    expects[1] = 1 - expects[0];
    let mut handles = vec![];
    for e in &expects {
        let cfg = GetRecordCfg { get_quorum: quorum, retry_strategy: None, target_record: Some(gen::record(v.key.clone(), v.bytes[*e].clone())), expected_holders: Default::default(), is_register: false };
        let (network, key) = (cs.sim.nodes[cs.ci].network.clone(), v.key.clone());
        handles.push(cs.sim.spawn(async move { network.get_record_from_network(key, &cfg).await }));
    }
    let value = v.bytes[held].clone();
    let mut drive_rng = cx.rng.clone();
    let finished = {
        let mut done = || handles.iter().all(|h| h.is_finished());
        let mut answer = |_k: &RecordKey, _nth: usize| -> Vec<Reply> {
            let mut r: Vec<Reply> = (0..q + 1).map(|p| Reply::Found(p, value.clone())).collect();
            r.push(Reply::Finished);
            r
        };
        cs.drive(&mut drive_rng, &Order::Fifo, &mut done, &mut answer)
    };
    if !finished {
        for h in &handles {
            h.abort();
        }
        cx.inconclusive("readers with different expectations did not finish");
        return;
    }
    cx.count("readers-with-different-expected-records");
    cx.nontrivial(&("two-targets", format!("{kind:?}"), q, held, &expects));
    let w = json!({"kind": format!("{kind:?}"), "quorum": q, "holders_have_version": held, "readers_expect": expects});
    for (i, h) in handles.into_iter().enumerate() {
        cx.eval();
        match cs.sim.rt.block_on(h) {
            Ok(Ok(r)) => {
                if r.value != v.bytes[expects[i]] {
                    cx.violation("value-differs-from-expected-target:reader-with-its-own-expectation", format!("reader {i} expects version {} of the key; another reader of the same key expects version {}; all holders have version {held}; reader {i} was handed a success with a value that is not what it expects", expects[i], 1 - expects[i]), w.clone());
                }
            }
            Ok(Err(_)) => {
                if expects[i] == held && kind != Kind::Txs {
                    cx.violation("expected-record-held-by-a-quorum-but-read-failed:reader-with-its-own-expectation", format!("reader {i} expects version {held}, which {} holders returned (quorum {q}), yet its read failed while another reader expected the other version", q + 1), w.clone());
                }
            }
            Err(e) => cx.violation("caller-task-died", format!("{e}"), w.clone()),
        }
    }
}

fn retry_case(cx: &mut Cx) {
    use crate::clientsim::{ClientSim, Order, Reply};
    use ant_protocol::storage::RetryStrategy;
    let mut cs = ClientSim::new(&mut cx.rng);
    let kind = if cx.rng.gen_bool(0.5) { Kind::Chunk } else { Kind::Pad };
    // two cases in five: the caller expects a version the holders do not have (a put verifying itself against stale
    // holders); every attempt must then be judged against that expectation, not only the first
    let targeted = cx.rng.gen_bool(0.4);
    let v = make_versions(cx, kind, if targeted { 2 } else { 1 });
    let quorum = match cx.rng.gen_range(0..3) {
        0 => Quorum::Majority,
        1 => Quorum::All,
        _ => Quorum::N(NonZeroUsize::new(cx.rng.gen_range(2..=4)).expect("nz")),
    };
    let q = quorum_value(&quorum);
    let attempts = cx.rng.gen_range(2..=4usize);
    let strategy = if cx.rng.gen_bool(0.3) { RetryStrategy::Quick } else { RetryStrategy::N(NonZeroUsize::new(attempts).expect("nz")) };
    // holders answering in attempt i (the same peers 0..h every time)
    let below = !targeted && cx.rng.gen_bool(0.7);
    let holders_per_attempt: Vec<usize> = (0..6).map(|i| if below { cx.rng.gen_range(1..q) } else if i == 0 && cx.rng.gen_bool(0.5) { cx.rng.gen_range(1..q) } else { cx.rng.gen_range(q..=q + 2) }).collect();
    let target_record = if targeted { Some(gen::record(v.key.clone(), v.bytes[1].clone())) } else { None };
    let cfg = GetRecordCfg { get_quorum: quorum, retry_strategy: Some(strategy), target_record, expected_holders: Default::default(), is_register: false };
    let (network, key) = (cs.sim.nodes[cs.ci].network.clone(), v.key.clone());
    let h = cs.sim.spawn(async move { network.get_record_from_network(key, &cfg).await });
    let value = v.bytes[0].clone();
    let mut drive_rng = cx.rng.clone();
    let mut asked = 0usize;
    let finished = {
        let mut done = || h.is_finished();
        let mut answer = |_k: &RecordKey, _nth: usize| -> Vec<Reply> {
            let n = holders_per_attempt[asked.min(holders_per_attempt.len() - 1)];
            asked += 1;
            let mut r: Vec<Reply> = (0..n).map(|p| Reply::Found(p, value.clone())).collect();
            r.push(Reply::Finished);
            r
        };
        cs.drive(&mut drive_rng, &Order::Fifo, &mut done, &mut answer)
    };
    if !finished {
        h.abort();
        cx.inconclusive("retrying read did not finish");
        return;
    }
    cx.eval();
    let reached = holders_per_attempt.iter().take(asked.max(1)).any(|n| *n >= q);
    cx.count(if reached { "retry:reads-reaching-quorum" } else { "retry:reads-below-quorum" });
    cx.nontrivial(&("retry", q, format!("{strategy:?}"), &holders_per_attempt[..asked.min(6)]));
    let w = json!({"quorum": q, "strategy": format!("{strategy:?}"), "holders_answering_per_attempt": &holders_per_attempt[..asked.min(6)], "attempts_made": asked});
    if targeted {
        cx.count("retry:reads-expecting-a-version-no-holder-has");
        match cs.sim.rt.block_on(h) {
            Ok(Ok(r)) if r.value != v.bytes[1] => cx.violation("value-differs-from-expected-target:in-a-later-attempt", format!("a retrying read that expects another version returned what the holders have after {asked} attempt(s)"), w),
            Err(e) => cx.violation("caller-task-died", format!("{e}"), w),
            _ => cx.sample(w),
        }
        return;
    }
    match cs.sim.rt.block_on(h) {
        Ok(Ok(_)) if !reached => cx.violation("value-without-quorum:holders-counted-again-across-retries", format!("a read with quorum {q} succeeded although no attempt saw more than {} distinct holders ({asked} attempts)", holders_per_attempt.iter().take(asked.max(1)).max().copied().unwrap_or(0)), w),
        Ok(Err(_)) if reached && holders_per_attempt.iter().take(asked).last().map(|n| *n >= q).unwrap_or(false) => cx.violation("quorum-reached-but-read-failed", format!("the last attempt saw {q} or more agreeing holders, yet the read failed"), w),
        Err(e) => cx.violation("caller-task-died", format!("{e}"), w),
        _ => cx.sample(w),
    }
}
