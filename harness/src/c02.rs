//! C02 — a restarted node never serves corrupted records and keeps completed writes.
//!
//! A C01-style history runs on a real node with its disk tasks parked at the guarded gates; at a
//! random scheduler step the node "crashes" (driver dropped, parked tasks never run). For a write
//! that had not completed, torn files (prefixes of the real ciphertext) are materialised. The node
//! is then really restarted (NetworkBuilder::build_node, same identity) over each variant.

use crate::c01::{key_universe, value_with_id};
use crate::common::*;
use crate::gen;
use crate::sim::{Policy, Sim};
use ant_networking::verif::{GateKind, LocalSwarmCmd};
use ant_protocol::storage::RecordKind;
use libp2p::kad::{Record, RecordKey};
use rand::{seq::SliceRandom, Rng};
use serde_json::json;
use std::collections::BTreeSet;
use std::path::{Path, PathBuf};

pub struct C02;

#[derive(Clone, Debug)]
enum Op {
    Put(Vec<u8>),
    Remove,
}

fn copy_dir(from: &Path, to: &Path) {
    std::fs::create_dir_all(to).expect("mkdir");
    for e in std::fs::read_dir(from).expect("read_dir").flatten() {
        let p = e.path();
        let dst = to.join(e.file_name());
        if p.is_dir() {
            copy_dir(&p, &dst);
        } else {
            let _ = std::fs::copy(&p, &dst);
        }
    }
}

const KINDS: [RecordKind; 4] = [RecordKind::Chunk, RecordKind::Scratchpad, RecordKind::Transaction, RecordKind::Register];

struct Expect {
    must_serve: Option<Vec<u8>>,
    must_be_absent: bool,
    allowed: Vec<Vec<u8>>,
}

fn judge_restart(cx: &mut Cx, sim: &mut Sim, idx: usize, keys: &[RecordKey], expect: &[Expect], variant: &str, witness: &serde_json::Value) {
    let listed = sim.all_addresses(idx);
    for (k, key) in keys.iter().enumerate() {
        cx.eval();
        let got = sim.get_local(idx, key);
        let has = sim.has_key(idx, key);
        let in_list = listed.keys().any(|a| a.to_record_key() == *key);
        let e = &expect[k];
        if let Some(r) = &got {
            if !e.allowed.iter().any(|v| *v == r.value) {
                let is_prefix = e.allowed.iter().any(|v| v.len() > r.value.len() && v[..r.value.len()] == r.value[..]);
                cx.violation(
                    if is_prefix { "restart-serves-truncated-record" } else { "restart-serves-unvalidated-bytes" },
                    format!("[{variant}] after restart get(k{k}) returns {} bytes that were never validated for that key (a truncation of a validated value: {is_prefix})", r.value.len()),
                    witness.clone(),
                );
            }
        }
        if let Some(v) = &e.must_serve {
            if got.as_ref().map(|r| &r.value) != Some(v) {
                cx.violation(
                    "completed-write-lost-after-restart",
                    format!("[{variant}] k{k}: the file write of its last accepted value ({} bytes) had completed before the crash, yet after restart get returns {:?}", v.len(), got.as_ref().map(|r| r.value.len())),
                    witness.clone(),
                );
            }
            if !has || !in_list {
                cx.violation("completed-write-not-indexed-after-restart", format!("[{variant}] k{k}: completed write is not held/listed after restart (contains={has}, listed={in_list})"), witness.clone());
            }
        }
        if e.must_be_absent && (got.is_some() || has || in_list) {
            cx.violation("completed-removal-undone-after-restart", format!("[{variant}] k{k}: its removal had completed before the crash, yet after restart readable={} contains={has} listed={in_list}", got.is_some()), witness.clone());
        }
        if got.is_none() && (has || in_list) && e.must_serve.is_none() {
            // held but unreadable is not served data; tolerated unless the write had completed (judged above)
            cx.count("restart:indexed-but-unreadable");
        }
    }
    // a listed record is listed with the version it serves (chunks as Chunk, every other kind by the hash of the
    // value that get returns): this is what the node advertises to its neighbours after the restart
    for (a, t) in listed.iter() {
        let k = a.to_record_key();
        if let Some(r) = sim.get_local(idx, &k) {
            let is_chunk = ant_protocol::storage::RecordHeader::is_record_of_type_chunk(&r).unwrap_or(false);
            let want = if is_chunk { ant_protocol::storage::RecordType::Chunk } else { ant_protocol::storage::RecordType::NonChunk(xor_name::XorName::from_content(&r.value)) };
            if *t != want {
                cx.violation("restart-lists-record-with-a-version-it-does-not-hold", format!("[{variant}] after restart a record of {} bytes is listed as {t:?}, the content served for it is {want:?}", r.value.len()), witness.clone());
                break;
            }
        }
    }
    for a in listed.keys() {
        if !keys.contains(&a.to_record_key()) {
            cx.violation("restart-lists-unknown-key", format!("[{variant}] store lists {a:?} which was never put"), witness.clone());
        }
    }
    // index consistency after restart (shared with C10)
    if let Some(s) = sim.nodes[idx].drv.verif_store_mut() {
        let snap = s.verif_snapshot();
        let recs: BTreeSet<Vec<u8>> = snap.records.iter().map(|(k, _, _)| k.to_vec()).collect();
        let by_d: BTreeSet<Vec<u8>> = snap.records_by_distance.iter().map(|(_, k)| k.to_vec()).collect();
        if recs != by_d {
            cx.violation("restart-distance-index-mismatch", format!("[{variant}] after restart the distance index ({} keys) differs from the record index ({} keys)", by_d.len(), recs.len()), witness.clone());
        }
    }
}

impl Check for C02 {
    fn id(&self) -> &'static str {
        "C02"
    }
    fn rule(&self) -> String {
        "each case: a history of 10-80 puts / overwrites / removes over 2-8 keys (values 0 B - 16 KiB, all stored kinds, unique ids) on a real node built as shipped (ant-node default features, so encrypt-records on), commands and parked disk tasks scheduled in random cross-key order, then a crash at a random step (driver dropped; parked and unhandled work never runs). \
         The crashed directory is restarted (real build_node, same keypair) as is, and once per torn variant of one write that had not completed: the real ciphertext (produced by the real store in a shadow copy) cut at EVERY byte prefix when <= 1 KiB, else at {0,1,15,16,17,len/2,len-17,len-16,len-1} plus 24 random cuts. \
         After each restart every key is judged: served bytes are None or exactly a value validated for that key; a key whose last accepted operation is a completed write is served exactly and indexed; a key whose last accepted operation is a completed removal is absent; no unknown key is listed; distance index == record index. \
         Non-trivial: a crash that left at least one completed write, one incomplete task and at least 8 torn variants; distinct = (history hash, schedule hash, crash step)."
            .into()
    }
    fn assumptions(&self) -> Vec<String> {
        vec![
            "a crash stops the process between scheduler steps; a file write that is in progress is modelled by fs::write having truncated the file and written an arbitrary prefix of the ciphertext".into(),
            "same-key disk tasks complete in spawn order; the set of completed tasks is therefore a causally closed subset".into(),
            "the harness links ant-node with its default features, i.e. the shipped build configuration (encrypt-records forwarded to ant-networking)".into(),
        ]
    }
    fn cases(&self, tier: Tier) -> u64 {
        tier.pick(480, 8_000)
    }
    fn min_nontrivial(&self, tier: Tier) -> u64 {
        tier.pick(150, 2_500)
    }
    fn shard_budget(&self, tier: Tier) -> std::time::Duration {
        tier.pick(std::time::Duration::from_secs(200), std::time::Duration::from_secs(1500))
    }
    fn required_counters(&self, _tier: Tier) -> Vec<&'static str> {
        vec!["restarts", "torn-variants", "every-prefix-cases", "must-serve-keys", "must-be-absent-keys", "full-store-restarts", "root-used-before-by-another-network-version", "largest-record-restarts"]
    }
    fn lane_cases(&self, tier: Tier) -> u64 {
        tier.pick(8, 64)
    }
    fn run_case(&self, cx: &mut Cx) {
        if cx.index >= LANE_BASE {
            return crate::realcases::c02_case(cx);
        }
        // the store's capacity is a constant of the shipped build (not configurable at construction), so
        // "full at the moment of the restart" is exercised at its real size: cases 0 and 1 of every run
        if cx.index < 2 {
            return full_store_case(cx);
        }
        if cx.index == 2 {
            return largest_record_case(cx);
        }
        let root = scratch_dir("c02");
        let live = root.join("live");
        let mut sim = Sim::new(cx.rng.gen(), false);
        sim.policy = Policy::Random;
        sim.set_gates_controlled(true);
        let kp = gen::ed_keypair(&mut cx.rng);
        // a third of the roots were used before by a build with another (longer / shorter) network version
        // string: the first start wipes and re-labels the directory, every later restart must keep it
        match cx.rng.gen_range(0..6) {
            0 => {
                std::fs::create_dir_all(&live).expect("mkdir");
                std::fs::write(live.join("network_key_version"), b"previous-network-version-string-0123456789").expect("version file");
                cx.count("root-used-before-by-another-network-version");
            }
            1 => {
                std::fs::create_dir_all(&live).expect("mkdir");
                std::fs::write(live.join("network_key_version"), b"9").expect("version file");
                cx.count("root-used-before-by-another-network-version");
            }
            _ => {}
        }
        sim.add_node(kp.clone(), live.clone(), false);
        if cx.rng.gen_bool(0.5) {
            let c = cx.rng.gen_range(1..=3);
            if let Some(s) = sim.nodes[0].drv.verif_store_mut() {
                s.verif_set_limits(16 * 1024, c);
            }
        }
        let nkeys = cx.rng.gen_range(2..=8);
        let keys = key_universe(&mut cx.rng, nkeys);
        let nops = cx.rng.gen_range(10..=80);
        let crash_after = cx.rng.gen_range(3..=nops);
        let mut ops: Vec<Vec<Op>> = vec![vec![]; nkeys];
        let mut hist = vec![];
        let mut next_id = 0u64;
        for opi in 0..crash_after {
            let k = cx.rng.gen_range(0..nkeys);
            if cx.rng.gen_range(0..100) < 78 || ops[k].is_empty() {
                let kind = *KINDS.choose(&mut cx.rng).expect("nonempty");
                let size = match cx.rng.gen_range(0..10) {
                    0 => 0,
                    1..=6 => cx.rng.gen_range(1..600),
                    _ => cx.rng.gen_range(600..16_384),
                };
                next_id += 1;
                let v = value_with_id(&mut cx.rng, kind, next_id, size);
                hist.push(json!({"put": k, "bytes": v.len()}));
                ops[k].push(Op::Put(v.clone()));
                let _g = sim.rt.enter();
                sim.nodes[0].network.put_local_record(Record { key: keys[k].clone(), value: v, publisher: None, expires: None });
                drop(_g);
                sim.collect();
            } else {
                hist.push(json!({"remove": k}));
                ops[k].push(Op::Remove);
                // queued like any other local command so that it keeps its place among the key's commands
                sim.collect();
                sim.nodes[0].local_q.push_back(LocalSwarmCmd::RemoveFailedLocalRecord { key: keys[k].clone() });
            }
            // the last few operations before the crash arrive in a burst, so that work is in flight when it hits
            let burst = opi + 6 >= crash_after;
            for _ in 0..cx.rng.gen_range(0..=if burst { 2 } else { 5 }) {
                if !sim.step() {
                    break;
                }
            }
            if !burst && opi % 9 == 8 && cx.rng.gen_bool(0.3) {
                let mut d = || true;
                sim.settle(&mut d);
            }
        }
        // a few more steps so that some tasks are mid-pipeline, then: crash
        for _ in 0..cx.rng.gen_range(0..=6) {
            if !sim.step() {
                break;
            }
        }
        sim.collect();
        let unhandled_ops: Vec<usize> = keys
            .iter()
            .map(|key| {
                sim.nodes[0]
                    .local_q
                    .iter()
                    .filter(|c| match c {
                        LocalSwarmCmd::PutLocalRecord { record } => record.key == *key,
                        LocalSwarmCmd::RemoveFailedLocalRecord { key: k2 } => k2 == key,
                        _ => false,
                    })
                    .count()
            })
            .collect();
        sim.bury_background_tasks();
        let (all_ids, completed_ids) = {
            let g = sim.gates.lock().expect("gates");
            (g.all_ids.clone(), g.completed_ids.clone())
        };
        let schedule_hash = sim.schedule_hash();
        let crash_step = sim.steps;
        sim.crash_node(0);
        cx.eval();

        // per key: tasks in spawn order and how many completed
        let mut expect: Vec<Expect> = vec![];
        let mut torn_candidates: Vec<(usize, Vec<u8>)> = vec![];
        let (mut n_completed_writes, mut n_incomplete) = (0, 0);
        for k in 0..nkeys {
            let kb = keys[k].to_vec();
            let tasks: Vec<_> = all_ids.iter().filter(|g| g.key == kb && g.kind != GateKind::MetricsFlush).collect();
            // operations whose command the driver had handled before the crash (per-key FIFO: the unhandled ones are the last)
            let handled = ops[k].len().saturating_sub(unhandled_ops[k]);
            // align handled operations with the disk tasks they spawned (spawn order). An operation that
            // spawned no task has nothing left to do: it counts as completed (and is judged like one).
            let mut ti = 0usize;
            let mut op_done: Vec<bool> = vec![];
            for op in ops[k].iter().take(handled) {
                let want = match op {
                    Op::Put(_) => GateKind::DiskWrite,
                    Op::Remove => GateKind::DiskDelete,
                };
                if ti < tasks.len() && tasks[ti].kind == want {
                    op_done.push(completed_ids.contains(tasks[ti]));
                    ti += 1;
                } else {
                    op_done.push(true);
                    cx.count(if want == GateKind::DiskDelete { "handled-remove-without-disk-task" } else { "handled-put-without-disk-task" });
                }
            }
            if ti != tasks.len() {
                cx.inconclusive(format!("task/operation bookkeeping mismatch for k{k} (tasks {}, aligned {ti}, handled ops {handled})", tasks.len()));
                let _ = std::fs::remove_dir_all(&root);
                return;
            }
            let done = op_done.iter().take_while(|d| **d).count();
            let all_values: Vec<Vec<u8>> = ops[k].iter().filter_map(|o| if let Op::Put(v) = o { Some(v.clone()) } else { None }).collect();
            let settled = done == ops[k].len();
            let (must_serve, must_be_absent) = match (settled, ops[k].last()) {
                (true, Some(Op::Put(v))) => (Some(v.clone()), false),
                (true, Some(Op::Remove)) => (None, true),
                _ => (None, false),
            };
            if must_serve.is_some() {
                cx.count("must-serve-keys");
            }
            if must_be_absent {
                cx.count("must-be-absent-keys");
            }
            n_completed_writes += ops[k].iter().take(done).filter(|o| matches!(o, Op::Put(_))).count();
            n_incomplete += ops[k].len() - done;
            if done < handled {
                if let Op::Put(v) = &ops[k][done] {
                    torn_candidates.push((k, v.clone()));
                }
            }
            expect.push(Expect { must_serve, must_be_absent, allowed: all_values });
        }
        let witness = json!({"history": hist, "crash_after_ops": crash_after, "crash_step": crash_step, "tasks_seen": all_ids.len(), "tasks_completed": completed_ids.len()});

        // ---- restart over the crashed directory as it is
        let mut restart = |cx: &mut Cx, sim: &mut Sim, dir: &PathBuf, variant: &str| {
            sim.set_gates_controlled(false);
            let idx = sim.add_node(kp.clone(), dir.clone(), false);
            sim.yield_rounds(8);
            cx.count("restarts");
            judge_restart(cx, sim, idx, &keys, &expect, variant, &witness);
            sim.crash_node(idx);
        };
        restart(cx, &mut sim, &live, "plain-crash");

        // ---- torn variants of one write that had not completed
        let mut n_variants = 0;
        if let Some((tk, tv)) = torn_candidates.choose(&mut cx.rng).cloned() {
            // real ciphertext: let the real store write the value in a shadow copy
            let shadow = root.join("shadow");
            copy_dir(&live, &shadow);
            sim.set_gates_controlled(false);
            let si = sim.add_node(kp.clone(), shadow.clone(), false);
            {
                let _g = sim.rt.enter();
                let _ = sim.nodes[si].drv.verif_handle_local_cmd(LocalSwarmCmd::PutLocalRecord { record: Record { key: keys[tk].clone(), value: tv.clone(), publisher: None, expires: None } });
            }
            let mut d = || true;
            sim.settle(&mut d);
            sim.crash_node(si);
            let fname = hex(keys[tk].as_ref());
            let cipher = std::fs::read(shadow.join("record_store").join(&fname)).unwrap_or_default();
            if cipher.is_empty() && !tv.is_empty() {
                cx.inconclusive("could not obtain the ciphertext of the torn write from the shadow store");
            } else {
                let cuts: Vec<usize> = if cipher.len() <= 1024 {
                    cx.count("every-prefix-cases");
                    (0..cipher.len()).collect()
                } else {
                    let l = cipher.len();
                    let mut c = vec![0, 1, 15, 16, 17, l / 2, l - 17, l - 16, l - 1];
                    for _ in 0..24 {
                        c.push(cx.rng.gen_range(0..l));
                    }
                    c.sort();
                    c.dedup();
                    c
                };
                // in the quick tier sample the every-prefix set when it is large (all of it in thorough)
                let cuts: Vec<usize> = if cx.tier == Tier::Quick && cuts.len() > 40 {
                    let mut c: Vec<usize> = cuts.choose_multiple(&mut cx.rng, 34).cloned().collect();
                    c.extend([0, 1, 15, 16, 17, cipher.len() - 1]);
                    c.sort();
                    c.dedup();
                    c
                } else {
                    cuts
                };
                for cut in cuts {
                    let vdir = root.join(format!("torn-{cut}"));
                    copy_dir(&live, &vdir);
                    std::fs::write(vdir.join("record_store").join(&fname), &cipher[..cut]).expect("write torn file");
                    cx.count("torn-variants");
                    n_variants += 1;
                    restart(cx, &mut sim, &vdir, &format!("torn k{tk} at {cut}/{} ciphertext bytes", cipher.len()));
                    let _ = std::fs::remove_dir_all(&vdir);
                }
            }
            let _ = std::fs::remove_dir_all(&shadow);
        }
        if n_completed_writes > 0 && n_incomplete > 0 && n_variants >= 8 {
            cx.nontrivial(&(h64(&serde_json::to_string(&hist).unwrap_or_default()), schedule_hash, crash_step));
        }
        if cx.index < 2 {
            let head: Vec<_> = hist.iter().take(8).cloned().collect();
            cx.sample(json!({"keys": nkeys, "ops_before_crash": crash_after, "tasks_seen": all_ids.len(), "tasks_completed": completed_ids.len(), "torn_variants": n_variants, "first_ops": head}));
        }
        drop(sim);
        let _ = std::fs::remove_dir_all(&root);
    }
}

/// A store filled to exactly its shipped capacity (case 0) or one below (case 1), every write completed
/// and acknowledged, a few completed removals, then a restart: everything must be served again.
fn full_store_case(cx: &mut Cx) {
    let root = scratch_dir("c02full");
    let live = root.join("live");
    let mut sim = Sim::new(cx.rng.gen(), false);
    sim.policy = Policy::Fifo;
    sim.set_gates_controlled(false);
    let kp = gen::ed_keypair(&mut cx.rng);
    sim.add_node(kp.clone(), live.clone(), false);
    let max = match sim.nodes[0].drv.verif_store_mut() {
        Some(s) => s.verif_snapshot().max_records,
        None => {
            cx.inconclusive("no node store");
            return;
        }
    };
    let removed = 3usize;
    let n = if cx.index == 0 { max } else { max - 1 };
    let mut keys: Vec<RecordKey> = Vec::with_capacity(n + removed);
    let mut values: Vec<Vec<u8>> = Vec::with_capacity(n + removed);
    let drain = |sim: &mut Sim| {
        for _ in 0..1_000_000 {
            if !sim.step() {
                break;
            }
        }
    };
    // a few records that are stored and removed again first, so that the final population is exactly n
    for i in 0..(n + removed) {
        let kind = KINDS[i % KINDS.len()];
        let v = value_with_id(&mut cx.rng, kind, i as u64 + 1, 8 + i % 24);
        let key = RecordKey::from(gen::bytes(&mut cx.rng, 32));
        {
            let _g = sim.rt.enter();
            let _ = sim.nodes[0].drv.verif_handle_local_cmd(LocalSwarmCmd::PutLocalRecord { record: Record { key: key.clone(), value: v.clone(), publisher: None, expires: None } });
        }
        keys.push(key);
        values.push(v);
        if i + 1 == removed {
            drain(&mut sim);
            for k in keys.iter().take(removed) {
                let _g = sim.rt.enter();
                let _ = sim.nodes[0].drv.verif_handle_local_cmd(LocalSwarmCmd::RemoveFailedLocalRecord { key: k.clone() });
            }
            drain(&mut sim);
        }
        // case 0 lets the driver keep up (drain every 256 puts); case 1 is a burst: all writes complete while the
        // driver is busy, so more completion notifications are outstanding than its command channel (10000) holds
        if cx.index == 0 && i % 256 == 255 {
            drain(&mut sim);
        }
    }
    if cx.index != 0 {
        // let every pending write complete before the driver reads a single notification (the runtime runs a few
        // dozen tasks per yield)
        sim.yield_rounds(900);
        cx.count("full-store:burst-without-driver");
    }
    let mut d = || true;
    if !sim.settle(&mut d) {
        cx.inconclusive("filling the store did not settle");
        let _ = std::fs::remove_dir_all(&root);
        return;
    }
    let held_before = sim.all_addresses(0).len();
    let w = json!({"capacity": max, "records_put": n, "removed_before": removed, "held_before_restart": held_before});
    if held_before != n {
        // the store must hold exactly what was put (nothing may have been pruned below capacity)
        cx.violation("full-store:population-differs-before-restart", format!("{n} records were put below / at capacity {max} and 3 removed, the store lists {held_before}"), w.clone());
    }
    sim.bury_background_tasks();
    sim.crash_node(0);
    let idx = sim.add_node(kp.clone(), live.clone(), false);
    sim.yield_rounds(8);
    cx.count("restarts");
    cx.count("full-store-restarts");
    let listed: BTreeSet<Vec<u8>> = sim.all_addresses(idx).keys().map(|a| a.to_record_key().to_vec()).collect();
    let mut lost = 0usize;
    let mut first_lost = None;
    for (i, k) in keys.iter().enumerate().skip(removed) {
        cx.eval();
        if !listed.contains(&k.to_vec()) {
            lost += 1;
            first_lost.get_or_insert(i);
        }
    }
    if lost > 0 {
        cx.violation("completed-write-not-indexed-after-restart:full-store", format!("{lost} of {n} completed, acknowledged writes are not listed after restarting a store of capacity {max} (first: record #{})", first_lost.unwrap_or(0)), w.clone());
    }
    for k in keys.iter().take(removed) {
        if listed.contains(&k.to_vec()) || sim.get_local(idx, k).is_some() {
            cx.violation("completed-removal-undone-after-restart", "a record removed (file deleted) before the restart is back", w.clone());
        }
    }
    if listed.len() > n {
        cx.violation("restart-lists-unknown-key", format!("{} keys listed, {n} put", listed.len()), w.clone());
    }
    // read back a sample (and the last ones put) byte-exactly
    let mut sample: Vec<usize> = (0..300).map(|_| cx.rng.gen_range(removed..keys.len())).collect();
    sample.extend([removed, keys.len() - 1, keys.len() - 2]);
    for i in sample {
        cx.eval();
        let got = sim.get_local(idx, &keys[i]);
        if listed.contains(&keys[i].to_vec()) && got.as_ref().map(|r| &r.value) != Some(&values[i]) {
            cx.violation("completed-write-lost-after-restart", format!("[full store] record #{i} is listed but get returns {:?}", got.map(|r| r.value.len())), w.clone());
        }
    }
    cx.nontrivial(&("full-store", n, max));
    cx.sample(w);
    drop(sim);
    let _ = std::fs::remove_dir_all(&root);
}

/// Records at and just below the largest value the store accepts from the network (the encrypted file is a
/// little longer than the value): completed writes of them must be served again after a restart like any other.
fn largest_record_case(cx: &mut Cx) {
    let root = scratch_dir("c02big");
    let live = root.join("live");
    let mut sim = Sim::new(cx.rng.gen(), false);
    sim.policy = Policy::Fifo;
    sim.set_gates_controlled(false);
    let kp = gen::ed_keypair(&mut cx.rng);
    sim.add_node(kp.clone(), live.clone(), false);
    let max = ant_networking::MAX_PACKET_SIZE;
    let sizes = [max - 1, max - 2, max - 15, max - 16, max - 17, max - 33, max / 2];
    let mut keys = vec![];
    let mut values = vec![];
    for (i, sz) in sizes.iter().enumerate() {
        let kind = KINDS[i % KINDS.len()];
        let mut v = value_with_id(&mut cx.rng, kind, 900 + i as u64, 32);
        v.resize(*sz, 0xa5);
        let key = RecordKey::from(gen::bytes(&mut cx.rng, 32));
        {
            let _g = sim.rt.enter();
            let _ = sim.nodes[0].drv.verif_handle_local_cmd(LocalSwarmCmd::PutLocalRecord { record: Record { key: key.clone(), value: v.clone(), publisher: None, expires: None } });
        }
        keys.push(key);
        values.push(v);
    }
    let mut d = || true;
    if !sim.settle(&mut d) {
        cx.inconclusive("large writes did not settle");
        let _ = std::fs::remove_dir_all(&root);
        return;
    }
    let held: usize = keys.iter().filter(|k| sim.get_local(0, k).is_some()).count();
    sim.bury_background_tasks();
    sim.crash_node(0);
    let idx = sim.add_node(kp.clone(), live.clone(), false);
    sim.yield_rounds(8);
    cx.count("restarts");
    cx.count("largest-record-restarts");
    for (i, k) in keys.iter().enumerate() {
        cx.eval();
        let got = sim.get_local(idx, k);
        if got.as_ref().map(|r| &r.value) != Some(&values[i]) {
            cx.violation("completed-write-lost-after-restart:record-near-the-size-limit", format!("a completed write of {} bytes (value limit {max}) is {} after the restart ({held} of {} were readable before it)", sizes[i], if got.is_some() { "served with other bytes" } else { "not served" }, keys.len()), json!({"size": sizes[i], "limit": max}));
        }
    }
    cx.nontrivial(&("largest-records", max));
    drop(sim);
    let _ = std::fs::remove_dir_all(&root);
}
