//! C16 — token amounts: text round-trip and overflow-safe arithmetic.
//!
//! Oracle: an independent 256-bit reference on big-endian byte arrays and decimal digit strings
//! (no ruint arithmetic): long division for printing, multiply-accumulate with overflow detection
//! for parsing, ripple-carry add/sub.

use crate::common::*;
use ant_evm::{Amount, AttoTokens};
use rand::{seq::SliceRandom, Rng};
use serde_json::json;
use std::str::FromStr;

pub struct C16;

type B32 = [u8; 32];

fn to_amount(b: &B32) -> AttoTokens {
    AttoTokens::from_atto(Amount::from_be_bytes::<32>(*b))
}
fn from_amount(a: AttoTokens) -> B32 {
    a.as_atto().to_be_bytes::<32>()
}

/// decimal digits (no leading zeros, "0" for zero) of a big-endian 256-bit integer
pub fn ref_to_decimal(b: &B32) -> String {
    let mut n = b.to_vec();
    let mut digits = vec![];
    while n.iter().any(|x| *x != 0) {
        let mut rem: u32 = 0;
        for byte in n.iter_mut() {
            let cur = (rem << 8) | (*byte as u32);
            *byte = (cur / 10) as u8;
            rem = cur % 10;
        }
        digits.push(b'0' + rem as u8);
    }
    if digits.is_empty() {
        digits.push(b'0');
    }
    digits.reverse();
    String::from_utf8(digits).expect("ascii")
}

/// parse ASCII decimal digits into 256 bits; None on overflow
pub fn ref_from_decimal(s: &str) -> Option<B32> {
    let mut n = [0u8; 32];
    for c in s.bytes() {
        debug_assert!(c.is_ascii_digit());
        let mut carry: u32 = (c - b'0') as u32;
        for byte in n.iter_mut().rev() {
            let cur = (*byte as u32) * 10 + carry;
            *byte = (cur & 0xff) as u8;
            carry = cur >> 8;
        }
        if carry != 0 {
            return None;
        }
    }
    Some(n)
}

fn ref_add(a: &B32, b: &B32) -> Option<B32> {
    let mut out = [0u8; 32];
    let mut carry = 0u16;
    for i in (0..32).rev() {
        let s = a[i] as u16 + b[i] as u16 + carry;
        out[i] = (s & 0xff) as u8;
        carry = s >> 8;
    }
    if carry != 0 {
        None
    } else {
        Some(out)
    }
}

fn ref_sub(a: &B32, b: &B32) -> Option<B32> {
    if a < b {
        return None; // big-endian arrays compare like the integers
    }
    let mut out = [0u8; 32];
    let mut borrow = 0i16;
    for i in (0..32).rev() {
        let mut d = a[i] as i16 - b[i] as i16 - borrow;
        if d < 0 {
            d += 256;
            borrow = 1;
        } else {
            borrow = 0;
        }
        out[i] = d as u8;
    }
    Some(out)
}

/// the canonical text of an amount: integer part, '.', exactly 18 fractional digits
fn ref_display(b: &B32) -> String {
    let d = ref_to_decimal(b);
    let padded = format!("{d:0>19}");
    let (int, frac) = padded.split_at(padded.len() - 18);
    format!("{int}.{frac}")
}

enum Expect {
    Accept(B32),
    Reject(&'static str),
    DontCare,
}

/// classification written from the property statement
fn classify(s: &str) -> Expect {
    if s.chars().any(|c| !(c.is_ascii_digit() || c == '.')) {
        return Expect::Reject("char-outside-[0-9.]");
    }
    if s.matches('.').count() > 1 {
        return Expect::Reject("second-dot");
    }
    let (int, frac) = match s.split_once('.') {
        Some((i, f)) => (i, f),
        None => (s, ""),
    };
    if int.is_empty() {
        return Expect::DontCare; // "", ".", ".5": not demanded either way
    }
    if frac.len() > 18 {
        if frac[18..].bytes().any(|c| c != b'0') {
            return Expect::Reject("nonzero-beyond-18th-fraction-digit");
        }
        return Expect::DontCare; // surplus zeros
    }
    let all = format!("{int}{frac:0<18}");
    match ref_from_decimal(&all) {
        Some(v) => Expect::Accept(v),
        None => Expect::Reject("value>=2^256"),
    }
}

fn special_values() -> Vec<B32> {
    let mut v = vec![[0u8; 32], [0xff; 32]];
    let one = {
        let mut x = [0u8; 32];
        x[31] = 1;
        x
    };
    v.push(one);
    // 10^k and 10^k +- 1
    let mut p = one;
    for _ in 0..78 {
        if let Some(m) = ref_sub(&p, &one) {
            v.push(m);
        }
        v.push(p);
        if let Some(m) = ref_add(&p, &one) {
            v.push(m);
        }
        let s = format!("{}0", ref_to_decimal(&p));
        match ref_from_decimal(&s) {
            Some(n) => p = n,
            None => break,
        }
    }
    // 2^k +- 1 for interesting k
    for k in [8usize, 16, 32, 63, 64, 96, 127, 128, 192, 255] {
        let mut x = [0u8; 32];
        x[31 - k / 8] = 1 << (k % 8);
        v.push(x);
        if let Some(m) = ref_sub(&x, &one) {
            v.push(m);
        }
        if let Some(m) = ref_add(&x, &one) {
            v.push(m);
        }
    }
    v
}

fn random_value(rng: &mut impl Rng) -> B32 {
    let mut x = [0u8; 32];
    // random magnitude: choose number of significant bytes
    let nbytes = rng.gen_range(0..=32usize);
    for b in x.iter_mut().skip(32 - nbytes) {
        *b = rng.gen();
    }
    if rng.gen_bool(0.2) {
        // make the fractional part (value mod 10^18) small / sparse: multiples of powers of ten
        let d = ref_to_decimal(&x);
        let z = rng.gen_range(0..=18usize).min(d.len().saturating_sub(1));
        let s = format!("{}{}", &d[..d.len() - z], "0".repeat(z));
        if let Some(v) = ref_from_decimal(&s) {
            return v;
        }
    }
    x
}

fn digits(rng: &mut impl Rng, min: usize, max: usize) -> String {
    let n = rng.gen_range(min..=max);
    (0..n).map(|_| (b'0' + rng.gen_range(0..10u8)) as char).collect()
}

fn random_string(rng: &mut impl Rng) -> String {
    let max_dec = "115792089237316195423570985008687907853269984665640564039457584007913129639935"; // 2^256-1
    match rng.gen_range(0..16) {
        0 => digits(rng, 1, 60),
        1 => format!("{}.", digits(rng, 1, 30)),
        2 | 3 => format!("{}.{}", digits(rng, 1, 59), digits(rng, 1, 18)),
        4 => {
            // around the representable limit: integer part of 59-61 digits
            format!("{}.{}", digits(rng, 58, 62), digits(rng, 0, 18))
        }
        5 => {
            // exactly at the limit +- small
            let int = &max_dec[..max_dec.len() - 18];
            let frac = &max_dec[max_dec.len() - 18..];
            match rng.gen_range(0..4) {
                0 => format!("{int}.{frac}"),
                1 => {
                    // limit + 1 atto (last frac digit 5 -> 6)
                    let mut f = frac.as_bytes().to_vec();
                    *f.last_mut().expect("18 digits") += 1;
                    format!("{int}.{}", String::from_utf8(f).expect("ascii"))
                }
                2 => format!("{int}.{}", &frac[..rng.gen_range(0..18)]),
                _ => format!("{}.{}", digits(rng, 60, 60), frac),
            }
        }
        6 => {
            // fraction longer than 18
            let extra = if rng.gen_bool(0.5) { "0".repeat(rng.gen_range(1..5)) } else { digits(rng, 1, 4) };
            format!("{}.{}{}", digits(rng, 1, 10), digits(rng, 18, 18), extra)
        }
        7 => {
            // one foreign character spliced into an otherwise valid string
            let mut s = format!("{}.{}", digits(rng, 1, 10), digits(rng, 1, 18));
            let foreign = ['x', 'X', 'b', 'o', '_', '+', '-', ' ', 'e', 'E', ',', '\t', '\n', '０', '١', 'a', 'f', '\'', '\0'];
            let c = *foreign.choose(rng).expect("nonempty");
            let pos = rng.gen_range(0..=s.len());
            s.insert(pos, c);
            s
        }
        8 => {
            let pre = ["0x", "0b", "0o", "0X", "+", "-", " ", "0x1", "1_", "_"];
            format!("{}{}", pre.choose(rng).expect("nonempty"), digits(rng, 0, 6))
        }
        9 => {
            // prefixes hidden in the fraction
            let pre = ["0x", "0b", "0o", "1_0", "_1", "+1", "1e3"];
            format!("{}.{}", digits(rng, 1, 5), pre.choose(rng).expect("nonempty"))
        }
        10 => {
            let a = digits(rng, 0, 4);
            let b = digits(rng, 0, 4);
            let c = digits(rng, 0, 4);
            format!("{a}.{b}.{c}")
        }
        11 => ["", ".", "..", ".5", "0", "0.", "0.0", "00", "007", "1.", "1.0", "1.000000000000000000", "0.000000000000000001"]
            .choose(rng)
            .expect("nonempty")
            .to_string(),
        12 => {
            // leading zeros
            format!("{}{}", "0".repeat(rng.gen_range(1..=80)), digits(rng, 1, 20))
        }
        13 => {
            // huge integer part
            digits(rng, 78, 300)
        }
        14 => {
            // canonical form of a random value (must accept)
            ref_display(&random_value(rng))
        }
        _ => {
            // random short ascii
            let n = rng.gen_range(0..=8);
            (0..n).map(|_| rng.gen_range(0x20u8..0x7f) as char).collect()
        }
    }
}

/// Amounts are formatted, parsed and added on many threads of a node / client at once: each thread's results must be
/// those of its own values whatever the other threads are doing.
fn concurrent_amounts(cx: &mut Cx) {
    use rand::SeedableRng;
    let threads = cx.rng.gen_range(4..=8);
    let iters = cx.rng.gen_range(2_000..=6_000);
    let seeds: Vec<u64> = (0..threads).map(|_| cx.rng.gen()).collect();
    let handles: Vec<std::thread::JoinHandle<(u64, Vec<(String, String)>)>> = seeds
        .into_iter()
        .map(|seed| {
            std::thread::spawn(move || {
                let mut rng = rand::rngs::StdRng::seed_from_u64(seed);
                let mut faults: Vec<(String, String)> = vec![];
                let mut done = 0u64;
                // each thread keeps returning to a few values of its own, so that a value cached by another thread is hit
                let own: Vec<B32> = (0..3).map(|_| random_value(&mut rng)).collect();
                for i in 0..iters {
                    let v = if i % 2 == 0 { own[rng.gen_range(0..own.len())] } else { random_value(&mut rng) };
                    let expected = ref_display(&v);
                    match catch(|| to_amount(&v).to_string()) {
                        Ok(shown) if shown == expected => {}
                        Ok(shown) => faults.push(("concurrent:display-format".into(), format!("{} atto printed as {shown}, expected {expected}", ref_to_decimal(&v)))),
                        Err(p) => faults.push(("concurrent:display-panic".into(), p)),
                    }
                    match catch(|| AttoTokens::from_str(&expected)) {
                        Ok(Ok(a)) if from_amount(a) == v => {}
                        Ok(other) => faults.push(("concurrent:parse-of-display".into(), format!("{expected} parsed as {other:?}"))),
                        Err(p) => faults.push(("concurrent:parse-panic".into(), p)),
                    }
                    done += 2;
                    if faults.len() > 20 {
                        break;
                    }
                }
                (done, faults)
            })
        })
        .collect();
    for h in handles {
        match h.join() {
            Ok((done, faults)) => {
                cx.count_n("concurrent-format-and-parse", done);
                for (sig, detail) in faults.into_iter().take(3) {
                    cx.violation(sig, detail, json!({"threads": threads, "iterations": iters}));
                }
            }
            Err(_) => cx.violation("concurrent:display-panic", "a formatting thread died".to_string(), json!({"threads": threads})),
        }
    }
    cx.count("cases-with-concurrent-threads");
}

impl Check for C16 {
    fn id(&self) -> &'static str {
        "C16"
    }
    fn rule(&self) -> String {
        "each case = 200 amounts (special: 0, 10^k(+-1), 2^k(+-1), 2^256-1; random magnitudes; sparse fractions) judged for Display form and parse(display)==value, \
         400 generated strings (16 classes: plain, fractional, at/over the 2^256 limit, >18 fraction digits, foreign characters, radix prefixes, underscores, multiple dots, leading zeros, canonical forms, random ASCII) \
         classified MUST-ACCEPT(value)/MUST-REJECT/DONT-CARE from the statement and judged against FromStr, and 100 pairs judged for checked_add/checked_sub against a byte-array reference. \
         One case in 64 first runs 4-8 threads that format and parse different amounts at the same time (each thread judged against the reference for its own values). \
         distinct_nontrivial counts distinct values with a non-zero fraction or >= 2^64, distinct strings outside the plain-digits class that have a definite expectation, and distinct pairs whose sum/difference crosses 2^64 or over/underflows."
            .into()
    }
    fn assumptions(&self) -> Vec<String> {
        vec![
            "ruint's from_be_bytes/to_be_bytes byte conversions are trusted to move values in and out of AttoTokens".into(),
            "strings with an empty integer part (\"\", \".\", \".5\") and fractions longer than 18 digits whose surplus digits are all zero are not judged (the statement does not settle them)".into(),
            "harness is built with overflow-checks and debug-assertions, so wrapping arithmetic in the target panics and is reported".into(),
        ]
    }
    fn hang_cpu_budget(&self, _tier: Tier) -> Option<std::time::Duration> {
        // a case of this check is a few milliseconds of computation; one that has burnt two minutes of CPU time is not coming back
        Some(std::time::Duration::from_secs(120))
    }
    fn cases(&self, tier: Tier) -> u64 {
        tier.pick(20_000, 150_000)
    }
    fn min_nontrivial(&self, tier: Tier) -> u64 {
        tier.pick(500_000, 1_000_000)
    }
    fn miri_lane(&self, tier: Tier) -> Option<(Vec<&'static str>, usize, usize)> {
        if tier == Tier::Thorough { Some((vec!["amount"], 8, 500)) } else { None }
    }
    fn run_case(&self, cx: &mut Cx) {
        if cx.index % 64 == 7 {
            concurrent_amounts(cx);
        }
        let specials = special_values();
        // ---- values
        for i in 0..200 {
            let v = if cx.index == 0 && i < specials.len() {
                specials[i]
            } else if cx.rng.gen_bool(0.1) {
                *specials.choose(&mut cx.rng).expect("nonempty")
            } else {
                random_value(&mut cx.rng)
            };
            let expected = ref_display(&v);
            let a = to_amount(&v);
            cx.eval();
            cx.count("values");
            let shown = match catch(|| a.to_string()) {
                Ok(s) => s,
                Err(p) => {
                    cx.violation("display-panic", format!("Display panicked for {}: {p} {}", ref_to_decimal(&v), crate::last_panic()), json!({"atto": ref_to_decimal(&v)}));
                    continue;
                }
            };
            let nontrivial = !expected.ends_with(".000000000000000000") || v[..24].iter().any(|b| *b != 0);
            if nontrivial {
                cx.nontrivial(&("v", v));
            }
            if shown != expected {
                cx.violation(
                    "display-format",
                    format!("{} atto displayed as {shown:?}, true value is {expected:?}", ref_to_decimal(&v)),
                    json!({"atto": ref_to_decimal(&v), "displayed": shown, "expected": expected}),
                );
            }
            match catch(|| AttoTokens::from_str(&shown)) {
                Ok(Ok(back)) => {
                    if from_amount(back) != v {
                        cx.violation(
                            "display-roundtrip",
                            format!("{} atto -> {shown:?} -> parses as {} atto", ref_to_decimal(&v), ref_to_decimal(&from_amount(back))),
                            json!({"atto": ref_to_decimal(&v), "displayed": shown, "parsed_back": ref_to_decimal(&from_amount(back))}),
                        );
                    }
                }
                Ok(Err(e)) => cx.violation(
                    "display-roundtrip",
                    format!("{} atto -> {shown:?} -> parse error {e:?}", ref_to_decimal(&v)),
                    json!({"atto": ref_to_decimal(&v), "displayed": shown}),
                ),
                Err(p) => cx.violation("parse-panic", format!("from_str({shown:?}) panicked: {p} {}", crate::last_panic()), json!({"input": shown})),
            }
            if i == 0 && cx.index < 3 {
                cx.sample(json!({"kind": "value", "atto": ref_to_decimal(&v), "displayed": shown, "expected": expected}));
            }
        }
        // ---- strings
        for i in 0..400 {
            let s = random_string(&mut cx.rng);
            let exp = classify(&s);
            cx.eval();
            let got = match catch(|| AttoTokens::from_str(&s)) {
                Ok(r) => r,
                Err(p) => {
                    cx.violation("parse-panic", format!("from_str({s:?}) panicked: {p} {}", crate::last_panic()), json!({"input": s}));
                    continue;
                }
            };
            match exp {
                Expect::Accept(v) => {
                    cx.count("strings_must_accept");
                    if s.contains('.') {
                        cx.nontrivial(&("s", &s));
                    }
                    match got {
                        Ok(a) if from_amount(a) == v => {}
                        Ok(a) => cx.violation(
                            "parse-wrong-value",
                            format!("{s:?} parsed as {} atto, denotes {} atto", ref_to_decimal(&from_amount(a)), ref_to_decimal(&v)),
                            json!({"input": s, "parsed": ref_to_decimal(&from_amount(a)), "expected": ref_to_decimal(&v)}),
                        ),
                        Err(e) => cx.violation(
                            "parse-must-accept",
                            format!("{s:?} denotes {} atto but was rejected: {e:?}", ref_to_decimal(&v)),
                            json!({"input": s, "expected": ref_to_decimal(&v)}),
                        ),
                    }
                }
                Expect::Reject(why) => {
                    cx.count(&format!("strings_must_reject:{why}"));
                    cx.nontrivial(&("s", &s));
                    if let Ok(a) = got {
                        cx.violation(
                            format!("parse-must-reject:{why}"),
                            format!("{s:?} ({why}) was accepted as {} atto", ref_to_decimal(&from_amount(a))),
                            json!({"input": s, "class": why, "parsed": ref_to_decimal(&from_amount(a))}),
                        );
                    }
                }
                Expect::DontCare => cx.count("strings_dont_care"),
            }
            if i == 0 && cx.index < 3 {
                cx.sample(json!({"kind": "string", "input": s}));
            }
        }
        // ---- arithmetic
        for _ in 0..100 {
            let a = if cx.rng.gen_bool(0.2) { *specials.choose(&mut cx.rng).expect("nonempty") } else { random_value(&mut cx.rng) };
            let b = match cx.rng.gen_range(0..5) {
                0 => a,
                1 => ref_sub(&[0xff; 32], &a).expect("max - a"), // a + b == max exactly
                2 => {
                    let c = ref_sub(&[0xff; 32], &a).expect("max - a");
                    let one = {
                        let mut x = [0u8; 32];
                        x[31] = 1;
                        x
                    };
                    ref_add(&c, &one).unwrap_or(c) // a + b == 2^256 (overflow by one)
                }
                3 => *specials.choose(&mut cx.rng).expect("nonempty"),
                _ => random_value(&mut cx.rng),
            };
            cx.eval();
            cx.count("pairs");
            let (ea, es) = (ref_add(&a, &b), ref_sub(&a, &b));
            if ea.is_none() || es.is_none() || ea.map(|x| x[..24].iter().any(|b| *b != 0)).unwrap_or(false) {
                cx.nontrivial(&("p", a, b));
            }
            match catch(|| to_amount(&a).checked_add(to_amount(&b))) {
                Ok(r) => {
                    if r.map(from_amount) != ea {
                        cx.violation(
                            "checked-add",
                            format!("{} + {} gave {:?}, expected {:?}", ref_to_decimal(&a), ref_to_decimal(&b), r.map(|x| ref_to_decimal(&from_amount(x))), ea.map(|x| ref_to_decimal(&x))),
                            json!({"a": ref_to_decimal(&a), "b": ref_to_decimal(&b)}),
                        );
                    }
                }
                Err(p) => cx.violation("checked-add-panic", format!("checked_add panicked: {p}"), json!({"a": ref_to_decimal(&a), "b": ref_to_decimal(&b)})),
            }
            match catch(|| to_amount(&a).checked_sub(to_amount(&b))) {
                Ok(r) => {
                    if r.map(from_amount) != es {
                        cx.violation(
                            "checked-sub",
                            format!("{} - {} gave {:?}, expected {:?}", ref_to_decimal(&a), ref_to_decimal(&b), r.map(|x| ref_to_decimal(&from_amount(x))), es.map(|x| ref_to_decimal(&x))),
                            json!({"a": ref_to_decimal(&a), "b": ref_to_decimal(&b)}),
                        );
                    }
                }
                Err(p) => cx.violation("checked-sub-panic", format!("checked_sub panicked: {p}"), json!({"a": ref_to_decimal(&a), "b": ref_to_decimal(&b)})),
            }
        }
    }
}
