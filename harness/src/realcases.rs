//! Cases of C02 / C03 / C05 / C09 that run on the real-network lane (`e2e.rs`): real nodes with their real event
//! loops, the real QUIC transport on loopback and real parallelism. Safety clauses are judged on everything
//! observed; progress clauses only at logical quiescence that persists over three further replication rounds
//! (see `e2e.rs`). A case that cannot be completed (network did not form, watchdog) is counted as abandoned and
//! judges nothing.

use crate::c03::{build_proof, Conds, PayEnv};
use crate::c09::{held, Held, Kind};
use crate::common::*;
use crate::e2e::RealNet;
use crate::gen;
use crate::refmetric::{ref_distance, to_u256};
use ant_networking::{GetRecordCfg, GetRecordError, NetworkError};
use ant_protocol::storage::{try_deserialize_record, try_serialize_record, RecordKind, Scratchpad, Transaction};
use ant_protocol::NetworkAddress;
use ant_registers::{Permissions, RegisterOp, SignedRegister};
use libp2p::identity::Keypair;
use libp2p::kad::{Quorum, Record, RecordKey};
use libp2p::PeerId;
use rand::{seq::SliceRandom, Rng};
use serde_json::json;
use std::collections::{BTreeMap, BTreeSet};
use std::time::{Duration, Instant};
use xor_name::XorName;

const FORM_WATCHDOG: Duration = Duration::from_secs(90);
const SETTLE_WATCHDOG: Duration = Duration::from_secs(60);

fn gap_for(net: &RealNet) -> Duration {
    (net.formed_in * 2).clamp(Duration::from_millis(150), Duration::from_secs(3))
}

fn start(cx: &mut Cx, tag: &str, kinds: &[bool]) -> Option<RealNet> {
    let root = scratch_dir(tag);
    let kps: Vec<Keypair> = (0..kinds.len()).map(|_| gen::ed_keypair(&mut cx.rng)).collect();
    match RealNet::start(kinds, root.clone(), kps, FORM_WATCHDOG) {
        Ok(n) => {
            cx.count("realnet:networks-formed");
            cx.count_n("realnet:nodes-started", kinds.len() as u64);
            Some(n)
        }
        Err(e) => {
            cx.count("realnet:abandoned:formation");
            cx.log(format!("real network not formed: {e}"));
            let _ = std::fs::remove_dir_all(root);
            None
        }
    }
}

/// quiescent (fetchers idle, listing stable, no payment RPC outstanding); `None` = watchdog / harness error
fn settle(cx: &mut Cx, net: &RealNet) -> Option<()> {
    let gap = gap_for(net);
    let t0 = Instant::now();
    loop {
        match net.wait_quiescent(gap, SETTLE_WATCHDOG) {
            Ok(true) => {
                // nothing outstanding at the payment contract, and every put / get the client started has been answered
                let client_busy = match net.client_outstanding_queries() {
                    Ok(q) => q,
                    Err(e) => {
                        cx.count("realnet:abandoned:harness-error");
                        cx.log(e);
                        return None;
                    }
                };
                if net.stub.outstanding.load(std::sync::atomic::Ordering::SeqCst) == 0 && client_busy == 0 {
                    return Some(());
                }
            }
            Ok(false) => {
                cx.count("realnet:abandoned:settle-watchdog");
                return None;
            }
            Err(e) => {
                cx.count("realnet:abandoned:harness-error");
                cx.log(e);
                return None;
            }
        }
        if t0.elapsed() > SETTLE_WATCHDOG {
            cx.count("realnet:abandoned:settle-watchdog");
            return None;
        }
    }
}

#[allow(dead_code)]
struct Mutable {
    kind: Kind,
    key: RecordKey,
    content: XorName,
    owner: bls::SecretKey,
    /// the version uploaded with a payment
    first: Record,
    paid: Box<dyn Fn(&ant_evm::ProofOfPayment) -> Record>,
    /// further versions: (record as stored / replicated, record kind for an unpaid client update)
    later: Vec<Record>,
}

fn make_mutable(rng: &mut impl Rng, kind: Kind) -> Mutable {
    let owner = gen::bls_sk(rng);
    match kind {
        Kind::Chunk => {
            let len = rng.gen_range(1..40_000);
            let c = gen::chunk(rng, len);
            let key = NetworkAddress::from_chunk_address(*c.address()).to_record_key();
            let (k2, c2) = (key.clone(), c.clone());
            Mutable { kind, key, content: *c.name(), owner, first: gen::chunk_record(&c), paid: Box::new(move |p| gen::record(k2.clone(), try_serialize_record(&(p.clone(), c2.clone()), RecordKind::ChunkWithPayment).expect("ser").to_vec())), later: vec![] }
        }
        Kind::Pad => {
            let c0 = rng.gen_range(1..100u64);
            let p0 = gen::pad(&owner, c0, &gen::bytes_r(rng, 1, 200), 0);
            let key = gen::pad_key(&p0);
            let later = (1..=rng.gen_range(1..=3u64)).map(|d| gen::pad_record(&gen::pad(&owner, c0 + d, &gen::bytes_r(rng, 1, 200), 0))).collect();
            let (k2, p2) = (key.clone(), p0.clone());
            Mutable { kind, key, content: p0.address().xorname(), owner, first: gen::pad_record(&p0), paid: Box::new(move |p| gen::record(k2.clone(), try_serialize_record(&(p.clone(), p2.clone()), RecordKind::ScratchpadWithPayment).expect("ser").to_vec())), later }
        }
        Kind::Tx => {
            let t0 = gen::transaction(rng, &owner);
            let key = gen::tx_key(&owner.public_key());
            let later = (0..rng.gen_range(1..=3)).map(|_| gen::txs_record(key.clone(), &vec![t0.clone(), gen::transaction(rng, &owner)])).collect();
            let (k2, t2) = (key.clone(), t0.clone());
            Mutable { kind, key: key.clone(), content: *t0.address().xorname(), owner, first: gen::txs_record(key, &vec![t0]), paid: Box::new(move |p| gen::record(k2.clone(), try_serialize_record(&(p.clone(), t2.clone()), RecordKind::TransactionWithPayment).expect("ser").to_vec())), later }
        }
        Kind::Reg => {
            let mut reg = gen::register(&owner, XorName(rng.gen()), Permissions::default());
            let addr = *reg.address();
            let _ = reg.add_op(gen::reg_op(addr, gen::bytes_r(rng, 1, 40), BTreeSet::new(), &owner));
            let key = gen::reg_key(&addr);
            let later = (0..rng.gen_range(1..=3))
                .map(|_| {
                    let mut r = reg.clone();
                    for _ in 0..rng.gen_range(1..=2) {
                        let _ = r.add_op(gen::reg_op(addr, gen::bytes_r(rng, 1, 40), BTreeSet::new(), &owner));
                    }
                    gen::reg_record(&r)
                })
                .collect();
            let (k2, r2) = (key.clone(), reg.clone());
            Mutable { kind, key, content: addr.xorname(), owner, first: gen::reg_record(&reg), paid: Box::new(move |p| gen::record(k2.clone(), try_serialize_record(&(p.clone(), r2.clone()), RecordKind::RegisterWithPayment).expect("ser").to_vec())), later }
        }
    }
}

/// the merged content of a set of versions, per the statement
fn merged(kind: Kind, versions: &[Held]) -> Held {
    match kind {
        Kind::Chunk => versions.iter().find(|h| matches!(h, Held::Chunk(_))).cloned().unwrap_or(Held::None),
        Kind::Pad => versions.iter().filter(|h| matches!(h, Held::Pad(..))).max_by_key(|h| if let Held::Pad(c, _) = h { *c } else { 0 }).cloned().unwrap_or(Held::None),
        Kind::Tx => Held::Txs(versions.iter().flat_map(|h| if let Held::Txs(s) = h { s.iter().cloned().collect::<Vec<Transaction>>() } else { vec![] }).collect()),
        Kind::Reg => Held::Reg(versions.iter().flat_map(|h| if let Held::Reg(s) = h { s.iter().cloned().collect::<Vec<RegisterOp>>() } else { vec![] }).collect()),
    }
}

fn subset_of(kind: Kind, have: &Held, all: &Held, versions: &[Held]) -> bool {
    match (kind, have, all) {
        (_, Held::None, _) => true,
        (Kind::Chunk, h, a) => h == a,
        (Kind::Pad, h, _) => versions.contains(h),
        (Kind::Tx, Held::Txs(h), Held::Txs(a)) => h.is_subset(a),
        (Kind::Reg, Held::Reg(h), Held::Reg(a)) => h.is_subset(a),
        _ => false,
    }
}

fn short(h: &Held) -> String {
    match h {
        Held::None => "-".into(),
        Held::Chunk(b) => format!("chunk[{}]", b.len()),
        Held::Pad(c, _) => format!("pad#{c}"),
        Held::Txs(s) => format!("txs{}", s.len()),
        Held::Reg(s) => format!("ops{}", s.len()),
        Held::Unreadable => "unreadable".into(),
    }
}

fn node_range(net: &RealNet, i: usize) -> Result<Option<ant_evm::U256>, String> {
    net.with_driver(i, |d| d.verif_fetcher_snapshot().distance_range)
}

fn in_range(net: &RealNet, i: usize, key: &RecordKey, range: &Option<ant_evm::U256>) -> bool {
    match range {
        None => true,
        Some(r) => to_u256(&ref_distance(&net.nodes[i].peer.to_bytes(), key.as_ref())) < *r,
    }
}

/// C09 on the real network: paid uploads replicate as fresh records, silently seeded divergent versions converge
/// through the real periodic replication.
pub fn c09_case(cx: &mut Cx) {
    // Progress clauses of this lane (something did not arrive / did not converge at the fixpoint) run on real threads and
    // real sockets: a shortfall counts only if a SECOND run of the same seeded scenario on a fresh network falls short
    // again. One that does not reproduce cannot be told from an unlucky timing (it is counted, never judged). Safety
    // clauses are not affected: whatever they report in the first run stands.
    let is_progress = |sig: &str| sig.starts_with("realnet:replicas-did-not-converge") || sig.starts_with("realnet:record-not-replicated") || sig.starts_with("realnet:chunk-not-replicated");
    let rng0 = cx.rng.clone();
    let before = cx.report.violations.len();
    c09_once(cx);
    let fresh: Vec<usize> = (before..cx.report.violations.len()).filter(|i| is_progress(&cx.report.violations[*i].signature)).collect();
    if fresh.is_empty() {
        return;
    }
    // set the first run's progress shortfalls aside and run the scenario again
    let mut first_run = vec![];
    for i in fresh.into_iter().rev() {
        first_run.push(cx.report.violations.remove(i));
    }
    cx.count("realnet:progress-shortfall-seen-once(second-run-started)");
    cx.rng = rng0;
    let before2 = cx.report.violations.len();
    c09_once(cx);
    let again = (before2..cx.report.violations.len()).any(|i| is_progress(&cx.report.violations[i].signature));
    if again {
        cx.count("realnet:progress-shortfall-reproduced-in-a-second-run");
    } else {
        cx.count("realnet:progress-shortfall-not-reproduced(not-judged)");
        for v in &first_run {
            cx.log(format!("not reproduced, not judged: {} :: {}", v.signature, v.detail));
        }
    }
}

fn c09_once(cx: &mut Cx) {
    let n = cx.rng.gen_range(6..=9);
    let Some(mut net) = start(cx, "c09r", &vec![true; n]) else { return };
    let res = c09_inner(cx, &mut net, n);
    if res.is_none() {
        cx.count("realnet:cases-abandoned");
    }
    net.shutdown();
}

fn c09_inner(cx: &mut Cx, net: &mut RealNet, n: usize) -> Option<()> {
    let mut kinds = vec![Kind::Chunk, Kind::Chunk, Kind::Pad, Kind::Tx, Kind::Reg];
    for _ in 0..cx.rng.gen_range(0..4) {
        kinds.push(*[Kind::Chunk, Kind::Pad, Kind::Tx, Kind::Reg].choose(&mut cx.rng).expect("nonempty"));
    }
    let items: Vec<Mutable> = kinds.iter().map(|k| make_mutable(&mut cx.rng, *k)).collect();
    let stranger = gen::ed_keypair(&mut cx.rng);
    // ---- paid uploads, all in flight at once
    let mut uploads = vec![];
    for it in &items {
        let order = net.by_closeness(&it.key);
        let target = order[cx.rng.gen_range(0..3)];
        let env = PayEnv { node_kp: net.nodes[target].kp.clone(), close: (0..n).filter(|j| *j != target).map(|j| net.nodes[j].kp.clone()).collect(), stranger: stranger.clone() };
        let proof = build_proof(&mut cx.rng, &env, it.content, 3, Conds::all(), &net.stub);
        uploads.push(((it.paid)(&proof), net.nodes[target].peer, target));
    }
    let client = net.client.clone();
    let ups: Vec<(Record, PeerId)> = uploads.iter().map(|(r, p, _)| (r.clone(), *p)).collect();
    let results: Vec<Result<(), String>> = net.ctl.block_on(async move {
        let mut hs = vec![];
        for (rec, peer) in ups {
            let c = client.clone();
            hs.push(tokio::spawn(async move {
                let cfg = ant_networking::PutRecordCfg { put_quorum: Quorum::One, retry_strategy: None, use_put_record_to: Some(vec![peer]), verification: None };
                match tokio::time::timeout(crate::e2e::OP_TIMEOUT, c.put_record(rec, &cfg)).await {
                    Ok(r) => r.map_err(|e| format!("{e:?}")),
                    Err(_) => Err("WATCHDOG".into()),
                }
            }));
        }
        let mut out = vec![];
        for h in hs {
            out.push(h.await.unwrap_or_else(|e| Err(format!("join: {e}"))));
        }
        out
    });
    if results.iter().any(|r| matches!(r, Err(e) if e == "WATCHDOG")) {
        cx.count("realnet:abandoned:put-watchdog");
        return None;
    }
    settle(cx, net)?;
    // every upload has arrived and been accepted by the node it was sent to (whether a valid upload is accepted is
    // C03's question; here it is the starting point)
    let t_wait = Instant::now();
    loop {
        let mut all = true;
        for (k, it) in items.iter().enumerate() {
            match net.local(uploads[k].2, &it.key) {
                Ok(Some(_)) => {}
                Ok(None) => all = false,
                Err(e) => {
                    cx.count("realnet:abandoned:harness-error");
                    cx.log(e);
                    return None;
                }
            }
        }
        if all {
            break;
        }
        if t_wait.elapsed() > SETTLE_WATCHDOG {
            cx.count("realnet:abandoned:upload-not-visible-at-its-target");
            return None;
        }
        std::thread::sleep(Duration::from_millis(50));
    }
    settle(cx, net)?;
    // ---- fresh replication judged: every copy anywhere equals what was accepted; the payee holds it
    let sample = |net: &RealNet| -> Result<Vec<Vec<Held>>, String> {
        let mut out = vec![];
        for it in &items {
            let mut row = vec![];
            for i in 0..n {
                row.push(held(it.kind, net.local(i, &it.key)?));
            }
            out.push(row);
        }
        Ok(out)
    };
    let st = match sample(net) {
        Ok(s) => s,
        Err(e) => {
            cx.count("realnet:abandoned:harness-error");
            cx.log(e);
            return None;
        }
    };
    let mut fresh_copies = 0u64;
    for (k, it) in items.iter().enumerate() {
        cx.count(&format!("realnet:kind:{:?}", it.kind));
        let want = held(it.kind, Some(it.first.clone()));
        for i in 0..n {
            cx.eval();
            if st[k][i] != Held::None {
                fresh_copies += 1;
                if st[k][i] != want {
                    cx.violation(format!("realnet:replica-differs-from-accepted-record:{:?}", it.kind), format!("node {i} holds {} for a key whose only accepted version is {}", short(&st[k][i]), short(&want)), json!({"nodes": n, "kind": format!("{:?}", it.kind), "node": i}));
                }
            }
        }
    }
    cx.count_n("realnet:copies-after-fresh-replication", fresh_copies);
    // a paid upload the payee did not keep: judged below together with the periodic rounds (persistence rule)
    // ---- divergence seeded silently on single nodes (no validation, no fresh replication)
    let mut versions: Vec<Vec<Held>> = items.iter().map(|it| vec![held(it.kind, Some(it.first.clone()))]).collect();
    let mut seeded_on: Vec<usize> = vec![];
    for (k, it) in items.iter().enumerate() {
        for rec in &it.later {
            let node = cx.rng.gen_range(0..n);
            seeded_on.push(node);
            if let Err(e) = net.seed_local(node, rec.clone()) {
                cx.count("realnet:abandoned:harness-error");
                cx.log(e);
                return None;
            }
            versions[k].push(held(it.kind, Some(rec.clone())));
            cx.count(&format!("realnet:divergent-versions-seeded:{:?}", it.kind));
        }
    }
    // half of the cases: one of the nodes that were given a newer version is torn down and restarted over its
    // directory before the periodic rounds (it must advertise, after the restart, the versions it really holds)
    let mut restarted: Option<usize> = None;
    if !seeded_on.is_empty() && cx.rng.gen_bool(0.5) {
        let victim = *seeded_on.choose(&mut cx.rng).expect("nonempty");
        restarted = Some(victim);
        settle(cx, net)?;
        net.crash(victim);
        if let Err(e) = net.restart(victim, FORM_WATCHDOG) {
            cx.count("realnet:abandoned:restart");
            cx.log(e);
            return None;
        }
        if !net.wait_formed(Instant::now() + FORM_WATCHDOG) {
            cx.count("realnet:abandoned:formation");
            return None;
        }
        cx.count("realnet:holder-of-a-newer-version-restarted-before-the-rounds");
    }
    // what is held anywhere once the seeding is done: a later seed on the same node replaces an earlier one there,
    // so the union of what the nodes actually hold (not of what was handed out) is what can be converged on
    let st0 = match sample(net) {
        Ok(s) => s,
        Err(e) => {
            cx.count("realnet:abandoned:harness-error");
            cx.log(e);
            return None;
        }
    };
    let want: Vec<Held> = items.iter().enumerate().map(|(k, it)| merged(it.kind, &st0[k])).collect();
    // replication targets by the reference metric: a node advertises to (at least) its 5 closest peers
    let targets_of: Vec<Vec<usize>> = (0..n)
        .map(|h| {
            let mut others: Vec<usize> = (0..n).filter(|j| *j != h).collect();
            others.sort_by_key(|j| ref_distance(&net.nodes[h].peer.to_bytes(), &net.nodes[*j].peer.to_bytes()));
            others.truncate(5);
            others
        })
        .collect();
    // ---- periodic rounds
    let mut prev: Option<Vec<Vec<Held>>> = None;
    let mut stalls = 0;
    let max_rounds = 30;
    for round in 1..=max_rounds {
        let mut order: Vec<usize> = (0..n).collect();
        order.shuffle(&mut cx.rng);
        for i in order {
            if let Err(e) = net.trigger_replication(i) {
                cx.count("realnet:abandoned:harness-error");
                cx.log(e);
                return None;
            }
        }
        cx.count("realnet:periodic-rounds-run");
        settle(cx, net)?;
        let st = match sample(net) {
            Ok(s) => s,
            Err(e) => {
                cx.count("realnet:abandoned:harness-error");
                cx.log(e);
                return None;
            }
        };
        let mut ranges = vec![];
        for i in 0..n {
            match node_range(net, i) {
                Ok(r) => ranges.push(r),
                Err(e) => {
                    cx.count("realnet:abandoned:harness-error");
                    cx.log(e);
                    return None;
                }
            }
        }
        if ranges.iter().any(|r| r.is_some()) {
            cx.count("realnet:rounds-with-a-responsible-range-set");
        }
        // what the nodes' own routing tables say right now: a holder advertises to its real replicate candidates, and a
        // node acts on advertisements only from peers among its own closest. Under load (or after a restart) a node may
        // have dropped a peer from its table (connection trouble, time-outs recorded against it): the pair is then outside
        // the clause's premise and is not judged (which peers a table should contain is C11's subject, not C09's)
        let mut real_cands: Vec<BTreeSet<PeerId>> = vec![];
        let mut real_closest: Vec<BTreeSet<PeerId>> = vec![];
        for h in 0..n {
            let me = NetworkAddress::from_peer(net.nodes[h].peer);
            match (net.with_driver(h, move |d| d.verif_get_replicate_candidates(&me)), net.with_driver(h, |d| d.verif_closest_k_value_local_peers())) {
                (Ok(c), Ok(k)) => {
                    real_cands.push(c.into_iter().collect());
                    real_closest.push(k.into_iter().collect());
                }
                (Err(e), _) | (_, Err(e)) => {
                    cx.count("realnet:abandoned:harness-error");
                    cx.log(e);
                    return None;
                }
            }
        }
        // safety: nothing but accepted content anywhere.
        // progress (judged at a fixpoint only): a node that is a replication target of a holder, and for which the
        // key is in range, has absorbed that holder's content (chunk held; union of sets; the higher counter)
        let mut missing: Vec<(usize, usize, Held)> = vec![];
        let mut all_equal = true;
        for (k, it) in items.iter().enumerate() {
            for i in 0..n {
                cx.eval();
                if !subset_of(it.kind, &st[k][i], &want[k], &versions[k]) {
                    cx.violation(format!("realnet:replica-holds-content-never-accepted:{:?}", it.kind), format!("node {i} holds {} ; all accepted versions merge to {}", short(&st[k][i]), short(&want[k])), json!({"nodes": n, "round": round, "kind": format!("{:?}", it.kind)}));
                }
                if crate::c09::tx_duplicates(&net.local(i, &it.key).ok().flatten()) {
                    cx.violation("realnet:transaction-listed-twice", format!("node {i}"), json!({"nodes": n, "round": round}));
                }
                if st[k][i] != want[k] {
                    all_equal = false;
                }
                if !in_range(net, i, &it.key, &ranges[i]) {
                    continue;
                }
                let linked = |h: usize| real_cands[h].contains(&net.nodes[i].peer) && real_closest[i].contains(&net.nodes[h].peer);
                if (0..n).any(|h| h != i && targets_of[h].contains(&i) && st[k][h] != Held::None && !linked(h)) {
                    cx.count("realnet:holder-target-pairs-not-judged(one-has-dropped-the-other-from-its-routing-table)");
                }
                let mut inputs: Vec<Held> = (0..n).filter(|h| *h != i && targets_of[*h].contains(&i) && linked(*h)).map(|h| st[k][h].clone()).filter(|h| *h != Held::None).collect();
                if inputs.is_empty() {
                    continue;
                }
                inputs.push(st[k][i].clone());
                let required = merged(it.kind, &inputs);
                if st[k][i] != required {
                    missing.push((k, i, required));
                }
            }
        }
        if missing.is_empty() {
            cx.count("realnet:converged");
            if all_equal {
                cx.count("realnet:converged-with-every-node-equal");
            }
            cx.count_n("realnet:rounds-to-converge", round as u64);
            cx.nontrivial(&("c09-realnet", cx.index, n, items.len(), round));
            cx.sample(json!({"lane": "real network", "nodes": n, "keys": items.len(), "formed_in_ms": net.formed_in.as_millis() as u64, "fresh_copies": fresh_copies, "converged_after_periodic_rounds": round, "every_node_equal": all_equal}));
            return Some(());
        }
        // a fetch that is still in flight (e.g. towards a peer that went away meanwhile) runs into its 20 s time-out
        // and until then keeps other versions of its key waiting: nothing is final while one exists
        let mut in_flight = 0usize;
        for i in 0..n {
            match net.with_driver(i, |d| d.verif_fetcher_snapshot().on_going_fetches.len()) {
                Ok(c) => in_flight += c,
                Err(e) => {
                    cx.count("realnet:abandoned:harness-error");
                    cx.log(e);
                    return None;
                }
            }
        }
        if in_flight > 0 {
            cx.count("realnet:rounds-with-fetches-still-in-flight");
            stalls = 0;
            prev = None;
            std::thread::sleep(Duration::from_secs(2));
            continue;
        }
        if prev.as_ref() == Some(&st) {
            stalls += 1;
        } else {
            stalls = 0;
        }
        if stalls >= 3 {
            let (k, i, required) = missing[0].clone();
            let it = &items[k];
            let sig = match (&st[k][i], it.kind) {
                (Held::None, Kind::Chunk) => "realnet:chunk-not-replicated-to-in-range-neighbour".to_string(),
                (Held::None, kd) => format!("realnet:record-not-replicated-to-in-range-neighbour:{kd:?}"),
                (_, kd) => format!("realnet:replicas-did-not-converge:{kd:?}"),
            };
            let issues = net.with_driver(i, |d| d.verif_node_issues()).unwrap_or_default();
            let issues: Vec<String> = issues.iter().map(|(p, v, bad)| format!("node{:?}:{v:?}:bad={bad}", net.nodes.iter().position(|x| x.peer == *p))).collect();
            cx.log(format!("node {i} issue book: {issues:?}; restarted: {restarted:?}"));
            if cx.verbose {
                let idx = |p: &PeerId| net.nodes.iter().position(|x| x.peer == *p);
                let snap = net.with_driver(i, |d| d.verif_fetcher_snapshot());
                if let Ok(sn) = snap {
                    cx.log(format!("node {i} fetcher: queued {:?} inflight {:?} range {:?} farthest {:?}", sn.to_be_fetched.iter().map(|(_, t, p, s)| (format!("{t:?}"), idx(p), *s)).collect::<Vec<_>>(), sn.on_going_fetches.iter().map(|(_, t, p, s)| (format!("{t:?}"), idx(p), *s)).collect::<Vec<_>>(), sn.distance_range.is_some(), sn.farthest_acceptable_distance.is_some()));
                }
                for h in 0..n {
                    let me = NetworkAddress::from_peer(net.nodes[h].peer);
                    let cands = net.with_driver(h, move |d| d.verif_get_replicate_candidates(&me)).unwrap_or_default();
                    let kc = net.with_driver(h, |d| d.verif_closest_k_value_local_peers()).unwrap_or_default();
                    cx.log(format!("node {h}: holds {} ; real replicate candidates {:?} ; closest-k {:?} ; listed type {:?}", short(&st[k][h]), cands.iter().map(idx).collect::<Vec<_>>(), kc.iter().map(idx).collect::<Vec<_>>(), net.addresses(h).ok().and_then(|m| m.get(&it.key.to_vec()).cloned())));
                }
            }
            cx.violation(sig, format!("after {round} periodic rounds, the last 3 without any change anywhere: node {i} holds {} although the holders that count it among their 5 closest peers hold content merging to {} ({} node/key pairs short)", short(&st[k][i]), short(&required), missing.len()), json!({"nodes": n, "round": round, "kind": format!("{:?}", it.kind), "row": st[k].iter().map(short).collect::<Vec<_>>(), "targets_of": targets_of}));
            return Some(());
        }
        prev = Some(st);
    }
    cx.count("realnet:abandoned:still-changing-after-max-rounds");
    None
}

/// C03 on the real network: uploads with proofs satisfying / violating single conditions reach a real node through
/// the real kad put path; nothing with a faulty payment may ever be held by any node.
pub fn c03_case(cx: &mut Cx) {
    let n = cx.rng.gen_range(5..=7);
    let Some(net) = start(cx, "c03r", &vec![true; n]) else { return };
    if c03_inner(cx, &net, n).is_none() {
        cx.count("realnet:cases-abandoned");
    }
    net.shutdown();
}

fn c03_inner(cx: &mut Cx, net: &RealNet, n: usize) -> Option<()> {
    let stranger = gen::ed_keypair(&mut cx.rng);
    struct Up {
        item: Mutable,
        conds: Option<Conds>, // None = no payment at all (plain record kind)
        target: usize,
        rec: Record,
        label: String,
    }
    let mut ups: Vec<Up> = vec![];
    let nups = cx.rng.gen_range(6..=12);
    for u in 0..nups {
        let kind = *[Kind::Chunk, Kind::Pad, Kind::Tx, Kind::Reg].choose(&mut cx.rng).expect("nonempty");
        let item = make_mutable(&mut cx.rng, kind);
        let target = net.by_closeness(&item.key)[cx.rng.gen_range(0..3)];
        let env = PayEnv { node_kp: net.nodes[target].kp.clone(), close: (0..n).filter(|j| *j != target).map(|j| net.nodes[j].kp.clone()).collect(), stranger: stranger.clone() };
        let conds = match u % 3 {
            0 => Some(Conds::all()),
            1 => Some(Conds::from_bits(63 ^ (1 << cx.rng.gen_range(0..6)))),
            _ if cx.rng.gen_bool(0.3) => None,
            _ => Some(Conds::from_bits(cx.rng.gen_range(0..63))),
        };
        let (rec, label) = match conds {
            Some(c) => {
                let proof = build_proof(&mut cx.rng, &env, item.content, 3, c, &net.stub);
                ((item.paid)(&proof), c.label())
            }
            None => (item.first.clone(), "no-payment".to_string()),
        };
        ups.push(Up { item, conds, target, rec, label });
    }
    let client = net.client.clone();
    let batch: Vec<(Record, PeerId)> = ups.iter().map(|u| (u.rec.clone(), net.nodes[u.target].peer)).collect();
    let results: Vec<Result<(), String>> = net.ctl.block_on(async move {
        let mut hs = vec![];
        for (rec, peer) in batch {
            let c = client.clone();
            hs.push(tokio::spawn(async move {
                let cfg = ant_networking::PutRecordCfg { put_quorum: Quorum::One, retry_strategy: None, use_put_record_to: Some(vec![peer]), verification: None };
                match tokio::time::timeout(crate::e2e::OP_TIMEOUT, c.put_record(rec, &cfg)).await {
                    Ok(r) => r.map_err(|e| format!("{e:?}")),
                    Err(_) => Err("WATCHDOG".into()),
                }
            }));
        }
        let mut out = vec![];
        for h in hs {
            out.push(h.await.unwrap_or_else(|e| Err(format!("join: {e}"))));
        }
        out
    });
    if results.iter().any(|r| matches!(r, Err(e) if e == "WATCHDOG")) {
        cx.count("realnet:abandoned:put-watchdog");
        return None;
    }
    // three settles: an accepted upload must be there at the first and stay; a refused one must never appear
    let mut absent_streak: BTreeMap<usize, u32> = BTreeMap::new();
    for pass in 0..3 {
        settle(cx, net)?;
        for (u, up) in ups.iter().enumerate() {
            let ok = up.conds.map(|c| c.holds()).unwrap_or(false);
            let mut holders = vec![];
            for i in 0..n {
                match net.local(i, &up.item.key) {
                    Ok(Some(_)) => holders.push(i),
                    Ok(None) => {}
                    Err(e) => {
                        cx.count("realnet:abandoned:harness-error");
                        cx.log(e);
                        return None;
                    }
                }
            }
            cx.eval();
            if !ok && !holders.is_empty() {
                cx.violation(format!("realnet:stored-without-valid-payment:{}", up.label), format!("{:?} uploaded to node {} with a payment failing [{}] is held by nodes {holders:?}", up.item.kind, up.target, up.label), json!({"nodes": n, "kind": format!("{:?}", up.item.kind), "conditions_failing_bits": up.label}));
            }
            if ok && !holders.contains(&up.target) {
                *absent_streak.entry(u).or_default() += 1;
            }
            if pass == 2 {
                cx.count(if ok { "realnet:uploads:valid-payment" } else { "realnet:uploads:faulty-payment" });
            }
        }
    }
    for (u, s) in absent_streak {
        if s >= 3 {
            let up = &ups[u];
            cx.violation("realnet:paid-upload-not-stored", format!("{:?} uploaded to node {} with a proof satisfying every condition is not held by it after three quiescent samples", up.item.kind, up.target), json!({"nodes": n, "kind": format!("{:?}", up.item.kind)}));
        }
    }
    cx.nontrivial(&("c03-realnet", cx.index, n, ups.iter().map(|u| u.label.clone()).collect::<Vec<_>>()));
    cx.sample(json!({"lane": "real network", "nodes": n, "uploads": ups.iter().map(|u| format!("{:?}:{}", u.item.kind, u.label)).collect::<Vec<_>>(), "payment_rpc_calls": net.stub.calls.load(std::sync::atomic::Ordering::SeqCst)}));
    Some(())
}

/// C02 on the real network: a node under upload and replication load is torn down at an arbitrary moment and
/// restarted over its directory with the same identity.
pub fn c02_case(cx: &mut Cx) {
    let n = cx.rng.gen_range(5..=6);
    let Some(mut net) = start(cx, "c02r", &vec![true; n]) else { return };
    if c02_inner(cx, &mut net, n).is_none() {
        cx.count("realnet:cases-abandoned");
    }
    net.shutdown();
}

fn c02_inner(cx: &mut Cx, net: &mut RealNet, n: usize) -> Option<()> {
    let stranger = gen::ed_keypair(&mut cx.rng);
    let victim = cx.rng.gen_range(0..n);
    let nitems = cx.rng.gen_range(10..=30);
    let items: Vec<Mutable> = (0..nitems)
        .map(|_| {
            let k = *[Kind::Chunk, Kind::Chunk, Kind::Pad, Kind::Tx, Kind::Reg].choose(&mut cx.rng).expect("nonempty");
            make_mutable(&mut cx.rng, k)
        })
        .collect();
    let mut batch = vec![];
    for it in &items {
        // most uploads go to the victim itself, the rest reach it through replication
        let target = if cx.rng.gen_bool(0.6) { victim } else { cx.rng.gen_range(0..n) };
        let env = PayEnv { node_kp: net.nodes[target].kp.clone(), close: (0..n).filter(|j| *j != target).map(|j| net.nodes[j].kp.clone()).collect(), stranger: stranger.clone() };
        let proof = build_proof(&mut cx.rng, &env, it.content, 3, Conds::all(), &net.stub);
        batch.push(((it.paid)(&proof), net.nodes[target].peer));
    }
    // uploads run in the background while the victim is observed and then torn down
    let client = net.client.clone();
    let pace = cx.rng.gen_range(0..6u64);
    let bg = net.ctl.spawn(async move {
        for (rec, peer) in batch {
            let c = client.clone();
            tokio::spawn(async move {
                let cfg = ant_networking::PutRecordCfg { put_quorum: Quorum::One, retry_strategy: None, use_put_record_to: Some(vec![peer]), verification: None };
                let _ = tokio::time::timeout(crate::e2e::OP_TIMEOUT, c.put_record(rec, &cfg)).await;
            });
            tokio::time::sleep(Duration::from_millis(pace)).await;
        }
    });
    // observe what the victim lists as stored (a listed record's file write has completed)
    let t_obs = Duration::from_millis(cx.rng.gen_range(0..400));
    std::thread::sleep(t_obs);
    let mut completed: BTreeMap<Vec<u8>, Held> = BTreeMap::new();
    let listed = match net.addresses(victim) {
        Ok(l) => l,
        Err(e) => {
            cx.count("realnet:abandoned:harness-error");
            cx.log(e);
            return None;
        }
    };
    for it in &items {
        if listed.contains_key(&it.key.to_vec()) {
            if let Ok(Some(r)) = net.local(victim, &it.key) {
                completed.insert(it.key.to_vec(), held(it.kind, Some(r)));
            }
        }
    }
    std::thread::sleep(Duration::from_millis(cx.rng.gen_range(0..150)));
    net.crash(victim);
    cx.count("realnet:nodes-torn-down-under-load");
    cx.count_n("realnet:writes-observed-complete-before-the-crash", completed.len() as u64);
    let _ = net.ctl.block_on(async { tokio::time::timeout(crate::e2e::OP_TIMEOUT, bg).await });
    if let Err(e) = net.restart(victim, FORM_WATCHDOG) {
        cx.count("realnet:abandoned:restart");
        cx.log(e);
        return None;
    }
    cx.count("realnet:nodes-restarted");
    // ---- judged on the restarted store, before it has had time to re-fetch anything is not controllable; so:
    // (1) whatever it serves for a key is an accepted version of that key; (2) every write observed complete before
    // the crash is served (a later version of a mutable record is fine, the same or a newer one)
    let mut served = 0u64;
    for it in &items {
        let got = match net.local(victim, &it.key) {
            Ok(g) => g,
            Err(e) => {
                cx.count("realnet:abandoned:harness-error");
                cx.log(e);
                return None;
            }
        };
        cx.eval();
        let h = held(it.kind, got);
        let first = held(it.kind, Some(it.first.clone()));
        if h != Held::None {
            served += 1;
            if h != first {
                cx.violation(format!("realnet:restart-serves-content-never-accepted:{:?}", it.kind), format!("restarted node serves {} for a key whose only accepted version is {}", short(&h), short(&first)), json!({"nodes": n, "kind": format!("{:?}", it.kind)}));
            }
        }
        if let Some(before) = completed.get(&it.key.to_vec()) {
            if h == Held::None {
                cx.violation(format!("realnet:completed-write-lost-after-restart:{:?}", it.kind), format!("the node listed and served {} before it was torn down; after the restart it serves nothing for the key", short(before)), json!({"nodes": n, "kind": format!("{:?}", it.kind), "observed_after_ms": t_obs.as_millis() as u64}));
            }
        }
    }
    // listing of the restarted node: only keys that were uploaded, and what is listed is readable
    if let Ok(l) = net.addresses(victim) {
        let known: BTreeSet<Vec<u8>> = items.iter().map(|it| it.key.to_vec()).collect();
        for k in l.keys() {
            cx.eval();
            if !known.contains(k) {
                cx.violation("realnet:restart-lists-unknown-key", format!("key {} was never uploaded", short_hex(k)), json!({"nodes": n}));
            }
        }
    }
    cx.count_n("realnet:records-served-after-restart", served);
    if !completed.is_empty() {
        cx.nontrivial(&("c02-realnet", cx.index, n, nitems, completed.len()));
    }
    cx.sample(json!({"lane": "real network", "nodes": n, "uploads": nitems, "observed_complete_before_crash": completed.len(), "served_after_restart": served}));
    Some(())
}

/// C05 on the real network: holders are real nodes without a Node layer whose stores the harness fills; the client
/// reads through the real kad query, several callers at once.
pub fn c05_case(cx: &mut Cx) {
    let n = cx.rng.gen_range(5..=8);
    let Some(net) = start(cx, "c05r", &vec![false; n]) else { return };
    if c05_inner(cx, &net, n).is_none() {
        cx.count("realnet:cases-abandoned");
    }
    net.shutdown();
}

fn c05_inner(cx: &mut Cx, net: &RealNet, n: usize) -> Option<()> {
    use crate::c05::{is_merge, make_versions, quorum_value, Kind as K5};
    let nkeys = cx.rng.gen_range(2..=5);
    for _ in 0..nkeys {
        let kind = *[K5::Chunk, K5::Pad, K5::Txs, K5::Reg].choose(&mut cx.rng).expect("nonempty");
        let nver = *[1usize, 1, 2, 2, 3].choose(&mut cx.rng).expect("nonempty");
        let v = make_versions(cx, kind, nver);
        // holder -> version (or nothing)
        let mut assign: Vec<Option<usize>> = vec![];
        for _ in 0..n {
            assign.push(if cx.rng.gen_bool(0.2) { None } else { Some(cx.rng.gen_range(0..nver)) });
        }
        for (i, a) in assign.iter().enumerate() {
            if let Some(ver) = a {
                if let Err(e) = net.seed_raw(i, gen::record(v.key.clone(), v.bytes[*ver].clone())) {
                    cx.count("realnet:abandoned:harness-error");
                    cx.log(e);
                    return None;
                }
            }
        }
        let held_versions: BTreeSet<usize> = assign.iter().flatten().cloned().collect();
        if held_versions.len() >= 2 {
            cx.count("realnet:keys-with-divergent-holders");
        }
        let ncallers = cx.rng.gen_range(1..=4);
        let mut cfgs = vec![];
        for _ in 0..ncallers {
            let quorum = match cx.rng.gen_range(0..6) {
                0 => Quorum::One,
                1 | 2 => Quorum::Majority,
                3 => Quorum::All,
                _ => Quorum::N(std::num::NonZeroUsize::new(cx.rng.gen_range(1..=7)).expect("nz")),
            };
            let target = match cx.rng.gen_range(0..4) {
                0 => Some(gen::record(v.key.clone(), v.bytes[0].clone())),
                1 => Some(gen::record(v.key.clone(), gen::chunk_record(&gen::chunk(&mut cx.rng, 33)).value)),
                _ => None,
            };
            cfgs.push(GetRecordCfg { get_quorum: quorum, retry_strategy: None, target_record: target, expected_holders: Default::default(), is_register: false });
        }
        let client = net.client.clone();
        let (key, cfgs2) = (v.key.clone(), cfgs.clone());
        let stagger = cx.rng.gen_range(0..3u64);
        let outcomes: Vec<Option<Result<Record, NetworkError>>> = net.ctl.block_on(async move {
            let mut hs = vec![];
            for cfg in cfgs2 {
                let (c, k) = (client.clone(), key.clone());
                hs.push(tokio::spawn(async move { tokio::time::timeout(crate::e2e::OP_TIMEOUT, c.get_record_from_network(k, &cfg)).await.ok() }));
                if stagger > 0 {
                    tokio::time::sleep(Duration::from_millis(stagger)).await;
                }
            }
            let mut out = vec![];
            for h in hs {
                out.push(h.await.ok().flatten());
            }
            out
        });
        for (c, out) in outcomes.iter().enumerate() {
            cx.eval();
            let cfg = &cfgs[c];
            let q = quorum_value(&cfg.get_quorum);
            let w = json!({"holders": n, "kind": format!("{kind:?}"), "assignment": assign, "quorum": q, "callers": ncallers, "target": cfg.target_record.is_some()});
            match out {
                None => {
                    // no outcome within the watchdog: is a query for the key still pending in the client's driver?
                    let key2 = v.key.clone();
                    let (tx, rx) = std::sync::mpsc::channel();
                    {
                        let _g = net.ctl.enter();
                        net.client.verif_with_driver(Box::new(move |d| {
                            let _ = tx.send(d.verif_pending_get_record().iter().any(|(_, k, _, _)| *k == key2));
                        }));
                    }
                    match rx.recv_timeout(Duration::from_secs(20)) {
                        Ok(false) => cx.violation("realnet:caller-never-answered", format!("caller {c} got no outcome and no query for the key is pending any more"), w),
                        _ => cx.count("realnet:abandoned:read-watchdog"),
                    }
                }
                Some(Ok(r)) => {
                    cx.count("realnet:read-outcome:value");
                    let agreeing = assign.iter().filter(|a| a.map(|ver| v.bytes[ver] == r.value).unwrap_or(false)).count();
                    let target_ok = cfg.target_record.as_ref().map(|t| t.value == r.value).unwrap_or(true);
                    // a merge of some >= 2 of the held versions?
                    let hv: Vec<usize> = held_versions.iter().cloned().collect();
                    let mut merge_ok = false;
                    for mask in 1u32..(1 << hv.len()) {
                        let s: BTreeSet<usize> = hv.iter().enumerate().filter(|(b, _)| mask & (1 << b) != 0).map(|(_, x)| *x).collect();
                        if s.len() >= 2 && is_merge(&v, &s, &r.value) {
                            merge_ok = true;
                        }
                    }
                    if merge_ok && agreeing < q {
                        cx.count("realnet:read-outcome:merged");
                    }
                    if !(merge_ok || (agreeing >= q && target_ok)) {
                        let sig = if !target_ok { "realnet:value-differs-from-expected-target" } else if agreeing == 0 { "realnet:value-nobody-holds" } else { "realnet:value-without-quorum" };
                        cx.violation(sig, format!("caller {c} (quorum {q}) got a value that {agreeing} of the {n} holders hold and that is no merge of held versions"), w);
                    }
                }
                Some(Err(e)) => {
                    let class = match e {
                        NetworkError::GetRecordError(GetRecordError::SplitRecord { result_map }) => {
                            // every version in the map is one some holder holds
                            for (rec, _) in result_map.values() {
                                if !assign.iter().flatten().any(|ver| v.bytes[*ver] == rec.value) {
                                    cx.violation("realnet:split-result-carries-content-nobody-holds", format!("caller {c}"), w.clone());
                                }
                            }
                            "split"
                        }
                        NetworkError::GetRecordError(GetRecordError::RecordNotFound) => "not-found",
                        NetworkError::GetRecordError(GetRecordError::NotEnoughCopies { .. }) => "not-enough-copies",
                        NetworkError::GetRecordError(GetRecordError::RecordDoesNotMatch(_)) => "does-not-match",
                        NetworkError::GetRecordError(_) => "other-get-error",
                        NetworkError::InternalMsgChannelDropped => {
                            cx.violation("realnet:live-caller-got-dropped-channel", format!("caller {c} of {ncallers}"), w.clone());
                            "channel-dropped"
                        }
                        _ => "other-error",
                    };
                    cx.count(&format!("realnet:read-outcome:{class}"));
                }
            }
        }
        if held_versions.len() >= 2 || ncallers >= 2 {
            cx.nontrivial(&("c05-realnet", cx.index, n, format!("{kind:?}"), assign.clone(), ncallers));
        }
        cx.count("realnet:keys-read");
    }
    cx.sample(json!({"lane": "real network", "holders": n, "keys": nkeys}));
    Some(())
}

#[allow(dead_code)]
fn _unused(_: Scratchpad, _: SignedRegister) {}

fn raw_quote(net: &RealNet, i: usize, addr: &NetworkAddress) -> Result<Result<ant_evm::PaymentQuote, String>, String> {
    use ant_protocol::messages::{Query, QueryResponse, Request, Response};
    let client = net.client.clone();
    let peer = net.nodes[i].peer;
    let req = Request::Query(Query::GetStoreQuote { key: addr.clone(), nonce: None, difficulty: 0 });
    net.ctl.block_on(async move {
        let mut last = String::new();
        for _attempt in 0..4 {
            match tokio::time::timeout(crate::e2e::OP_TIMEOUT, client.send_request(req.clone(), peer)).await {
                Ok(Ok(Response::Query(QueryResponse::GetStoreQuote { quote, .. }))) => return Ok(quote.map_err(|e| format!("{e:?}"))),
                Ok(Ok(other)) => return Err(format!("unexpected response {other:?}")),
                // a connection that went away with a restarted peer: the request is repeated
                Ok(Err(e)) => last = format!("request failed: {e:?}"),
                Err(_) => return Err("WATCHDOG".into()),
            }
            tokio::time::sleep(Duration::from_millis(300)).await;
        }
        Err(last)
    })
}

fn upload_valid(cx: &mut Cx, net: &RealNet, it: &Mutable, target: usize, stranger: &Keypair) -> Result<(), String> {
    let n = net.nodes.len();
    let env = PayEnv { node_kp: net.nodes[target].kp.clone(), close: (0..n).filter(|j| *j != target).map(|j| net.nodes[j].kp.clone()).collect(), stranger: stranger.clone() };
    let proof = build_proof(&mut cx.rng, &env, it.content, 3, Conds::all(), &net.stub);
    net.put((it.paid)(&proof), Some(vec![net.nodes[target].peer]), None)
}

/// wait until node `i` holds `key` (an accepted upload becoming visible); false = watchdog
fn wait_held(net: &RealNet, i: usize, key: &RecordKey) -> Result<bool, String> {
    let t0 = Instant::now();
    loop {
        if net.local(i, key)?.is_some() {
            return Ok(true);
        }
        if t0.elapsed() > SETTLE_WATCHDOG {
            return Ok(false);
        }
        std::thread::sleep(Duration::from_millis(25));
    }
}

/// C13 on the real network: quotes produced by real nodes (the real GetStoreQuote query -> create_quote_for_storecost)
/// are bound to the node, the address asked for and every signed field; the client's quoting call hands out only such quotes.
pub fn c13_case(cx: &mut Cx) {
    let n = cx.rng.gen_range(5..=8);
    let Some(net) = start(cx, "c13r", &vec![true; n]) else { return };
    if c13_inner(cx, &net, n).is_none() {
        cx.count("realnet:cases-abandoned");
    }
    net.shutdown();
}

fn c13_inner(cx: &mut Cx, net: &RealNet, n: usize) -> Option<()> {
    let naddr = cx.rng.gen_range(3..=6);
    let mut judged = 0u64;
    for _ in 0..naddr {
        let addr = loop {
            let a = crate::c11::random_addr(&mut cx.rng);
            if !matches!(a, NetworkAddress::PeerId(_) | NetworkAddress::RecordKey(_)) {
                break a;
            }
        };
        let want_content = addr.as_xorname().unwrap_or_default();
        for i in 0..n {
            let q = match raw_quote(net, i, &addr) {
                Ok(Ok(q)) => q,
                Ok(Err(e)) => {
                    cx.count("realnet:quote-refused");
                    cx.log(e);
                    continue;
                }
                Err(e) => {
                    cx.count("realnet:abandoned:harness-error");
                    cx.log(e);
                    return None;
                }
            };
            cx.eval();
            judged += 1;
            cx.count("realnet:quotes-from-real-nodes");
            let peer = net.nodes[i].peer;
            let w = json!({"nodes": n, "address_kind": crate::c11::kind_of(&addr), "node": i});
            // bound to the node that issued it
            let bytes = ant_evm::PaymentQuote::bytes_for_signing(q.content, q.timestamp, &q.quoting_metrics, &q.rewards_address);
            let sig_ok = net.nodes[i].kp.public().verify(&bytes, &q.signature);
            if !sig_ok || !q.check_is_signed_by_claimed_peer(peer) || q.pub_key != net.nodes[i].kp.public().encode_protobuf() {
                cx.violation("realnet:node-quote-not-bound-to-its-issuer", format!("signature over the signed fields verifies under the node's key: {sig_ok}; check_is_signed_by_claimed_peer(issuer): {}", q.check_is_signed_by_claimed_peer(peer)), w.clone());
            }
            // ... and to nobody else
            let other = net.nodes[(i + 1) % n].peer;
            if q.check_is_signed_by_claimed_peer(other) {
                cx.violation("realnet:node-quote-verifies-for-another-node", "a quote issued by one node verifies for another".to_string(), w.clone());
            }
            // issued for the address asked for, to the node's rewards address, fresh
            if q.content != want_content {
                cx.violation("realnet:node-quote-for-another-address", format!("asked for {want_content:?}, quote is for {:?}", q.content), w.clone());
            }
            if q.rewards_address != ant_evm::RewardsAddress::new([0x11; 20]) {
                cx.violation("realnet:node-quote-with-another-rewards-address", format!("{:?}", q.rewards_address), w.clone());
            }
            if q.has_expired() {
                cx.violation("realnet:fresh-node-quote-expired", format!("timestamp {:?}", q.timestamp), w.clone());
            }
            // every signed field is covered: a change of any one of them breaks verification
            for field in 0..7 {
                let mut t = q.clone();
                let name = match field {
                    0 => {
                        t.content = XorName(cx.rng.gen());
                        "content"
                    }
                    1 => {
                        t.timestamp += Duration::from_secs(cx.rng.gen_range(1..5000));
                        "timestamp"
                    }
                    2 => {
                        t.quoting_metrics.close_records_stored += 1;
                        "close_records_stored"
                    }
                    3 => {
                        t.quoting_metrics.received_payment_count += 1;
                        "received_payment_count"
                    }
                    4 => {
                        t.quoting_metrics.live_time += 1;
                        "live_time"
                    }
                    5 => {
                        t.quoting_metrics.max_records += 1;
                        "max_records"
                    }
                    _ => {
                        t.rewards_address = ant_evm::RewardsAddress::new(cx.rng.gen());
                        "rewards_address"
                    }
                };
                cx.eval();
                if t.check_is_signed_by_claimed_peer(peer) {
                    cx.violation(format!("realnet:altered-node-quote-still-verifies:{name}"), format!("{name} changed after signing"), w.clone());
                }
            }
        }
        // the client's own quoting call (closest peers -> GetStoreQuote to each -> filter) hands out authentic quotes
        let client = net.client.clone();
        let a2 = addr.clone();
        let got = net.ctl.block_on(async move { tokio::time::timeout(crate::e2e::OP_TIMEOUT, client.get_store_quote_from_network(a2, vec![])).await });
        match got {
            Ok(Ok(quotes)) => {
                cx.count_n("realnet:quotes-through-the-client-call", quotes.len() as u64);
                let mut seen = BTreeSet::new();
                for (p, q) in quotes {
                    cx.eval();
                    let w = json!({"nodes": n, "address_kind": crate::c11::kind_of(&addr)});
                    let Some(i) = net.nodes.iter().position(|x| x.peer == p) else {
                        cx.violation("realnet:client-quote-from-unknown-peer", format!("{p}"), w);
                        continue;
                    };
                    let bytes = ant_evm::PaymentQuote::bytes_for_signing(q.content, q.timestamp, &q.quoting_metrics, &q.rewards_address);
                    if !net.nodes[i].kp.public().verify(&bytes, &q.signature) || q.content != want_content {
                        cx.violation("realnet:client-hands-out-unauthentic-quote", format!("node {i}"), w);
                    }
                    if !seen.insert(p) {
                        cx.violation("realnet:client-hands-out-two-quotes-of-one-node", format!("node {i}"), json!({"nodes": n}));
                    }
                }
            }
            Ok(Err(e)) => {
                cx.count("realnet:client-quoting-call-failed");
                cx.log(format!("{e:?}"));
            }
            Err(_) => {
                cx.count("realnet:abandoned:quote-watchdog");
                return None;
            }
        }
    }
    if judged > 0 {
        cx.nontrivial(&("c13-realnet", cx.index, n, naddr));
        cx.sample(json!({"lane": "real network", "nodes": n, "addresses": naddr, "quotes_judged": judged}));
    }
    Some(())
}

/// C10 on the real network: the figures a real node signs into its quotes equal what it really holds, its capacity
/// and the payments it really received, also after it was torn down and restarted.
pub fn c10_case(cx: &mut Cx) {
    let n = cx.rng.gen_range(5..=7);
    let Some(mut net) = start(cx, "c10r", &vec![true; n]) else { return };
    if c10_inner(cx, &mut net, n).is_none() {
        cx.count("realnet:cases-abandoned");
    }
    net.shutdown();
}

fn c10_inner(cx: &mut Cx, net: &mut RealNet, n: usize) -> Option<()> {
    let stranger = gen::ed_keypair(&mut cx.rng);
    let t = cx.rng.gen_range(0..n);
    // paid uploads to node t (each is one payment it verifies itself) and to others (reaching t by replication only)
    let nown = cx.rng.gen_range(1..=6);
    let nother = cx.rng.gen_range(0..=4);
    let mut paid_at_t = 0usize;
    for u in 0..nown + nother {
        let kind = *[Kind::Chunk, Kind::Chunk, Kind::Pad, Kind::Tx, Kind::Reg].choose(&mut cx.rng).expect("nonempty");
        let it = make_mutable(&mut cx.rng, kind);
        let target = if u < nown { t } else { (t + 1 + cx.rng.gen_range(0..n - 1)) % n };
        match upload_valid(cx, net, &it, target, &stranger) {
            Ok(()) => {}
            Err(e) => {
                cx.count("realnet:abandoned:put-failed");
                cx.log(e);
                return None;
            }
        }
        match wait_held(net, target, &it.key) {
            Ok(true) => {
                if target == t {
                    paid_at_t += 1;
                }
            }
            Ok(false) => {
                cx.count("realnet:abandoned:upload-not-visible-at-its-target");
                return None;
            }
            Err(e) => {
                cx.count("realnet:abandoned:harness-error");
                cx.log(e);
                return None;
            }
        }
    }
    settle(cx, net)?;
    let judge = |cx: &mut Cx, net: &RealNet, phase: &str| -> Option<()> {
        let addr = NetworkAddress::from_chunk_address(ant_protocol::storage::ChunkAddress::new(XorName(cx.rng.gen())));
        let q = match raw_quote(net, t, &addr) {
            Ok(Ok(q)) => q,
            Ok(Err(e)) => {
                cx.count("realnet:quote-refused");
                cx.log(e);
                return Some(());
            }
            Err(e) => {
                cx.count("realnet:abandoned:harness-error");
                cx.log(e);
                return None;
            }
        };
        // truth, independently: what the node lists, the range it has, the metric
        let listed = match net.addresses(t) {
            Ok(l) => l,
            Err(e) => {
                cx.count("realnet:abandoned:harness-error");
                cx.log(e);
                return None;
            }
        };
        let range = match net.with_driver(t, |d| d.verif_store_mut().map(|s| s.verif_snapshot().responsible_distance_range)) {
            Ok(r) => r.flatten(),
            Err(e) => {
                cx.count("realnet:abandoned:harness-error");
                cx.log(e);
                return None;
            }
        };
        let me = net.nodes[t].peer.to_bytes();
        let close = listed.keys().filter(|k| match &range { None => true, Some(r) => to_u256(&ref_distance(&me, k)) <= *r }).count();
        let on_edge = listed.keys().any(|k| matches!(&range, Some(r) if to_u256(&ref_distance(&me, k)) == *r));
        cx.eval();
        cx.count(&format!("realnet:quotes-judged:{phase}"));
        let w = json!({"nodes": n, "phase": phase, "records_listed": listed.len(), "range_set": range.is_some(), "payments_verified_by_the_node": paid_at_t, "quoted": {"close_records_stored": q.quoting_metrics.close_records_stored, "max_records": q.quoting_metrics.max_records, "received_payment_count": q.quoting_metrics.received_payment_count}});
        if q.quoting_metrics.received_payment_count != paid_at_t {
            cx.violation(format!("realnet:quote-payment-count-wrong:{phase}"), format!("the node verified {paid_at_t} payments itself; its quote says {}", q.quoting_metrics.received_payment_count), w.clone());
        }
        if !on_edge && q.quoting_metrics.close_records_stored != close {
            cx.violation(format!("realnet:quote-record-count-wrong:{phase}"), format!("{close} of the {} listed records are within the responsible range; the quote says {}", listed.len(), q.quoting_metrics.close_records_stored), w.clone());
        }
        if q.quoting_metrics.max_records != 16 * 1024 {
            cx.violation(format!("realnet:quote-capacity-wrong:{phase}"), format!("{}", q.quoting_metrics.max_records), w.clone());
        }
        Some(())
    };
    judge(cx, net, "running")?;
    // torn down and restarted: the payments received survive. The node persists the count in a spawned task; the
    // teardown waits until the file shows it (a teardown before that is a crash before the write completed, which
    // the statement does not cover)
    let persisted = |root: &std::path::Path| -> Option<usize> {
        let mut stack = vec![root.to_path_buf()];
        while let Some(d) = stack.pop() {
            for e in std::fs::read_dir(&d).into_iter().flatten().flatten() {
                let p = e.path();
                if p.is_dir() {
                    stack.push(p);
                } else if p.file_name().map(|n| n == "historic_quoting_metrics").unwrap_or(false) {
                    if let Ok(b) = std::fs::read(&p) {
                        if let Ok((c, _)) = rmp_serde::from_slice::<(usize, std::time::SystemTime)>(&b) {
                            return Some(c);
                        }
                    }
                }
            }
        }
        None
    };
    let t_flush = Instant::now();
    while persisted(&net.nodes[t].root) != Some(paid_at_t) {
        if t_flush.elapsed() > SETTLE_WATCHDOG {
            cx.count("realnet:abandoned:payment-count-not-on-disk-before-the-teardown");
            return None;
        }
        std::thread::sleep(Duration::from_millis(50));
    }
    net.crash(t);
    if let Err(e) = net.restart(t, FORM_WATCHDOG) {
        cx.count("realnet:abandoned:restart");
        cx.log(e);
        return None;
    }
    cx.count("realnet:nodes-restarted");
    if !net.wait_formed(Instant::now() + FORM_WATCHDOG) {
        cx.count("realnet:abandoned:formation");
        return None;
    }
    settle(cx, net)?;
    judge(cx, net, "restarted")?;
    cx.nontrivial(&("c10-realnet", cx.index, n, nown, nother));
    cx.sample(json!({"lane": "real network", "nodes": n, "payments_verified_by_the_quoting_node": paid_at_t, "uploads_elsewhere": nother}));
    Some(())
}

/// C11 on the real network: the closest-peer selection a client / node gets from the real kad query is the ascending
/// prefix of the reference order over the live nodes.
pub fn c11_case(cx: &mut Cx) {
    let n = cx.rng.gen_range(5..=12);
    let Some(net) = start(cx, "c11r", &vec![true; n]) else { return };
    if c11_inner(cx, &net, n).is_none() {
        cx.count("realnet:cases-abandoned");
    }
    net.shutdown();
}

fn c11_inner(cx: &mut Cx, net: &RealNet, n: usize) -> Option<()> {
    let all: Vec<PeerId> = net.nodes.iter().map(|x| x.peer).collect();
    for q in 0..cx.rng.gen_range(4..=10) {
        let addr = crate::c11::random_addr(&mut cx.rng);
        // asked by the client (itself excluded) or by a node (itself included)
        let by_node = if q % 3 == 2 { Some(cx.rng.gen_range(0..n)) } else { None };
        let asker = match by_node {
            Some(i) => net.net_of(i).ok()?,
            None => net.client.clone(),
        };
        // the candidates: every node, minus the asker itself when a node asks (its own routing table does not list it)
        let candidates: Vec<PeerId> = all.iter().filter(|p| by_node.map(|i| all[i] != **p).unwrap_or(true)).cloned().collect();
        let want: Vec<PeerId> = crate::c11::sorted_ref(&candidates, &addr).into_iter().take(7).collect();
        let mut strikes = 0;
        let mut last_detail = String::new();
        for _attempt in 0..3 {
            let (a2, asker2) = (addr.clone(), asker.clone());
            let got = net.ctl.block_on(async move {
                tokio::time::timeout(crate::e2e::OP_TIMEOUT, async {
                    if by_node.is_some() {
                        asker2.node_get_closest_peers(&a2).await
                    } else {
                        asker2.client_get_all_close_peers_in_range_or_close_group(&a2).await
                    }
                })
                .await
            });
            let list = match got {
                Ok(Ok(l)) => l,
                Ok(Err(e)) => {
                    cx.count("realnet:closest-peers-call-failed");
                    cx.log(format!("{e:?}"));
                    break;
                }
                Err(_) => {
                    cx.count("realnet:abandoned:closest-watchdog");
                    return None;
                }
            };
            cx.eval();
            cx.count("realnet:closest-peer-selections-judged");
            let w = json!({"nodes": n, "address_kind": crate::c11::kind_of(&addr), "asked_by": if by_node.is_some() { "node" } else { "client" }, "got": list.len()});
            // ascending, duplicate-free and made of nodes of the network: always
            let ds: Vec<_> = list.iter().map(|p| ref_distance(&p.to_bytes(), &crate::c11::addr_bytes(&addr))).collect();
            if ds.windows(2).any(|x| x[0] >= x[1]) {
                cx.violation("realnet:closest-peers-not-ascending", format!("{} peers returned", list.len()), w.clone());
                break;
            }
            if list.iter().any(|p| !all.contains(p)) {
                cx.violation("realnet:closest-peers-lists-a-stranger", format!("{} peers returned", list.len()), w.clone());
                break;
            }
            if list == want {
                cx.count("realnet:closest-peer-selections-exactly-the-nearest");
                break;
            }
            // a nearer node is missing: a peer that did not answer the query in time is legitimately left out, so
            // the same question is asked again; only three answers in a row that leave nearer nodes out count
            strikes += 1;
            let full = crate::c11::sorted_ref(&candidates, &addr);
            let ranks: Vec<usize> = list.iter().map(|p| full.iter().position(|x| x == p).unwrap_or(99)).collect();
            last_detail = format!("{} returned; reference ranks of the returned peers {ranks:?}", list.len());
            if strikes == 3 {
                // not judged: a node that does not answer the kad query in time is legitimately left out, and the
                // lane cannot tell that from a wrong choice (the choice itself is judged in the controlled cases)
                cx.count("realnet:closest-peer-selections-with-a-nearer-node-left-out-three-times");
                cx.log(format!("three answers in a row leave nearer nodes out: {last_detail} {w}"));
            }
        }
        let _ = last_detail;
    }
    cx.nontrivial(&("c11-realnet", cx.index, n));
    cx.sample(json!({"lane": "real network", "nodes": n}));
    Some(())
}

/// C04 on the real network: records presented under a key their content does not determine, oversized and
/// undecodable records arrive through the real kad put path with an otherwise valid payment; nothing of it may be
/// held by any node, under any key.
pub fn c04_case(cx: &mut Cx) {
    let n = cx.rng.gen_range(5..=7);
    let Some(net) = start(cx, "c04r", &vec![true; n]) else { return };
    if c04_inner(cx, &net, n).is_none() {
        cx.count("realnet:cases-abandoned");
    }
    net.shutdown();
}

fn c04_inner(cx: &mut Cx, net: &RealNet, n: usize) -> Option<()> {
    let stranger = gen::ed_keypair(&mut cx.rng);
    struct Up {
        label: &'static str,
        kind: Kind,
        /// the key it is presented under and the key its content determines
        presented: RecordKey,
        own: RecordKey,
        good: bool,
        target: usize,
    }
    let mut ups: Vec<Up> = vec![];
    let mut batch: Vec<(Record, PeerId)> = vec![];
    for u in 0..cx.rng.gen_range(6..=12) {
        let kind = *[Kind::Chunk, Kind::Pad, Kind::Tx, Kind::Reg].choose(&mut cx.rng).expect("nonempty");
        let it = make_mutable(&mut cx.rng, kind);
        let other = make_mutable(&mut cx.rng, kind);
        let (label, presented, good): (&'static str, RecordKey, bool) = match u % 4 {
            0 => ("own-key", it.key.clone(), true),
            1 => ("key-of-another-record-of-the-kind", other.key.clone(), false),
            2 => ("random-key", RecordKey::from(gen::bytes(&mut cx.rng, 32)), false),
            _ => ("own-key", it.key.clone(), true),
        };
        let target = net.by_closeness(&presented)[cx.rng.gen_range(0..3)];
        let env = PayEnv { node_kp: net.nodes[target].kp.clone(), close: (0..n).filter(|j| *j != target).map(|j| net.nodes[j].kp.clone()).collect(), stranger: stranger.clone() };
        // the payment is made for the address the record is presented under when that is a typed address of the kind,
        // else for the record's own content: every payment condition holds, only the key is wrong
        let proof = build_proof(&mut cx.rng, &env, if label == "key-of-another-record-of-the-kind" { other.content } else { it.content }, 3, Conds::all(), &net.stub);
        let mut rec = (it.paid)(&proof);
        rec.key = presented.clone();
        batch.push((rec, net.nodes[target].peer));
        ups.push(Up { label, kind, presented, own: it.key.clone(), good, target });
    }
    // oversized and undecodable values under fresh keys
    for v in 0..3 {
        let key = RecordKey::from(gen::bytes(&mut cx.rng, 32));
        let value = match v {
            0 => {
                let mut b = vec![0x91u8, 0x00];
                b.extend(gen::bytes(&mut cx.rng, 5 * 1024 * 1024));
                b
            }
            1 => gen::bytes_r(&mut cx.rng, 0, 200),
            _ => vec![0x91, 0x09, 1, 2, 3],
        };
        let target = net.by_closeness(&key)[0];
        batch.push((Record { key: key.clone(), value, publisher: None, expires: None }, net.nodes[target].peer));
        ups.push(Up { label: ["oversized", "garbage", "unknown-kind"][v], kind: Kind::Chunk, presented: key.clone(), own: key, good: false, target });
    }
    let client = net.client.clone();
    let results: Vec<Result<(), String>> = net.ctl.block_on(async move {
        let mut hs = vec![];
        for (rec, peer) in batch {
            let c = client.clone();
            hs.push(tokio::spawn(async move {
                let cfg = ant_networking::PutRecordCfg { put_quorum: Quorum::One, retry_strategy: None, use_put_record_to: Some(vec![peer]), verification: None };
                match tokio::time::timeout(crate::e2e::OP_TIMEOUT, c.put_record(rec, &cfg)).await {
                    Ok(r) => r.map_err(|e| format!("{e:?}")),
                    Err(_) => Err("WATCHDOG".into()),
                }
            }));
        }
        let mut out = vec![];
        for h in hs {
            out.push(h.await.unwrap_or_else(|e| Err(format!("join: {e}"))));
        }
        out
    });
    if results.iter().any(|r| matches!(r, Err(e) if e == "WATCHDOG")) {
        cx.count("realnet:abandoned:put-watchdog");
        return None;
    }
    let mut absent: BTreeMap<usize, u32> = BTreeMap::new();
    for _pass in 0..3 {
        settle(cx, net)?;
        for (u, up) in ups.iter().enumerate() {
            for i in 0..n {
                cx.eval();
                let under_presented = match net.local(i, &up.presented) {
                    Ok(r) => r,
                    Err(e) => {
                        cx.count("realnet:abandoned:harness-error");
                        cx.log(e);
                        return None;
                    }
                };
                if !up.good {
                    if under_presented.is_some() {
                        cx.violation(format!("realnet:mismatched-or-unacceptable-record-held:{}", up.label), format!("node {i} holds a record under the key a {:?} was presented under ({})", up.kind, up.label), json!({"nodes": n, "variant": up.label, "kind": format!("{:?}", up.kind)}));
                    }
                    if up.own != up.presented {
                        if let Ok(Some(_)) = net.local(i, &up.own) {
                            cx.violation(format!("realnet:rejected-record-stored-under-its-own-key:{}", up.label), format!("node {i}: a {:?} presented under another key was refused there but appears under the key its content determines", up.kind), json!({"nodes": n, "variant": up.label}));
                        }
                    }
                } else if i == up.target && under_presented.is_none() {
                    *absent.entry(u).or_default() += 1;
                }
            }
        }
    }
    for up in &ups {
        cx.count(&format!("realnet:presented:{}", up.label));
    }
    for (u, s) in absent {
        if s >= 3 {
            cx.violation("realnet:record-under-its-own-key-not-stored", format!("{:?} with a valid payment under the key its content determines is not held by the node it was sent to after three quiescent samples", ups[u].kind), json!({"nodes": n}));
        }
    }
    cx.nontrivial(&("c04-realnet", cx.index, n, ups.iter().map(|u| u.label).collect::<Vec<_>>()));
    cx.sample(json!({"lane": "real network", "nodes": n, "presented": ups.iter().map(|u| format!("{:?}:{}", u.kind, u.label)).collect::<Vec<_>>()}));
    Some(())
}

fn put_chunks_paid(cx: &mut Cx, net: &RealNet, chunks: &[ant_protocol::storage::Chunk], stranger: &Keypair) -> Option<()> {
    let n = net.nodes.len();
    let mut batch = vec![];
    let mut targets = vec![];
    for c in chunks {
        let key = NetworkAddress::from_chunk_address(*c.address()).to_record_key();
        let target = net.by_closeness(&key)[0];
        let env = PayEnv { node_kp: net.nodes[target].kp.clone(), close: (0..n).filter(|j| *j != target).map(|j| net.nodes[j].kp.clone()).collect(), stranger: stranger.clone() };
        let proof = build_proof(&mut cx.rng, &env, *c.name(), 3, Conds::all(), &net.stub);
        let rec = gen::record(key.clone(), try_serialize_record(&(proof, c.clone()), RecordKind::ChunkWithPayment).expect("ser").to_vec());
        batch.push((rec, net.nodes[target].peer));
        targets.push((target, key));
    }
    let client = net.client.clone();
    let results: Vec<Result<(), String>> = net.ctl.block_on(async move {
        let mut out = vec![];
        // a handful at a time, as the real uploader does
        for group in batch.chunks(8) {
            let mut hs = vec![];
            for (rec, peer) in group.iter().cloned() {
                let c = client.clone();
                hs.push(tokio::spawn(async move {
                    let cfg = ant_networking::PutRecordCfg { put_quorum: Quorum::One, retry_strategy: None, use_put_record_to: Some(vec![peer]), verification: None };
                    match tokio::time::timeout(crate::e2e::OP_TIMEOUT, c.put_record(rec, &cfg)).await {
                        Ok(r) => r.map_err(|e| format!("{e:?}")),
                        Err(_) => Err("WATCHDOG".into()),
                    }
                }));
            }
            for h in hs {
                out.push(h.await.unwrap_or_else(|e| Err(format!("join: {e}"))));
            }
        }
        out
    });
    if results.iter().any(|r| r.is_err()) {
        cx.count("realnet:abandoned:put-failed");
        return None;
    }
    for (t, key) in targets {
        match wait_held(net, t, &key) {
            Ok(true) => {}
            Ok(false) => {
                cx.count("realnet:abandoned:upload-not-visible-at-its-target");
                return None;
            }
            Err(e) => {
                cx.count("realnet:abandoned:harness-error");
                cx.log(e);
                return None;
            }
        }
    }
    Some(())
}

/// C14 on the real network: the chunks the real `encrypt` produces are uploaded (paid) to real nodes and read back by
/// a real Client through real kad queries. With `substitute`, afterwards one data chunk is replaced on every holder by
/// another chunk's bytes (C15): the read must fail rather than return other bytes.
pub fn c14_case(cx: &mut Cx) {
    client_data_case(cx, false)
}
pub fn c15_case(cx: &mut Cx) {
    if cx.index % 2 == 0 {
        client_data_case(cx, true)
    } else {
        vault_case(cx)
    }
}

fn client_data_case(cx: &mut Cx, substitute: bool) {
    let n = cx.rng.gen_range(5..=7);
    let Some(net) = start(cx, if substitute { "c15r" } else { "c14r" }, &vec![true; n]) else { return };
    if client_data_inner(cx, &net, n, substitute).is_none() {
        cx.count("realnet:cases-abandoned");
    }
    net.shutdown();
}

fn client_data_inner(cx: &mut Cx, net: &RealNet, n: usize, substitute: bool) -> Option<()> {
    use bytes::Bytes;
    let stranger = gen::ed_keypair(&mut cx.rng);
    let max: usize = *self_encryption::MAX_CHUNK_SIZE;
    // sizes: small builds (1 KiB chunks) reach several data-map levels with a few hundred KiB
    let len = if max <= 4096 { *[3usize, 700, 3 * max, 3 * max + 1, 40 * max, 150 * max + 17, cx.rng.gen_range(3..200 * max)].choose(&mut cx.rng).expect("nonempty") } else { *[3usize, 4096, 100_000, cx.rng.gen_range(3..600_000), 3 * max + 1].choose(&mut cx.rng).expect("nonempty") };
    let data = gen::bytes(&mut cx.rng, len);
    let (map_chunk, mut chunks) = match autonomi::self_encryption::encrypt(Bytes::from(data.clone())) {
        Ok(x) => x,
        Err(e) => {
            cx.count("realnet:encrypt-refused");
            cx.log(format!("{e:?}"));
            return Some(());
        }
    };
    chunks.push(map_chunk.clone());
    cx.count_n("realnet:chunks-uploaded", chunks.len() as u64);
    put_chunks_paid(cx, net, &chunks, &stranger)?;
    settle(cx, net)?;
    let client = autonomi::Client::verif_new(net.client.clone(), net.stub.evm_network());
    let addr = *map_chunk.address().xorname();
    let c2 = client.clone();
    let got = net.ctl.block_on(async move { tokio::time::timeout(Duration::from_secs(180), c2.data_get_public(addr)).await });
    cx.eval();
    let w = json!({"nodes": n, "bytes": len, "chunks": chunks.len(), "max_chunk_size": max});
    match got {
        Err(_) => {
            cx.count("realnet:abandoned:read-watchdog");
            return None;
        }
        Ok(Ok(b)) => {
            if b.as_ref() != data.as_slice() {
                cx.violation("realnet:round-trip-mangled", format!("{} bytes came back for {} uploaded", b.len(), len), w.clone());
            } else {
                cx.count("realnet:round-trips-ok");
            }
        }
        Ok(Err(e)) => {
            // every chunk was visible at its payee before the read started: three failures in a row are judged
            let mut failures = 1;
            let mut last = format!("{e:?}");
            for _ in 0..2 {
                settle(cx, net)?;
                let c3 = client.clone();
                match net.ctl.block_on(async move { tokio::time::timeout(Duration::from_secs(180), c3.data_get_public(addr)).await }) {
                    Ok(Ok(b)) if b.as_ref() == data.as_slice() => break,
                    Ok(Ok(_)) => {
                        cx.violation("realnet:round-trip-mangled", "a retry returned other bytes".to_string(), w.clone());
                        break;
                    }
                    Ok(Err(e)) => {
                        failures += 1;
                        last = format!("{e:?}");
                    }
                    Err(_) => {
                        cx.count("realnet:abandoned:read-watchdog");
                        return None;
                    }
                }
            }
            if failures >= 3 {
                cx.violation("realnet:round-trip-failed", format!("three reads in a row failed although every chunk is held by the node it was paid to: {last}"), w.clone());
            } else {
                cx.count("realnet:round-trips-ok-after-retry");
            }
        }
    }
    cx.nontrivial(&("client-data-realnet", cx.index, n, len, substitute));
    if substitute && chunks.len() >= 2 {
        // one chunk's bytes are replaced, on every node that holds it, by another chunk of the same upload
        let vi = cx.rng.gen_range(0..chunks.len());
        let oi = (vi + 1 + cx.rng.gen_range(0..chunks.len() - 1)) % chunks.len();
        let vkey = NetworkAddress::from_chunk_address(*chunks[vi].address()).to_record_key();
        let forged = gen::record(vkey.clone(), gen::chunk_record(&chunks[oi]).value);
        let mut replaced = 0;
        for i in 0..n {
            match net.local(i, &vkey) {
                Ok(Some(_)) => {
                    if let Err(e) = net.seed_local(i, forged.clone()) {
                        cx.count("realnet:abandoned:harness-error");
                        cx.log(e);
                        return None;
                    }
                    replaced += 1;
                }
                Ok(None) => {}
                Err(e) => {
                    cx.count("realnet:abandoned:harness-error");
                    cx.log(e);
                    return None;
                }
            }
        }
        cx.count_n("realnet:holders-serving-substituted-content", replaced);
        let (c4, vaddr) = (client.clone(), *chunks[vi].address().xorname());
        let got = net.ctl.block_on(async move { tokio::time::timeout(Duration::from_secs(120), c4.chunk_get(vaddr)).await });
        cx.eval();
        match got {
            Ok(Ok(c)) => {
                if c.value() != chunks[vi].value() {
                    cx.violation("realnet:chunk_get-returned-content-not-hashing-to-address", format!("every holder serves another chunk's bytes under the address; chunk_get returned {} bytes that do not hash to it", c.value().len()), w.clone());
                }
            }
            Ok(Err(_)) => cx.count("realnet:substituted-chunk-refused"),
            Err(_) => cx.count("realnet:abandoned:read-watchdog"),
        }
        let c5 = client.clone();
        let got = net.ctl.block_on(async move { tokio::time::timeout(Duration::from_secs(180), c5.data_get_public(addr)).await });
        cx.eval();
        match got {
            Ok(Ok(b)) if b.as_ref() != data.as_slice() => cx.violation("realnet:data-returned-with-a-substituted-chunk", format!("{} bytes returned, not the uploaded ones", b.len()), w.clone()),
            Ok(Ok(_)) => cx.count("realnet:data-read-correct-despite-substitution"),
            Ok(Err(_)) => cx.count("realnet:substituted-data-refused"),
            Err(_) => cx.count("realnet:abandoned:read-watchdog"),
        }
    }
    cx.sample(json!({"lane": "real network", "nodes": n, "bytes": len, "chunks": chunks.len(), "substitution": substitute}));
    Some(())
}

/// C15 on the real network: holders without a Node layer serve whatever scratchpads the harness put there; the real
/// Client reads the vault through the real kad query.
fn vault_case(cx: &mut Cx) {
    let n = cx.rng.gen_range(5..=8);
    let Some(net) = start(cx, "c15v", &vec![false; n]) else { return };
    for _ in 0..cx.rng.gen_range(4..=7) {
        if vault_inner(cx, &net, n).is_none() {
            cx.count("realnet:cases-abandoned");
            break;
        }
    }
    net.shutdown();
}

fn vault_inner(cx: &mut Cx, net: &RealNet, n: usize) -> Option<()> {
    let owner = gen::bls_sk(&mut cx.rng);
    let foreign = gen::bls_sk(&mut cx.rng);
    let key = NetworkAddress::from_scratchpad_address(ant_protocol::storage::ScratchpadAddress::new(owner.public_key())).to_record_key();
    #[derive(Clone, Copy, Debug, PartialEq)]
    enum Class {
        Authentic,
        Blank,
        Unsigned,
        BadSignature,
        ForeignOwner,
        Garbage,
    }
    let nver = cx.rng.gen_range(1..=4);
    let honest_only = cx.rng.gen_bool(0.2);
    let none_authentic = !honest_only && cx.rng.gen_bool(0.35);
    let mut versions: Vec<(Class, u64, Vec<u8>, Vec<u8>)> = vec![];
    let base: u64 = cx.rng.gen_range(0..20);
    for i in 0..nver {
        let class = if honest_only {
            Class::Authentic
        } else if none_authentic {
            *[Class::Unsigned, Class::Blank, Class::BadSignature, Class::ForeignOwner, Class::Garbage].choose(&mut cx.rng).expect("nonempty")
        } else {
            *[Class::Authentic, Class::Authentic, Class::Unsigned, Class::Blank, Class::BadSignature, Class::ForeignOwner, Class::Garbage].choose(&mut cx.rng).expect("nonempty")
        };
        let plaintext: Vec<u8> = if class == Class::Blank { vec![] } else { format!("version-{i}-{}", hex(&gen::bytes(&mut cx.rng, 6))).into_bytes() };
        let counter = match class {
            Class::Blank => 0,
            Class::Authentic => base + cx.rng.gen_range(0..6),
            _ => *[base + 50, u64::MAX, base, 0].choose(&mut cx.rng).expect("nonempty"),
        };
        let cipher = owner.public_key().encrypt_with_rng(&mut cx.rng, &plaintext).to_bytes();
        let value = match class {
            Class::Authentic => gen::pad_record(&gen::pad(&owner, counter, &cipher, 7)).value,
            Class::Blank => gen::pad_record(&Scratchpad::new(owner.public_key(), 7)).value,
            Class::Unsigned => {
                let mut raw = gen::RawPad::from_pad(&gen::pad(&owner, counter, &cipher, 7));
                raw.signature = None;
                gen::pad_record(&raw.to_pad()).value
            }
            Class::BadSignature => {
                let mut raw = gen::RawPad::from_pad(&gen::pad(&owner, counter, &cipher, 7));
                raw.sign(&foreign);
                gen::pad_record(&raw.to_pad()).value
            }
            Class::ForeignOwner => gen::pad_record(&gen::pad(&foreign, counter, &cipher, 7)).value,
            Class::Garbage => gen::bytes_r(&mut cx.rng, 0, 80),
        };
        versions.push((class, counter, plaintext, value));
    }
    let mut assign: Vec<Option<usize>> = vec![];
    for _ in 0..n {
        assign.push(if cx.rng.gen_bool(0.15) { None } else { Some(cx.rng.gen_range(0..nver)) });
    }
    for (i, a) in assign.iter().enumerate() {
        if let Some(v) = a {
            if let Err(e) = net.seed_raw(i, gen::record(key.clone(), versions[*v].3.clone())) {
                cx.count("realnet:abandoned:harness-error");
                cx.log(e);
                return None;
            }
        }
    }
    let held: BTreeSet<usize> = assign.iter().flatten().cloned().collect();
    let best_authentic = held.iter().filter(|v| versions[**v].0 == Class::Authentic).map(|v| versions[*v].1).max();
    let client = autonomi::Client::verif_new(net.client.clone(), net.stub.evm_network());
    let sk = owner.clone();
    let got = net.ctl.block_on(async move { tokio::time::timeout(Duration::from_secs(120), client.fetch_and_decrypt_vault(&sk)).await });
    cx.eval();
    let w = json!({"holders": n, "held": assign.iter().map(|a| a.map(|v| format!("{:?}#{}", versions[v].0, versions[v].1))).collect::<Vec<_>>()});
    match got {
        Err(_) => {
            cx.count("realnet:abandoned:read-watchdog");
            return None;
        }
        Ok(Ok((bytes, _))) => match versions.iter().position(|v| v.2 == bytes.as_ref()) {
            None => cx.violation("realnet:vault-returned-unknown-content", format!("{} bytes that no holder holds", bytes.len()), w),
            Some(vi) if versions[vi].0 != Class::Authentic => cx.violation(format!("realnet:vault-returned-unauthenticated-version:{:?}", versions[vi].0), format!("counter {}", versions[vi].1), w),
            Some(_) => cx.count("realnet:vault-reads-ok-authentic"),
        },
        Ok(Err(_)) => {
            cx.count("realnet:vault-reads-err");
            if best_authentic.is_none() {
                cx.count("realnet:vault-reads-err-with-no-authentic-version-held");
            }
        }
    }
    if held.iter().any(|v| versions[*v].0 != Class::Authentic) {
        cx.nontrivial(&("vault-realnet", cx.index, n, format!("{assign:?}")));
    }
    cx.sample(json!({"lane": "real network", "holders": n, "versions": versions.iter().map(|v| format!("{:?}#{}", v.0, v.1)).collect::<Vec<_>>()}));
    Some(())
}

// ------------------------------------------------------------------------------------------------------------------
/// C07 on the real network: mutable records are created by paid uploads and then updated through the real client put
/// path (kad put -> the holder's real `UnverifiedRecord` handling -> validation in a spawned task -> store -> fresh /
/// periodic replication), one update at a time, several at once, and by rounds of the real periodic replication.
/// After every round the network is brought to logical quiescence and every node's copy of every key is judged.
pub fn c07_case(cx: &mut Cx) {
    let n = cx.rng.gen_range(5..=7);
    let Some(mut net) = start(cx, "c07r", &vec![true; n]) else { return };
    if c07_inner(cx, &mut net, n).is_none() {
        cx.count("realnet:cases-abandoned");
    }
    net.shutdown();
}

const C07_TAG: &str = ":concurrent-deliveries-to-one-key";

struct Track {
    kind: Kind,
    key: RecordKey,
    owner: bls::SecretKey,
    /// record values of every validly signed scratchpad of the owner handed to the network: (counter, value)
    valid_pads: Vec<(u64, Vec<u8>)>,
    valid_txs: BTreeSet<Transaction>,
    valid_ops: BTreeSet<RegisterOp>,
    /// the client's own replica of the register (what it extends and sends)
    reg: Option<SignedRegister>,
    next_counter: u64,
}

/// what one delivery, if taken, must leave behind on a node that already held the key
#[derive(Clone)]
enum Contribution {
    Nothing,
    Pad(u64),
    Txs(BTreeSet<Transaction>),
    Ops(BTreeSet<RegisterOp>),
}

fn c07_delivery(cx: &mut Cx, net: &RealNet, tr: &mut Track, target: usize, stranger: &Keypair) -> (Record, String, Contribution) {
    let other = gen::bls_sk(&mut cx.rng);
    match tr.kind {
        Kind::Pad => {
            let counter = match cx.rng.gen_range(0..10) {
                0..=5 => {
                    tr.next_counter = tr.next_counter.saturating_add(cx.rng.gen_range(1..4));
                    tr.next_counter
                }
                6..=7 => cx.rng.gen_range(0..tr.next_counter.max(1)),
                _ => tr.next_counter,
            };
            let data = gen::bytes_r(&mut cx.rng, 0, 120);
            match cx.rng.gen_range(0..100) {
                0..=69 => {
                    let r = gen::pad_record(&gen::pad(&tr.owner, counter, &data, 0));
                    tr.valid_pads.push((counter, r.value.clone()));
                    (r, format!("valid#{counter}"), Contribution::Pad(counter))
                }
                70..=76 => {
                    let mut raw = gen::RawPad::from_pad(&gen::pad(&tr.owner, counter, &data, 0));
                    raw.signature = None;
                    (gen::pad_record(&raw.to_pad()), format!("unsigned#{counter}"), Contribution::Nothing)
                }
                77..=84 => {
                    let mut raw = gen::RawPad::from_pad(&gen::pad(&tr.owner, counter, &data, 0));
                    raw.sign(&other);
                    (gen::pad_record(&raw.to_pad()), format!("signed-by-other#{counter}"), Contribution::Nothing)
                }
                85..=92 => {
                    let mut r = gen::pad_record(&gen::pad(&other, counter, &data, 0));
                    r.key = tr.key.clone();
                    (r, format!("other-owners-pad#{counter}"), Contribution::Nothing)
                }
                _ => {
                    let mut raw = gen::RawPad::from_pad(&gen::pad(&tr.owner, counter, &data, 0));
                    raw.encrypted_data = bytes::Bytes::from(gen::bytes_r(&mut cx.rng, 1, 50));
                    (gen::pad_record(&raw.to_pad()), format!("payload-swapped#{counter}"), Contribution::Nothing)
                }
            }
        }
        Kind::Reg => {
            let base = tr.reg.clone().expect("register replica");
            let addr = *base.address();
            match cx.rng.gen_range(0..10) {
                0..=5 => {
                    let mut r = base.clone();
                    let mut good = BTreeSet::new();
                    for _ in 0..cx.rng.gen_range(1..=2) {
                        let op = gen::reg_op(addr, gen::bytes_r(&mut cx.rng, 1, 40), BTreeSet::new(), &tr.owner);
                        if r.add_op(op.clone()).is_ok() {
                            good.insert(op);
                        }
                    }
                    tr.valid_ops.extend(good.iter().cloned());
                    // the client's replica moves on only sometimes: later deliveries are then siblings of this one
                    if cx.rng.gen_bool(0.6) {
                        tr.reg = Some(r.clone());
                    }
                    (gen::reg_record(&r), format!("reg[+{}]", good.len()), Contribution::Ops(r.ops().clone()))
                }
                6..=7 => {
                    // a replica carrying an operation by somebody who may not write (owner-only register)
                    let bad = gen::reg_op(addr, vec![6, 6, 6], BTreeSet::new(), &other);
                    let mut ops: BTreeSet<RegisterOp> = base.ops().clone();
                    ops.insert(bad);
                    let sig = tr.owner.sign(base.base_register().bytes().expect("bytes"));
                    (gen::reg_record(&SignedRegister::new(base.base_register().clone(), sig, ops)), "reg[unauthorised-op]".into(), Contribution::Nothing)
                }
                8 => {
                    // an old replica again (stale)
                    (gen::reg_record(&base), "reg[stale]".into(), Contribution::Ops(base.ops().clone()))
                }
                _ => {
                    // a register of another base under this key
                    let o = gen::register(&tr.owner, XorName(cx.rng.gen()), Permissions::new_anyone_can_write());
                    let mut r = gen::reg_record(&o);
                    r.key = tr.key.clone();
                    (r, "reg[other-base]".into(), Contribution::Nothing)
                }
            }
        }
        _ => {
            // a further transaction of the owner, paid to the target (or forged / of another owner: never to be held)
            let n = net.nodes.len();
            let variant = cx.rng.gen_range(0..10);
            let (tx, label, good) = match variant {
                0..=6 => (gen::transaction(&mut cx.rng, &tr.owner), "tx[valid]", true),
                7..=8 => {
                    let mut t = gen::transaction(&mut cx.rng, &tr.owner);
                    t.content[0] ^= 1;
                    (t, "tx[forged]", false)
                }
                _ => (tr.valid_txs.iter().next().cloned().unwrap_or_else(|| gen::transaction(&mut cx.rng, &tr.owner)), "tx[duplicate]", true),
            };
            let env = PayEnv { node_kp: net.nodes[target].kp.clone(), close: (0..n).filter(|j| *j != target).map(|j| net.nodes[j].kp.clone()).collect(), stranger: stranger.clone() };
            let proof = build_proof(&mut cx.rng, &env, *tx.address().xorname(), 3, Conds::all(), &net.stub);
            let rec = gen::record(tr.key.clone(), try_serialize_record(&(proof, tx.clone()), RecordKind::TransactionWithPayment).expect("ser").to_vec());
            if good {
                tr.valid_txs.insert(tx.clone());
                (rec, label.into(), Contribution::Txs([tx].into_iter().collect()))
            } else {
                (rec, label.into(), Contribution::Nothing)
            }
        }
    }
}

fn c07_inner(cx: &mut Cx, net: &mut RealNet, n: usize) -> Option<()> {
    let stranger = gen::ed_keypair(&mut cx.rng);
    let mut kinds = vec![Kind::Pad, Kind::Reg, Kind::Tx];
    kinds.push(*[Kind::Pad, Kind::Reg, Kind::Tx].choose(&mut cx.rng).expect("nonempty"));
    let items: Vec<Mutable> = kinds.iter().map(|k| make_mutable(&mut cx.rng, *k)).collect();
    macro_rules! harness {
        ($e:expr) => {
            match $e {
                Ok(v) => v,
                Err(e) => {
                    cx.count("realnet:abandoned:harness-error");
                    cx.log(e);
                    return None;
                }
            }
        };
    }
    // ---- creation: paid uploads to one of the three closest nodes
    let mut tracks: Vec<Track> = vec![];
    for it in &items {
        let order = net.by_closeness(&it.key);
        let target = order[cx.rng.gen_range(0..3)];
        match upload_valid(cx, net, it, target, &stranger) {
            Ok(()) => {}
            Err(e) if e == "WATCHDOG" => {
                cx.count("realnet:abandoned:put-watchdog");
                return None;
            }
            Err(e) => cx.log(format!("paid upload answered {e}")),
        }
        if !harness!(wait_held(net, target, &it.key)) {
            cx.count("realnet:abandoned:upload-not-visible-at-its-target");
            return None;
        }
        let h0 = held(it.kind, Some(it.first.clone()));
        let mut tr = Track { kind: it.kind, key: it.key.clone(), owner: it.owner.clone(), valid_pads: vec![], valid_txs: BTreeSet::new(), valid_ops: BTreeSet::new(), reg: None, next_counter: 0 };
        match &h0 {
            Held::Pad(c, v) => {
                tr.valid_pads.push((*c, v.clone()));
                tr.next_counter = *c;
            }
            Held::Txs(s) => tr.valid_txs = s.clone(),
            Held::Reg(s) => {
                tr.valid_ops = s.clone();
                tr.reg = try_deserialize_record::<SignedRegister>(&it.first).ok();
            }
            _ => {}
        }
        tracks.push(tr);
    }
    settle(cx, net)?;
    let sample = |net: &RealNet, tracks: &Vec<Track>| -> Result<Vec<Vec<Held>>, String> {
        let mut out = vec![];
        for tr in tracks {
            let mut row = vec![];
            for i in 0..n {
                row.push(if net.nodes[i].net.is_some() { held(tr.kind, net.local(i, &tr.key)?) } else { Held::None });
            }
            out.push(row);
        }
        Ok(out)
    };
    let mut last = harness!(sample(net, &tracks));
    let rounds = cx.rng.gen_range(4..=8);
    let restart_after = if cx.rng.gen_bool(0.33) { Some(cx.rng.gen_range(1..rounds)) } else { None };
    let mut labels: Vec<String> = vec![];
    let (mut saw_stale_or_invalid, mut saw_concurrent) = (false, false);
    for round in 0..rounds {
        let k = cx.rng.gen_range(0..tracks.len());
        let holders: Vec<usize> = (0..n).filter(|i| last[k][*i] != Held::None).collect();
        if holders.is_empty() {
            cx.count("realnet:c07:key-held-nowhere");
            continue;
        }
        #[derive(PartialEq, Clone, Copy, Debug)]
        enum Mode {
            Single,
            Concurrent,
            Replication,
        }
        let mode = match cx.rng.gen_range(0..100) {
            0..=54 => Mode::Single,
            55..=84 => Mode::Concurrent,
            _ => Mode::Replication,
        };
        // A shortfall after deliveries that overlapped in time on one key is the recorded per-key read-check-write race
        // (known finding). Deliveries overlap when several are sent at once, and may overlap when the holders of the key
        // held different versions before the round (a real replication timer may then bring another version while the
        // single delivery is being validated). Everything else is a fresh signature.
        let diverged = holders.iter().any(|i| last[k][*i] != last[k][holders[0]]);
        let tag = if mode == Mode::Single && !diverged { "" } else { C07_TAG };
        // (record, destination, contribution, target)
        let mut sends: Vec<(Record, Option<Vec<PeerId>>, Contribution, usize, String)> = vec![];
        if mode != Mode::Replication {
            let count = if mode == Mode::Single { 1 } else { cx.rng.gen_range(2..=3) };
            for _ in 0..count {
                let target = *holders.choose(&mut cx.rng).expect("nonempty");
                let (rec, label, contrib) = c07_delivery(cx, net, &mut tracks[k], target, &stranger);
                if matches!(contrib, Contribution::Nothing) || label.contains("stale") || label.contains("duplicate") {
                    saw_stale_or_invalid = true;
                }
                // transactions carry a payment for their target; the others go to one holder or to every close node
                let to = if tracks[k].kind == Kind::Tx || cx.rng.gen_bool(0.7) { Some(vec![net.nodes[target].peer]) } else { None };
                cx.count(&format!("realnet:c07:deliveries:{:?}", tracks[k].kind));
                labels.push(format!("{round}:{mode:?}:{label}"));
                sends.push((rec, to, contrib, target, label));
            }
            let client = net.client.clone();
            let ups: Vec<(Record, Option<Vec<PeerId>>)> = sends.iter().map(|s| (s.0.clone(), s.1.clone())).collect();
            let results: Vec<Result<(), String>> = net.ctl.block_on(async move {
                let mut hs = vec![];
                for (rec, to) in ups {
                    let c = client.clone();
                    hs.push(tokio::spawn(async move {
                        let cfg = ant_networking::PutRecordCfg { put_quorum: Quorum::One, retry_strategy: None, use_put_record_to: to, verification: None };
                        match tokio::time::timeout(crate::e2e::OP_TIMEOUT, c.put_record(rec, &cfg)).await {
                            Ok(r) => r.map_err(|e| format!("{e:?}")),
                            Err(_) => Err("WATCHDOG".into()),
                        }
                    }));
                }
                let mut out = vec![];
                for h in hs {
                    out.push(h.await.unwrap_or_else(|e| Err(format!("join: {e}"))));
                }
                out
            });
            if results.iter().any(|r| matches!(r, Err(e) if e == "WATCHDOG")) {
                cx.count("realnet:abandoned:put-watchdog");
                return None;
            }
            cx.count(&format!("realnet:c07:rounds:{mode:?}"));
            if mode == Mode::Concurrent {
                saw_concurrent = true;
            }
        } else {
            let mut order: Vec<usize> = (0..n).filter(|i| net.nodes[*i].net.is_some()).collect();
            order.shuffle(&mut cx.rng);
            for i in order {
                harness!(net.trigger_replication(i));
            }
            cx.count("realnet:c07:rounds:Replication");
        }
        settle(cx, net)?;
        let mut now = harness!(sample(net, &tracks));
        // ---- progress (single deliveries to a node that held the key): judged only when the shortfall persists over
        // three further quiescent samples
        let short_of = |have: &Held, c: &Contribution| -> bool {
            match (have, c) {
                (_, Contribution::Nothing) => false,
                (Held::Pad(hc, _), Contribution::Pad(c)) => hc < c,
                (Held::Txs(h), Contribution::Txs(t)) => !t.is_subset(h),
                (Held::Reg(h), Contribution::Ops(o)) => !o.is_subset(h),
                _ => true,
            }
        };
        for (_, to, contrib, target, label) in &sends {
            if to.is_none() || last[k][*target] == Held::None {
                continue;
            }
            let mut tries = 0;
            while short_of(&now[k][*target], contrib) && tries < 3 {
                tries += 1;
                std::thread::sleep(Duration::from_secs(1));
                settle(cx, net)?;
                now = harness!(sample(net, &tracks));
            }
            cx.eval();
            if short_of(&now[k][*target], contrib) {
                let base = match tracks[k].kind {
                    Kind::Pad => "scratchpad-update-lost",
                    Kind::Tx => "transaction-lost",
                    _ => "register-op-lost",
                };
                let sig = if tag.is_empty() { format!("realnet:{base}") } else { format!("{base}{tag}") };
                if !tag.is_empty() {
                    cx.count("realnet:c07:shortfall-after-overlapping-deliveries(the-recorded-race-on-real-interleavings)");
                }
                cx.violation(sig, format!("{label} was sent to node {target}, which held {} before; four quiescent samples later it holds {}", short(&last[k][*target]), short(&now[k][*target])), json!({"nodes": n, "round": round, "mode": format!("{mode:?}"), "labels": labels}));
            } else {
                cx.count("realnet:c07:deliveries-reflected-at-their-holder");
            }
        }
        // ---- safety on every node and key
        // (a copy read back at quiescence can never be undercut by the race: every later validation reads at least it)
        for (kk, tr) in tracks.iter().enumerate() {
            for i in 0..n {
                if net.nodes[i].net.is_none() {
                    continue;
                }
                cx.eval();
                let w = json!({"nodes": n, "round": round, "node": i, "mode": format!("{mode:?}"), "kind": format!("{:?}", tr.kind), "labels": labels});
                match (&now[kk][i], &last[kk][i]) {
                    (Held::Unreadable, _) => cx.violation("realnet:stored-mutable-record-undecodable", format!("node {i}"), w),
                    (Held::Pad(c, v), prev) => {
                        if !tr.valid_pads.iter().any(|(_, pv)| pv == v) {
                            cx.violation("realnet:stored-scratchpad-not-owner-signed", format!("node {i} holds a scratchpad (counter {c}) that is none of the validly signed versions handed out"), w.clone());
                        }
                        if let Held::Pad(pc, pv) = prev {
                            if c < pc {
                                cx.violation("realnet:scratchpad-counter-regressed", format!("node {i}: stored counter went from {pc} to {c}"), w);
                            } else if c == pc && v != pv {
                                cx.violation("realnet:scratchpad-replaced-at-equal-counter", format!("node {i}: the stored scratchpad changed while its counter stayed {c}"), w);
                            }
                        }
                    }
                    (Held::Txs(s), prev) => {
                        if !s.is_subset(&tr.valid_txs) {
                            cx.violation("realnet:invalid-or-foreign-transaction-stored", format!("node {i} holds a transaction that is not a validly signed one of the owner"), w.clone());
                        }
                        if crate::c09::tx_duplicates(&net.local(i, &tr.key).ok().flatten()) {
                            cx.violation("realnet:transaction-listed-twice", format!("node {i}"), w.clone());
                        }
                        if let Held::Txs(p) = prev {
                            if !p.is_subset(s) {
                                cx.violation("realnet:transaction-set-shrank", format!("node {i}: {} -> {} transactions, losing some", p.len(), s.len()), w);
                            }
                        }
                    }
                    (Held::Reg(s), prev) => {
                        if !s.is_subset(&tr.valid_ops) {
                            cx.violation("realnet:inadmissible-register-op-stored", format!("node {i} holds a register operation that is not a permitted one handed out for it"), w.clone());
                        }
                        if let Held::Reg(p) = prev {
                            if !p.is_subset(s) {
                                cx.violation("realnet:register-ops-shrank", format!("node {i}: {} -> {} operations, losing some", p.len(), s.len()), w);
                            }
                        }
                    }
                    (Held::None, prev) if *prev != Held::None => cx.count("realnet:c07:record-no-longer-held"),
                    _ => {}
                }
            }
        }
        last = now;
        // ---- a node holding something is torn down at quiescence and restarted over its directory
        if restart_after == Some(round) {
            let cands: Vec<usize> = (0..n).filter(|i| last.iter().any(|row| row[*i] != Held::None)).collect();
            if let Some(victim) = cands.choose(&mut cx.rng).cloned() {
                net.crash(victim);
                if let Err(e) = net.restart(victim, FORM_WATCHDOG) {
                    cx.count("realnet:abandoned:restart");
                    cx.log(e);
                    return None;
                }
                if !net.wait_formed(Instant::now() + FORM_WATCHDOG) {
                    cx.count("realnet:abandoned:formation");
                    return None;
                }
                settle(cx, net)?;
                let after = harness!(sample(net, &tracks));
                for (kk, tr) in tracks.iter().enumerate() {
                    cx.eval();
                    let w = json!({"nodes": n, "round": round, "node": victim, "kind": format!("{:?}", tr.kind), "labels": labels});
                    // whatever joins through replication after the restart can only add
                    let ok = match (&last[kk][victim], &after[kk][victim]) {
                        (Held::None, _) => true,
                        (Held::Pad(pc, pv), Held::Pad(c, v)) => c > pc || (c == pc && v == pv),
                        (Held::Txs(p), Held::Txs(s)) => p.is_subset(s),
                        (Held::Reg(p), Held::Reg(s)) => p.is_subset(s),
                        _ => false,
                    };
                    if !ok {
                        cx.violation("realnet:stored-version-differs-after-restart", format!("node {victim} held {} before it was stopped at quiescence and serves {} after the restart", short(&last[kk][victim]), short(&after[kk][victim])), w);
                    }
                }
                cx.count("realnet:c07:holder-restarted-at-quiescence");
                last = after;
            }
        }
    }
    if saw_stale_or_invalid && saw_concurrent {
        cx.nontrivial(&("c07-realnet", cx.index, n, labels.join("|")));
    }
    cx.sample(json!({"lane": "real network", "nodes": n, "keys": tracks.len(), "rounds": labels}));
    Some(())
}

// ------------------------------------------------------------------------------------------------------------------
/// C01 on a real event loop: one node whose driver runs its own `SwarmDriver::run` loop on a multi-thread runtime, so the
/// store's spawned disk tasks really run in parallel (the controlled C01 cases release them one at a time). Bursts of
/// puts for *different* keys (the statement's independence clause), every burst settled before the next; afterwards each
/// key must read back exactly, also once it has left the read cache, and again after the node was stopped and restarted.
pub fn c01_case(cx: &mut Cx) {
    let Some(mut net) = start(cx, "c01r", &[false]) else { return };
    if c01_inner(cx, &mut net).is_none() {
        cx.count("realnet:cases-abandoned");
    }
    net.shutdown();
}

fn c01_inner(cx: &mut Cx, net: &mut RealNet) -> Option<()> {
    macro_rules! harness {
        ($e:expr) => {
            match $e {
                Ok(v) => v,
                Err(e) => {
                    cx.count("realnet:abandoned:harness-error");
                    cx.log(e);
                    return None;
                }
            }
        };
    }
    // key -> (bytes of the latest accepted put, expected listed type when it is version-bearing)
    let mut model: BTreeMap<Vec<u8>, Vec<u8>> = BTreeMap::new();
    let mut pads: Vec<(bls::SecretKey, u64)> = vec![];
    let bursts = cx.rng.gen_range(2..=4);
    let mut total_puts = 0u64;
    let mut read_ok: BTreeSet<Vec<u8>> = BTreeSet::new();
    for burst in 0..bursts {
        let count = cx.rng.gen_range(30..=90);
        let mut batch: Vec<Record> = vec![];
        let mut in_batch: BTreeSet<Vec<u8>> = BTreeSet::new();
        for _ in 0..count {
            let rec = match cx.rng.gen_range(0..10) {
                // overwrite of an earlier scratchpad with a later version (never two puts of one key in one burst)
                0..=2 if !pads.is_empty() => {
                    let i = cx.rng.gen_range(0..pads.len());
                    pads[i].1 += 1;
                    let n = cx.rng.gen_range(0..3000);
                    gen::pad_record(&gen::pad(&pads[i].0, pads[i].1, &gen::bytes(&mut cx.rng, n), 0))
                }
                3..=5 => {
                    let owner = gen::bls_sk(&mut cx.rng);
                    let n = cx.rng.gen_range(0..3000);
                    let r = gen::pad_record(&gen::pad(&owner, 1, &gen::bytes(&mut cx.rng, n), 0));
                    pads.push((owner, 1));
                    r
                }
                _ => {
                    let size = *[1usize, 200, 4_000, 60_000, 300_000, 900_000].choose(&mut cx.rng).expect("nonempty");
                    gen::chunk_record(&gen::chunk(&mut cx.rng, size))
                }
            };
            if in_batch.insert(rec.key.to_vec()) {
                batch.push(rec);
            }
        }
        {
            let node = harness!(net.net_of(0));
            let _g = net.ctl.enter();
            for rec in &batch {
                node.put_local_record(rec.clone());
                model.insert(rec.key.to_vec(), rec.value.clone());
            }
        }
        total_puts += batch.len() as u64;
        cx.count_n("realnet:c01:puts-in-parallel-bursts", batch.len() as u64);
        // settled = the listing did not change over three samples (each a round trip through the node's event loop);
        // keys still missing then are given a further 20 s during which nothing may be pending anywhere
        let wanted = |listing: &BTreeMap<Vec<u8>, ant_protocol::storage::RecordType>| -> Vec<Vec<u8>> {
            model
                .iter()
                .filter(|(k, v)| match listing.get(*k) {
                    None => true,
                    Some(ant_protocol::storage::RecordType::NonChunk(h)) => *h != XorName::from_content(v),
                    Some(_) => false,
                })
                .map(|(k, _)| k.clone())
                .collect()
        };
        let t0 = Instant::now();
        let mut prev: Option<BTreeMap<Vec<u8>, ant_protocol::storage::RecordType>> = None;
        let mut stable = 0;
        let mut stable_since: Option<Instant> = None;
        let missing = loop {
            let listing = harness!(net.addresses(0));
            let miss = wanted(&listing);
            if miss.is_empty() {
                break miss;
            }
            if prev.as_ref() == Some(&listing) {
                stable += 1;
                if stable >= 3 && stable_since.is_none() {
                    stable_since = Some(Instant::now());
                }
            } else {
                stable = 0;
                stable_since = None;
            }
            if let Some(s) = stable_since {
                if s.elapsed() > Duration::from_secs(20) {
                    break miss;
                }
            }
            if t0.elapsed() > Duration::from_secs(180) {
                cx.count("realnet:abandoned:settle-watchdog");
                return None;
            }
            prev = Some(listing);
            std::thread::sleep(Duration::from_millis(100));
        };
        let w = json!({"burst": burst, "puts_in_burst": batch.len(), "keys_so_far": model.len()});
        for k in missing.iter().take(3) {
            cx.violation("realnet:accepted-write-not-listed-correctly", format!("a record put in a burst of {} parallel writes is still not listed (with its version) 20 s after the store went quiet; key {}", batch.len(), hex(&k[..k.len().min(8)])), w.clone());
        }
        // every key ever put reads back as its latest bytes (most of them from the disk: the cache holds the last few)
        for (k, v) in &model {
            cx.eval();
            read_ok.remove(k);
            match harness!(net.local(0, &RecordKey::from(k.clone()))) {
                Some(r) if r.value == *v => {
                    read_ok.insert(k.clone());
                }
                Some(r) => {
                    let whose = model.iter().find(|(_, ov)| **ov == r.value).map(|(ok, _)| hex(&ok[..ok.len().min(8)]));
                    cx.violation("realnet:wrong-bytes-after-settle", format!("key {} serves {} bytes that are not its latest record{}", hex(&k[..k.len().min(8)]), r.value.len(), whose.map(|o| format!(" (they are the record of key {o})")).unwrap_or_default()), w.clone());
                }
                None if missing.contains(k) => {}
                None => cx.violation("realnet:accepted-write-unreadable-after-settle", format!("key {} is listed but cannot be read back after a burst of {} parallel writes", hex(&k[..k.len().min(8)]), batch.len()), w.clone()),
            }
        }
    }
    // ---- stop at quiescence, restart over the directory, read everything again
    if cx.rng.gen_bool(0.6) {
        net.crash(0);
        if let Err(e) = net.restart(0, FORM_WATCHDOG) {
            cx.count("realnet:abandoned:restart");
            cx.log(e);
            return None;
        }
        for (k, v) in model.iter().filter(|(k, _)| read_ok.contains(*k)) {
            cx.eval();
            match harness!(net.local(0, &RecordKey::from(k.clone()))) {
                Some(r) if r.value == *v => {}
                Some(r) => cx.violation("realnet:wrong-bytes-after-restart", format!("key {} serves {} other bytes after the restart", hex(&k[..k.len().min(8)]), r.value.len()), json!({"keys": model.len()})),
                None => cx.violation("realnet:settled-write-lost-after-restart", format!("key {} was readable before the node was stopped at quiescence and is gone after the restart", hex(&k[..k.len().min(8)])), json!({"keys": model.len()})),
            }
        }
        cx.count("realnet:c01:restarted-and-read-again");
    }
    cx.nontrivial(&("c01-realnet", cx.index, total_puts));
    cx.sample(json!({"lane": "real event loop, parallel disk tasks", "bursts": bursts, "puts": total_puts, "keys": model.len()}));
    Some(())
}
