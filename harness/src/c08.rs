//! C08 — replication fetching is bounded, duplicate-free, in-range and makes progress.
//!
//! Drives the real `ReplicationFetcher` (through the guarded wrapper) with random traces of
//! advertisements, completions, range/fullness updates and virtual-time steps, and checks every
//! step against a shadow model built only from returned lists, queue snapshots and emitted events.

use crate::common::*;
use crate::refmetric::*;
use ant_networking::verif::{VerifFetcher, VerifFetcherSnapshot};
use ant_networking::NetworkEvent;
use ant_protocol::{storage::RecordType, NetworkAddress};
use libp2p::{kad::RecordKey, PeerId};
use rand::{seq::SliceRandom, Rng};
use serde_json::json;
use std::collections::{BTreeSet, HashMap, HashSet};
use std::time::Duration;
use xor_name::XorName;

pub struct C08;

const MAX: usize = VerifFetcher::MAX_PARALLEL_FETCH;
const FETCH_TIMEOUT_S: u64 = 20;

type Ent = (RecordKey, RecordType);

#[derive(Clone, Debug)]
enum Call {
    Ad { holder: usize, keys: Vec<(usize, RecordType)> },
    /// a record is stored locally as `ty`; `arrival_of` = the in-flight version whose fetch brought it (a fetched
    /// register / transaction set is merged with the local one and stored under the hash of the merge)
    Put { key: usize, ty: RecordType, arrival_of: Option<RecordType> },
    Early { key: usize, ty: RecordType },
    Next,
    SetRange(D32),
    SetFarthest(Option<usize>),
    Age(u64),
}

struct World {
    me: PeerId,
    holders: Vec<PeerId>,
    keys: Vec<RecordKey>,
    dist: Vec<D32>,
    /// versions available per key (what holders may advertise)
    versions: Vec<Vec<RecordType>>,
    store: HashMap<RecordKey, (NetworkAddress, RecordType)>,
    range: Option<D32>,
    farthest_latest: Option<D32>,
    farthest_min: Option<D32>,
    now_s: u64,
    /// shadow of in-flight entries: (key,type) -> (holder, issued_at, from_single_key_ad)
    inflight: HashMap<Ent, (PeerId, u64, bool)>,
}

impl World {
    /// in-flight shadow entries in a deterministic order (HashMap iteration order is random)
    fn inflight_sorted(&self) -> Vec<Ent> {
        let mut v: Vec<Ent> = self.inflight.keys().cloned().collect();
        v.sort_by_key(|e| (self.idx(&e.0), ty_str(&e.1)));
        v
    }
    fn idx(&self, k: &RecordKey) -> usize {
        self.keys.iter().position(|x| x == k).expect("key of the universe")
    }
    fn d(&self, k: &RecordKey) -> D32 {
        self.dist[self.idx(k)]
    }
}

fn ty_str(t: &RecordType) -> String {
    match t {
        RecordType::Chunk => "chunk".into(),
        RecordType::Scratchpad => "pad".into(),
        RecordType::NonChunk(x) => format!("v{}", &hex(&x.0)[..4]),
    }
}

fn call_json(w: &World, c: &Call) -> serde_json::Value {
    match c {
        Call::Ad { holder, keys } => json!({"ad": {"holder": holder, "keys": keys.iter().map(|(k, t)| format!("k{k}:{}", ty_str(t))).collect::<Vec<_>>()}}),
        Call::Put { key, ty, arrival_of } => json!({"put": format!("k{key}:{}", ty_str(ty)), "arrival_of_fetched_version": arrival_of.as_ref().map(ty_str)}),
        Call::Early { key, ty } => json!({"early_completed": format!("k{key}:{}", ty_str(ty))}),
        Call::Next => json!("next_keys_to_fetch"),
        Call::SetRange(r) => json!({"set_range": short_hex(r)}),
        Call::SetFarthest(k) => json!({"set_farthest_on_full": k.map(|k| format!("k{k} d={}", short_hex(&w.dist[k])))}),
        Call::Age(s) => json!({"advance_s": s}),
    }
}

fn snap_sets(s: &VerifFetcherSnapshot) -> (HashMap<Ent, PeerId>, HashSet<(RecordKey, RecordType, PeerId)>) {
    let inflight = s.on_going_fetches.iter().map(|(k, t, h, _)| ((k.clone(), t.clone()), *h)).collect();
    let pending = s.to_be_fetched.iter().map(|(k, t, h, _)| (k.clone(), t.clone(), *h)).collect();
    (inflight, pending)
}

struct Runner<'a, 'b> {
    cx: &'a mut Cx<'b>,
    rt: tokio::runtime::Runtime,
    f: VerifFetcher,
    rx: tokio::sync::mpsc::Receiver<NetworkEvent>,
    w: World,
    trace: Vec<serde_json::Value>,
    batch_calls: u64,
    /// back-pressure mode: the event channel holds one event and is not drained after every call
    hold: bool,
    /// per call that noticed time-outs while in back-pressure mode: the holders that must be reported
    owed: Vec<BTreeSet<PeerId>>,
    /// a second fetcher of ANOTHER node living in the same process (several nodes of one process, or a node re-created
    /// under a new identity): it hears every advertisement first and schedules first; nothing it does may show in `f`
    neigh: Option<(VerifFetcher, tokio::sync::mpsc::Receiver<NetworkEvent>)>,
}

impl Runner<'_, '_> {
    /// back-pressure mode: collect every event the fetcher still owes (its senders wait for room in the channel)
    /// and compare with the time-outs noticed, call by call
    fn settle_owed(&mut self) {
        if !self.hold {
            return;
        }
        let mut got: Vec<BTreeSet<PeerId>> = vec![];
        for _ in 0..(self.owed.len() + 4) {
            self.rt.block_on(async {
                for _ in 0..4 {
                    tokio::task::yield_now().await;
                }
            });
            let mut any = false;
            while let Ok(ev) = self.rx.try_recv() {
                any = true;
                if let NetworkEvent::FailedToFetchHolders(h) = ev {
                    got.push(h.into_iter().collect());
                }
            }
            if !any {
                break;
            }
        }
        self.cx.count_n("back-pressure:reports-owed", self.owed.len() as u64);
        let owed = std::mem::take(&mut self.owed);
        for (i, want) in owed.iter().enumerate() {
            self.cx.eval();
            let ok = got.get(i).map(|g| want.is_subset(g)).unwrap_or(false) || got.iter().any(|g| want.is_subset(g)) && got.len() >= owed.len();
            if !ok {
                self.viol("timed-out-holder-not-reported:event-channel-was-full", format!("{} calls noticed timed-out fetches while the event channel was full; {} reports arrived once it was drained (report {} of {:?} is missing)", owed.len(), got.len(), i, want.len()));
                break;
            }
        }
    }

    fn viol(&mut self, sig: &str, detail: String) {
        let n = self.trace.len();
        let tail: Vec<_> = self.trace[n.saturating_sub(25)..].to_vec();
        self.cx.violation(sig, detail, json!({"trace_tail": tail, "steps": n}));
    }

    /// Execute one call against the real fetcher and judge it.
    fn step(&mut self, call: Call) -> Vec<(PeerId, RecordKey)> {
        self.trace.push(call_json(&self.w, &call));
        let pre = self.f.snapshot();
        let (pre_in, pre_pend) = snap_sets(&pre);
        let mut prunes = true;
        let ret: Vec<(PeerId, RecordKey)> = match &call {
            Call::Ad { holder, keys } => {
                let incoming: Vec<(NetworkAddress, RecordType)> =
                    keys.iter().map(|(k, t)| (NetworkAddress::from_record_key(&self.w.keys[*k]), t.clone())).collect();
                if let Some((n, _)) = self.neigh.as_mut() {
                    let _ = n.add_keys(self.w.holders[*holder], incoming.clone(), &HashMap::new());
                }
                self.f.add_keys(self.w.holders[*holder], incoming, &self.w.store)
            }
            Call::Put { key, ty, .. } => {
                let k = self.w.keys[*key].clone();
                self.w.store.insert(k.clone(), (NetworkAddress::from_record_key(&k), ty.clone()));
                self.f.notify_about_new_put(k, ty.clone())
            }
            Call::Early { key, ty } => self.f.notify_fetch_early_completed(self.w.keys[*key].clone(), ty.clone()),
            Call::Next => {
                if let Some((n, _)) = self.neigh.as_mut() {
                    let _ = n.next_keys_to_fetch();
                }
                self.f.next_keys_to_fetch()
            }
            Call::SetRange(r) => {
                self.f.set_replication_distance_range(to_u256(r));
                self.w.range = Some(*r);
                prunes = false;
                vec![]
            }
            Call::SetFarthest(k) => {
                self.f.set_farthest_on_full(k.map(|k| self.w.keys[k].clone()));
                if let Some(k) = k {
                    self.w.farthest_latest = Some(self.w.dist[*k]);
                    self.w.farthest_min = Some(self.w.farthest_min.map(|m| m.min(self.w.dist[*k])).unwrap_or(self.w.dist[*k]));
                }
                prunes = false;
                vec![]
            }
            Call::Age(s) => {
                self.f.age(Duration::from_secs(*s));
                self.w.now_s += s;
                prunes = false;
                vec![]
            }
        };
        // let the fetcher's spawned event-sending tasks run, then collect events
        self.rt.block_on(async {
            for _ in 0..3 {
                tokio::task::yield_now().await;
            }
        });
        let mut failed_holders: BTreeSet<PeerId> = BTreeSet::new();
        if !self.hold {
            while let Ok(ev) = self.rx.try_recv() {
                if let NetworkEvent::FailedToFetchHolders(h) = ev {
                    failed_holders.extend(h);
                }
            }
        }
        let mut owed_now: BTreeSet<PeerId> = BTreeSet::new();
        let post = self.f.snapshot();
        let (post_in, post_pend) = snap_sets(&post);
        self.cx.eval();
        if self.cx.verbose {
            let fmt = |s: &VerifFetcherSnapshot| s.on_going_fetches.iter().map(|(k, t, _h, secs)| format!("k{}:{}@{}s", self.w.idx(k), ty_str(t), secs)).collect::<Vec<_>>().join(" ");
            eprintln!("step {} {} -> ret {} | now={} inflight[{}]: {} | pending {}", self.trace.len(), self.trace.last().map(|t| t.to_string()).unwrap_or_default().chars().take(120).collect::<String>(), ret.len(), self.w.now_s, post.on_going_fetches.len(), fmt(&post), post.to_be_fetched.len());
        }

        // legit removal reasons of this very call (besides time-out)
        let legit_removed = |e: &Ent| -> bool {
            match &call {
                Call::Put { key, .. } => self.w.keys[*key] == e.0,
                Call::Early { key, ty } => self.w.keys[*key] == e.0 && *ty == e.1,
                Call::Ad { .. } => self.w.store.get(&e.0).map(|(_, t)| *t == e.1).unwrap_or(false),
                _ => false,
            }
        };
        let returned: Vec<(PeerId, RecordKey)> = ret.clone();
        let (ad_holder, ad_raw_len, ad_keys): (Option<PeerId>, usize, Vec<Ent>) = match &call {
            Call::Ad { holder, keys } => (
                Some(self.w.holders[*holder]),
                keys.len(),
                keys.iter().map(|(k, t)| (self.w.keys[*k].clone(), t.clone())).collect(),
            ),
            _ => (None, 0, vec![]),
        };

        // new in-flight entries: not in pre, or re-issued (in pre, but returned again for that holder)
        let mut new_inflight: Vec<(Ent, PeerId)> = vec![];
        for (e, h) in &post_in {
            let in_pre = pre_in.get(e);
            let reissued = returned.iter().any(|(rh, rk)| rh == h && *rk == e.0);
            if in_pre.is_none() || (reissued && (in_pre != Some(h) || legit_removed(e) || self.w.inflight.get(e).map(|(_, t0, _)| self.w.now_s - t0 >= FETCH_TIMEOUT_S).unwrap_or(false))) {
                new_inflight.push((e.clone(), *h));
            }
        }
        let mut viols: Vec<(&'static str, String)> = vec![];

        // B. every returned fetch is tracked in flight
        for (h, k) in &returned {
            if !post_in.iter().any(|(e, ph)| e.0 == *k && ph == h) {
                viols.push(("untracked-fetch", format!("returned fetch of k{} from holder is not in the in-flight set afterwards", self.w.idx(k))));
            }
        }
        // C. duplicate fetch of a record version that is already being fetched
        for (h, k) in &returned {
            for (e, _ph) in pre_in.iter().filter(|(e, _)| e.0 == *k) {
                let age = self.w.inflight.get(e).map(|(_, t0, _)| self.w.now_s - t0).unwrap_or(0);
                // the returned entry's type: if post has an entry for (k, other type, h) that is new, this pre entry is not the one
                let same_version_reissued = post_in.get(e) == Some(h) && !new_inflight.iter().any(|(ne, nh)| ne.0 == *k && ne.1 != e.1 && nh == h);
                if same_version_reissued && age < FETCH_TIMEOUT_S - 1 && !legit_removed(e) {
                    viols.push(("duplicate-fetch", format!("k{}:{} was already in flight (age {age}s) and is fetched again", self.w.idx(k), ty_str(&e.1))));
                }
            }
        }
        // D. only records not already held (same version)
        for (e, _) in &new_inflight {
            if self.w.store.get(&e.0).map(|(_, t)| *t == e.1).unwrap_or(false) {
                viols.push(("fetch-of-held-record", format!("k{}:{} is held locally yet a fetch was scheduled", self.w.idx(&e.0), ty_str(&e.1))));
            }
        }
        // E. records admitted from a multi-key advertisement lie within the responsible distance
        if let (Some(h), true, Some(range)) = (ad_holder, ad_raw_len >= 2, self.w.range) {
            let admitted_now = post_pend
                .iter()
                .filter(|p| p.2 == h && !pre_pend.contains(*p))
                .map(|p| (p.0.clone(), p.1.clone()))
                .chain(new_inflight.iter().filter(|(e, nh)| *nh == h && ad_keys.contains(e) && !pre_pend.contains(&(e.0.clone(), e.1.clone(), h))).map(|(e, _)| e.clone()));
            for e in admitted_now {
                if self.w.d(&e.0) > range {
                    viols.push(("out-of-range-from-multi-key-ad", format!("k{} (d={}) admitted from a {}-key advertisement although range is {}", self.w.idx(&e.0), short_hex(&self.w.d(&e.0)), ad_raw_len, short_hex(&range))));
                }
            }
        }
        // F. once full, nothing farther than the farthest held record is fetched
        if let Some(bound) = self.w.farthest_latest {
            for (e, _) in &new_inflight {
                if self.w.d(&e.0) > bound {
                    viols.push(("fetch-beyond-farthest-when-full", format!("k{} (d={}) scheduled although the node is full with farthest record at {}", self.w.idx(&e.0), short_hex(&self.w.d(&e.0)), short_hex(&bound))));
                }
            }
        }
        // G/H. batch scheduling: cap and closest-first
        let single_ad_entry: Option<Ent> = if ad_raw_len == 1 { ad_keys.first().cloned() } else { None };
        let batch_new: Vec<&(Ent, PeerId)> = new_inflight.iter().filter(|(e, _)| Some(e) != single_ad_entry.as_ref()).collect();
        if !batch_new.is_empty() {
            self.batch_calls += 1;
            if post_in.len() > MAX {
                viols.push(("batch-exceeds-parallel-limit", format!("batch scheduling added {} fetches and left {} in flight (limit {MAX})", batch_new.len(), post_in.len())));
            }
            let eligible_min = post_pend.iter().filter(|p| !post_in.contains_key(&(p.0.clone(), p.1.clone()))).map(|p| self.w.d(&p.0)).min();
            let chosen_max = batch_new.iter().map(|(e, _)| self.w.d(&e.0)).max();
            if let (Some(emin), Some(cmax)) = (eligible_min, chosen_max) {
                if cmax > emin {
                    viols.push(("not-closest-first", format!("batch chose a record at d={} while an eligible pending record at d={} was left", short_hex(&cmax), short_hex(&emin))));
                }
            }
        }
        // I. arrival / completion removes the in-flight entry
        match &call {
            Call::Put { key, arrival_of: Some(fetched), ty } if fetched != ty => {
                // the fetched version arrived and was stored as a merge: its fetch is over
                let e = (self.w.keys[*key].clone(), fetched.clone());
                self.cx.count("arrivals-stored-as-a-merged-version");
                if pre_in.contains_key(&e) && post_in.get(&e) == pre_in.get(&e) && !returned.iter().any(|(_, k)| *k == e.0) {
                    viols.push(("arrived-record-still-in-flight:stored-as-a-merged-version", format!("the fetch of k{}:{} is still in flight after the fetched record arrived and was stored (merged) as {}", key, ty_str(fetched), ty_str(ty))));
                }
            }
            Call::Put { key, ty, .. } | Call::Early { key, ty } => {
                let e = (self.w.keys[*key].clone(), ty.clone());
                if pre_in.contains_key(&e) && post_in.contains_key(&e) && !returned.iter().any(|(_, k)| *k == e.0) {
                    viols.push((
                        if matches!(call, Call::Put { .. }) { "arrived-record-still-in-flight" } else { "completed-fetch-still-in-flight" },
                        format!("k{}:{} still in flight after its arrival/completion was notified", key, ty_str(ty)),
                    ));
                }
            }
            _ => {}
        }
        // J. time-outs
        if prunes {
            for (e, h) in &pre_in {
                let Some((sh, t0, _)) = self.w.inflight.get(e) else { continue };
                if sh != h || self.w.now_s - t0 < FETCH_TIMEOUT_S + 1 || legit_removed(e) {
                    continue;
                }
                self.cx.count("timeouts-observed");
                let reissued = returned.iter().any(|(_, rk)| *rk == e.0);
                if post_in.get(e) == Some(h) && !reissued {
                    viols.push(("timed-out-fetch-still-in-flight", format!("fetch of k{} from holder aged {}s is still in flight after a scheduling call", self.w.idx(&e.0), self.w.now_s - t0)));
                }
                if self.hold {
                    owed_now.insert(*h);
                } else if !failed_holders.contains(h) {
                    viols.push(("timed-out-holder-not-reported", format!("holder of the timed-out fetch of k{} was not reported", self.w.idx(&e.0))));
                }
                if post_pend.iter().any(|p| p.2 == *h) {
                    viols.push(("timed-out-holder-entries-still-queued", format!("queued entries of the timed-out holder of k{} remain", self.w.idx(&e.0))));
                }
            }
        }
        if !owed_now.is_empty() {
            self.owed.push(owed_now);
        }
        for (sig, d) in viols {
            self.viol(sig, d);
        }
        // update shadow
        let now = self.w.now_s;
        let mut next_shadow = HashMap::new();
        for (e, h) in &post_in {
            let is_new = new_inflight.iter().any(|(ne, nh)| ne == e && nh == h);
            let entry = if is_new || !self.w.inflight.contains_key(e) {
                (*h, now, Some(e) == single_ad_entry.as_ref())
            } else {
                self.w.inflight[e]
            };
            next_shadow.insert(e.clone(), entry);
        }
        self.w.inflight = next_shadow;
        ret
    }
}

impl Check for C08 {
    fn id(&self) -> &'static str {
        "C08"
    }
    fn rule(&self) -> String {
        format!(
            "each case = one trace of 120-260 calls on a fresh real ReplicationFetcher over a universe of 25-160 keys (chunk / scratchpad / multi-version records) and 2-5 holders: \
             multi-key and single-key advertisements (overlapping between holders, several versions of a key), arrivals, early completions, direct scheduling calls, range and full-node updates, \
             virtual-time steps of 1-25 s (and occasional 300-1000 s jumps) so the {FETCH_TIMEOUT_S}s fetch time-out and the 900 s pending time-out fire; every call is judged against the shadow model (10 oracle clauses); \
             each trace ends with a bounded-progress phase (a responsive holder re-advertising; target fetched within ceil(U/{MAX})+7 rounds). \
             A trace is non-trivial if it contained at least one batch scheduling step, one time-out and one range or full-node update; distinct = distinct call-sequence hashes."
        )
    }
    fn assumptions(&self) -> Vec<String> {
        vec![
            "virtual time is produced by shifting the fetcher's stored Instant deadlines (guarded hook); verdicts never use wall-clock time".into(),
            "the locally-stored map changes only through notified puts, as in SwarmDriver::handle_local_cmd(PutLocalRecord)".into(),
            "range membership is judged at admission time (the range in force when the advertisement was handled); distance == range is not judged".into(),
            "full-node bound is judged against the most recently reported farthest record (the code keeps the minimum, which is stricter)".into(),
            "liveness is restated as bounded progress: target fetched within ceil(U/MAX_PARALLEL_FETCH)+7 rounds of a fair loop with 5 s per round".into(),
        ]
    }
    fn cases(&self, tier: Tier) -> u64 {
        tier.pick(9_600, 40_000)
    }
    fn min_nontrivial(&self, tier: Tier) -> u64 {
        tier.pick(3_000, 10_000)
    }
    fn required_counters(&self, _tier: Tier) -> Vec<&'static str> {
        vec!["timeouts-observed", "progress-phases", "batch-steps", "single-key-ads", "multi-key-ads", "driver:advertisements", "driver:refusals-when-full", "driver:fetch-events-after-full", "driver:periodic-lists-with-one-missing-record", "back-pressure-traces", "back-pressure:reports-owed"]
    }
    fn run_case(&self, cx: &mut Cx) {
        // every 6th case drives the fetcher through its real callers in the SwarmDriver (Replicate handler,
        // PutLocalRecord handler) instead of calling it directly
        if cx.index % 6 == 5 {
            return driver_case(cx);
        }
        let rt = tokio::runtime::Builder::new_current_thread().enable_all().build().expect("rt");
        let me = PeerId::from(crate::c13::keypair(&mut cx.rng).public());
        let nh = cx.rng.gen_range(2..=5);
        let holders: Vec<PeerId> = (0..nh).map(|_| PeerId::from(crate::c13::keypair(&mut cx.rng).public())).collect();
        let nk = cx.rng.gen_range(25..=160);
        let keys: Vec<RecordKey> = (0..nk).map(|_| RecordKey::from(cx.rng.gen::<[u8; 32]>().to_vec())).collect();
        let dist: Vec<D32> = keys.iter().map(|k| ref_distance(&me.to_bytes(), k.as_ref())).collect();
        let versions: Vec<Vec<RecordType>> = (0..nk)
            .map(|_| match cx.rng.gen_range(0..10) {
                0..=4 => vec![RecordType::Chunk],
                5 => vec![RecordType::Scratchpad],
                _ => (0..cx.rng.gen_range(1..=3)).map(|_| RecordType::NonChunk(XorName(cx.rng.gen()))).collect(),
            })
            .collect();
        let _enter = rt.enter();
        // 15% of the traces run under back-pressure: an event channel of capacity 1 that the harness does not drain
        // after every call (the real event loop may be busy); no time-out report may get lost
        let hold = cx.rng.gen_bool(0.15);
        let (f, rx) = if hold { VerifFetcher::with_event_capacity(me, 1) } else { VerifFetcher::new(me) };
        if hold {
            cx.count("back-pressure-traces");
        }
        let w = World { me, holders, keys, dist, versions, store: HashMap::new(), range: None, farthest_latest: None, farthest_min: None, now_s: 0, inflight: HashMap::new() };
        let _ = w.me;
        let neigh = if cx.rng.gen_bool(0.3) {
            cx.count("traces-with-a-second-fetcher-in-the-process");
            Some(VerifFetcher::new(PeerId::random()))
        } else {
            None
        };
        let mut r = Runner { cx, rt, f, rx, w, trace: vec![], batch_calls: 0, hold, owed: vec![], neigh };

        // pre-populate the store with some keys
        for k in 0..nk {
            if r.cx.rng.gen_bool(0.15) {
                let t = r.w.versions[k].choose(&mut r.cx.rng).expect("nonempty").clone();
                let key = r.w.keys[k].clone();
                r.w.store.insert(key.clone(), (NetworkAddress::from_record_key(&key), t));
            }
        }
        let mut sorted: Vec<usize> = (0..nk).collect();
        sorted.sort_by_key(|i| r.w.dist[*i]);
        let steps = r.cx.rng.gen_range(120..=260);
        let (mut saw_timeout_step, mut saw_update) = (false, false);
        for _ in 0..steps {
            let roll = r.cx.rng.gen_range(0..100);
            let call = if roll < 30 {
                // multi-key advertisement
                let holder = r.cx.rng.gen_range(0..nh);
                let n = *[2usize, 2, 3, 5, 8, 15, 30, 60].choose(&mut r.cx.rng).expect("nonempty");
                let mut keys = vec![];
                let base = r.cx.rng.gen_range(0..nk);
                for j in 0..n.min(nk) {
                    // contiguous in distance order half of the time (like a real neighbour), random otherwise
                    let k = if r.cx.rng.gen_bool(0.5) { sorted[(base + j) % nk] } else { r.cx.rng.gen_range(0..nk) };
                    let t = r.w.versions[k].choose(&mut r.cx.rng).expect("nonempty").clone();
                    if !keys.iter().any(|(kk, tt)| *kk == k && *tt == t) {
                        keys.push((k, t));
                    }
                }
                r.cx.count("multi-key-ads");
                Call::Ad { holder, keys }
            } else if roll < 42 {
                let holder = r.cx.rng.gen_range(0..nh);
                let k = r.cx.rng.gen_range(0..nk);
                let t = r.w.versions[k].choose(&mut r.cx.rng).expect("nonempty").clone();
                r.cx.count("single-key-ads");
                Call::Ad { holder, keys: vec![(k, t)] }
            } else if roll < 62 {
                // a fetch completes: the record arrives and is stored
                let inflight: Vec<Ent> = r.w.inflight_sorted();
                if let Some(e) = inflight.choose(&mut r.cx.rng) {
                    let key = r.w.idx(&e.0);
                    // usually the fetched version, sometimes another version of the key
                    let ty = if r.cx.rng.gen_bool(0.85) { e.1.clone() } else { r.w.versions[key].choose(&mut r.cx.rng).expect("nonempty").clone() };
                    // a version-bearing record that arrives may be stored as a merge (another version): the arrival is that of the fetched one
                    let arrival_of = if matches!(e.1, RecordType::NonChunk(_)) { Some(e.1.clone()) } else { None };
                    Call::Put { key, ty, arrival_of }
                } else {
                    let key = r.cx.rng.gen_range(0..nk);
                    let ty = r.w.versions[key].choose(&mut r.cx.rng).expect("nonempty").clone();
                    Call::Put { key, ty, arrival_of: None }
                }
            } else if roll < 68 {
                let inflight: Vec<Ent> = r.w.inflight_sorted();
                match inflight.choose(&mut r.cx.rng) {
                    Some(e) => Call::Early { key: r.w.idx(&e.0), ty: e.1.clone() },
                    None => Call::Next,
                }
            } else if roll < 73 {
                Call::Next
            } else if roll < 78 {
                saw_update = true;
                // range at / around an element's distance, or random
                let k = sorted[r.cx.rng.gen_range(nk / 4..nk)];
                let d = r.w.dist[k];
                Call::SetRange(match r.cx.rng.gen_range(0..3) {
                    0 => inc(&d),
                    1 => dec(&d),
                    _ => {
                        let mut x: D32 = r.cx.rng.gen();
                        x[0] |= 0x20;
                        x
                    }
                })
            } else if roll < 82 {
                saw_update = true;
                // node reports full: farthest held record (realistic) or an arbitrary key
                let mut held: Vec<usize> = r.w.store.keys().map(|k| r.w.idx(k)).collect();
                held.sort();
                let far = if r.cx.rng.gen_bool(0.7) { held.iter().copied().max_by_key(|i| r.w.dist[*i]) } else { Some(r.cx.rng.gen_range(0..nk)) };
                Call::SetFarthest(far)
            } else {
                let s = if r.cx.rng.gen_bool(0.06) { r.cx.rng.gen_range(300..1000) } else { r.cx.rng.gen_range(1..=25) };
                if r.w.inflight.values().any(|(_, t0, _)| r.w.now_s + s - t0 > FETCH_TIMEOUT_S) {
                    saw_timeout_step = true;
                }
                Call::Age(s)
            };
            let _ = r.step(call);
        }
        if r.batch_calls > 0 {
            r.cx.count_n("batch-steps", r.batch_calls);
        }

        r.settle_owed();
        // ---- bounded progress phase
        // responsive holder H re-advertises every round all in-range, not-stored keys; every issued
        // fetch to any holder completes within the round; 5 s pass per round.
        let h = 0usize;
        let in_bounds = |w: &World, k: usize| w.range.map(|r| w.dist[k] < r).unwrap_or(true) && w.farthest_min.map(|b| w.dist[k] < b).unwrap_or(true);
        let candidates: Vec<usize> = (0..nk).filter(|k| in_bounds(&r.w, *k) && !r.w.store.contains_key(&r.w.keys[*k])).collect();
        if candidates.len() >= 2 {
            r.cx.count("progress-phases");
            let target = *candidates.iter().max_by_key(|k| r.w.dist[**k]).expect("nonempty"); // farthest eligible = scheduled last
            let u = candidates.len();
            let bound = u.div_ceil(MAX) + 7;
            let mut fetched_round = None;
            for round in 0..bound + 3 {
                let todo: Vec<(usize, RecordType)> = candidates
                    .iter()
                    .filter(|k| !r.w.store.contains_key(&r.w.keys[**k]))
                    .map(|k| (*k, r.w.versions[*k][0].clone()))
                    .collect();
                if todo.is_empty() {
                    break;
                }
                let mut issued = r.step(Call::Ad { holder: h, keys: todo });
                // complete every issued fetch within the round (completions may issue more)
                let mut guard = 0;
                while let Some((_holder, key)) = issued.pop() {
                    guard += 1;
                    if guard > 2000 {
                        break;
                    }
                    let ki = r.w.idx(&key);
                    if ki == target && fetched_round.is_none() {
                        fetched_round = Some(round);
                    }
                    // the arriving version is the one in flight for that key (any)
                    let ty = r.w.inflight_sorted().into_iter().find(|e| e.0 == key).map(|e| e.1).unwrap_or_else(|| r.w.versions[ki][0].clone());
                    let more = r.step(Call::Put { key: ki, ty, arrival_of: None });
                    issued.extend(more);
                }
                if fetched_round.is_some() {
                    break;
                }
                r.step(Call::Age(5));
            }
            r.cx.eval();
            match fetched_round {
                Some(rd) if rd < bound => {}
                other => {
                    let d = format!("target k{target} (in range, advertised every round by a responsive holder) fetched at round {other:?}, bound {bound} (U={u})");
                    r.viol("no-bounded-progress", d);
                }
            }
        }

        // ---- another version of exactly the farthest held record is not "farther" than it: once the node is full it
        //      must still be fetched when a responsive holder keeps advertising it
        if let Some(b) = r.w.farthest_min {
            let kstar = (0..nk).find(|k| r.w.dist[*k] == b);
            let held = kstar.and_then(|k| r.w.store.get(&r.w.keys[k]).map(|(_, t)| (k, t.clone())));
            let other_version = held.as_ref().and_then(|(k, t)| r.w.versions[*k].iter().find(|v| *v != t).cloned().map(|v| (*k, v)));
            let in_range = kstar.map(|k| r.w.range.map(|rg| r.w.dist[k] < rg).unwrap_or(true)).unwrap_or(false);
            if let (Some((k, t2)), true) = (other_version, in_range) {
                let key = r.w.keys[k].clone();
                let queued = r.f.snapshot().to_be_fetched.len();
                let bound = queued.div_ceil(MAX) + 8;
                r.cx.count("progress:new-version-of-farthest-record");
                let mut fetched = false;
                'rounds: for _ in 0..bound {
                    let mut issued = r.step(Call::Ad { holder: h, keys: vec![(k, t2.clone())] });
                    let mut guard = 0;
                    while let Some((_holder, fk)) = issued.pop() {
                        guard += 1;
                        if guard > 2000 {
                            break;
                        }
                        if fk == key {
                            fetched = true;
                            break 'rounds;
                        }
                        let ki = r.w.idx(&fk);
                        let ty = r.w.inflight_sorted().into_iter().find(|e| e.0 == fk).map(|e| e.1).unwrap_or_else(|| r.w.versions[ki][0].clone());
                        issued.extend(r.step(Call::Put { key: ki, ty, arrival_of: None }));
                    }
                    r.step(Call::Age(5));
                }
                r.cx.eval();
                if !fetched {
                    r.viol("no-bounded-progress:new-version-of-the-farthest-held-record", format!("k{k} is the farthest held record of a full node; another version of it, advertised every round by a responsive holder, was not fetched within {bound} rounds"));
                }
            }
        }

        r.settle_owed();
        let trace_hash = h64(&serde_json::to_string(&r.trace).unwrap_or_default());
        if r.batch_calls > 0 && saw_timeout_step && saw_update {
            r.cx.nontrivial(&trace_hash);
        }
        if r.cx.index < 2 {
            let head: Vec<_> = r.trace.iter().take(12).cloned().collect();
            let n = r.trace.len();
            r.cx.sample(json!({"universe": nk, "holders": nh, "calls": n, "first_calls": head}));
        }
    }
}

/// The fetcher behind its real callers: a real node SwarmDriver with a small store, a responsible range,
/// holders among its closest peers; advertisements go through the real Replicate handler and arrivals
/// through the real PutLocalRecord handler (which reports fullness to the fetcher and schedules the next
/// fetches). Judged on the KeysToFetchForReplication events the driver emits.
fn driver_case(cx: &mut Cx) {
    use crate::sim::{Policy, Sim};
    use ant_networking::verif::LocalSwarmCmd;
    use ant_networking::NetworkEvent;
    use libp2p::kad::Record;
    let root = scratch_dir("c08d");
    let mut sim = Sim::new(cx.rng.gen(), false);
    sim.policy = Policy::Fifo;
    sim.set_gates_controlled(false);
    sim.auto_events = false;
    let kp = crate::gen::ed_keypair(&mut cx.rng);
    sim.add_node(kp, root.clone(), false);
    let me = sim.nodes[0].peer;
    let holders: Vec<PeerId> = (0..3).map(|_| PeerId::from(crate::gen::ed_keypair(&mut cx.rng).public())).collect();
    sim.add_rt_peers(0, &holders);
    let cap = cx.rng.gen_range(4..=8usize);
    sim.nodes[0].drv.verif_store_mut().expect("store").verif_set_limits(cap, 4);
    // a key universe sorted by distance: the store gets the closest ones
    let mut pool: Vec<(D32, Vec<u8>)> = (0..120).map(|_| cx.rng.gen::<[u8; 32]>().to_vec()).map(|k| (ref_distance(&me.to_bytes(), &k), k)).collect();
    pool.sort();
    let dist_of = |k: &[u8]| ref_distance(&me.to_bytes(), k);
    let value_of = |k: &[u8]| {
        let mut v = vec![0x91u8, 1, 0xc4, 8];
        v.extend(&k[..8]);
        v
    };
    let drain = |sim: &mut Sim| {
        for _ in 0..10_000 {
            if !sim.step() {
                break;
            }
        }
        sim.collect();
    };
    let mut held: BTreeSet<Vec<u8>> = BTreeSet::new();
    let fill = cx.rng.gen_range(cap - 2..=cap);
    for (_, k) in pool.iter().take(fill) {
        let _g = sim.rt.enter();
        let _ = sim.nodes[0].drv.verif_handle_local_cmd(LocalSwarmCmd::PutLocalRecord { record: Record { key: RecordKey::from(k.clone()), value: value_of(k), publisher: None, expires: None } });
        held.insert(k.clone());
    }
    drain(&mut sim);
    sim.nodes[0].event_q.clear();
    // responsible range: somewhere in the middle of the remaining universe
    let range: Option<D32> = if cx.rng.gen_bool(0.7) {
        let r = pool[cx.rng.gen_range(cap + 5..100)].0;
        sim.nodes[0].drv.verif_set_distance_range(to_u256(&r));
        Some(r)
    } else {
        None
    };
    let rest: Vec<Vec<u8>> = pool.iter().skip(cap).map(|(_, k)| k.clone()).collect();
    let mut seen_single: BTreeSet<Vec<u8>> = BTreeSet::new();
    let mut advertised: BTreeSet<Vec<u8>> = BTreeSet::new();
    let mut fetched: Vec<Vec<u8>> = vec![];
    let mut full_bound: Option<D32> = None; // farthest held distance at the (closest) MaxRecords refusal
    let mut hist: Vec<serde_json::Value> = vec![];
    let steps = cx.rng.gen_range(6..=16);
    for step in 0..steps {
        let snap_keys: BTreeSet<Vec<u8>> = sim.nodes[0].drv.verif_store_mut().expect("store").verif_snapshot().records.iter().map(|(k, _, _)| k.to_vec()).collect();
        held = snap_keys.clone();
        let farthest_held: Option<D32> = held.iter().map(|k| dist_of(k)).max();
        let choice = cx.rng.gen_range(0..10);
        if choice < 6 || fetched.is_empty() {
            // an advertisement through the real Replicate handler
            let holder = *holders.choose(&mut cx.rng).expect("holders");
            let mode = cx.rng.gen_range(0..4);
            let mut list: Vec<Vec<u8>> = vec![];
            match mode {
                0 => list.push(rest.choose(&mut cx.rng).expect("rest").clone()), // fresh single key
                1 => {
                    // periodic list in which exactly one record is missing locally (often out of range)
                    let n_held = cx.rng.gen_range(1..=held.len().max(1).min(4));
                    list.extend(held.iter().take(n_held).cloned());
                    let far_half: Vec<&Vec<u8>> = rest.iter().skip(rest.len() / 2).collect();
                    let pick = if cx.rng.gen_bool(0.7) { (*far_half.choose(&mut cx.rng).expect("far")).clone() } else { rest.choose(&mut cx.rng).expect("rest").clone() };
                    list.push(pick);
                    cx.count("driver:periodic-lists-with-one-missing-record");
                }
                2 => {
                    // a long periodic list (more than the parallel-fetch limit)
                    let n = cx.rng.gen_range(21..=40);
                    list.extend(rest.choose_multiple(&mut cx.rng, n).cloned());
                    list.extend(held.iter().take(2).cloned());
                }
                _ => {
                    let n = cx.rng.gen_range(2..=8);
                    list.extend(rest.choose_multiple(&mut cx.rng, n).cloned());
                }
            }
            list.shuffle(&mut cx.rng);
            if list.len() == 1 {
                seen_single.insert(list[0].clone());
            }
            advertised.extend(list.iter().cloned());
            cx.count("driver:advertisements");
            hist.push(json!({"advert": list.len(), "from": holders.iter().position(|h| *h == holder)}));
            let adv: Vec<(NetworkAddress, RecordType)> = list.iter().map(|k| (NetworkAddress::from_record_key(&RecordKey::from(k.clone())), RecordType::Chunk)).collect();
            let _g = sim.rt.enter();
            sim.nodes[0].drv.verif_handle_replicate(NetworkAddress::from_peer(holder), adv);
        } else {
            // a fetched record arrives: the real PutLocalRecord handler (far ones are refused once the store is full)
            let k = if cx.rng.gen_bool(0.7) {
                // the farthest of the fetches in flight: the one a full store refuses
                fetched.iter().max_by_key(|k| dist_of(k)).cloned().expect("fetched")
            } else {
                fetched.choose(&mut cx.rng).cloned().expect("fetched")
            };
            fetched.retain(|x| *x != k);
            let res = {
                let _g = sim.rt.enter();
                sim.nodes[0].drv.verif_handle_local_cmd(LocalSwarmCmd::PutLocalRecord { record: Record { key: RecordKey::from(k.clone()), value: value_of(&k), publisher: None, expires: None } })
            };
            // the handler returns the store's MaxRecords error for a refused record (an accepted one is indexed only
            // after its disk write has been acknowledged, so the index cannot be used to tell)
            let refused = res.is_err();
            hist.push(json!({"arrival_d_rank": pool.iter().position(|(_, x)| *x == k), "refused": refused}));
            if refused && held.len() >= cap {
                cx.count("driver:refusals-when-full");
                if let Some(f) = farthest_held {
                    full_bound = Some(full_bound.map(|b: D32| b.min(f)).unwrap_or(f));
                }
            }
        }
        drain(&mut sim);
        // ---- judge the fetch events of this step
        let now_held: BTreeSet<Vec<u8>> = sim.nodes[0].drv.verif_store_mut().expect("store").verif_snapshot().records.iter().map(|(k, _, _)| k.to_vec()).collect();
        let events: Vec<NetworkEvent> = sim.nodes[0].event_q.drain(..).collect();
        for ev in events {
            let NetworkEvent::KeysToFetchForReplication(keys) = ev else { continue };
            for (holder, key) in keys {
                cx.eval();
                let k = key.to_vec();
                let w = json!({"step": step, "history": hist, "capacity": cap, "range_set": range.is_some()});
                if !holders.contains(&holder) {
                    cx.violation("driver:fetch-from-unknown-holder", "a fetch names a holder that never advertised".to_string(), w.clone());
                }
                if !advertised.contains(&k) {
                    cx.violation("driver:fetch-of-unadvertised-key", "a fetch for a key nobody advertised".to_string(), w.clone());
                }
                if now_held.contains(&k) && held.contains(&k) {
                    cx.violation("driver:fetch-of-held-record", "a fetch was scheduled for a record the store already holds".to_string(), w.clone());
                }
                if let Some(r) = range {
                    if !seen_single.contains(&k) && dist_of(&k) > r {
                        cx.violation("driver:periodic-advertisement-fetched-out-of-range", format!("a record known only from multi-record advertisements lies outside the responsible range and was fetched (step {step})"), w.clone());
                    }
                }
                if let Some(b) = full_bound {
                    cx.count("driver:fetch-events-after-full");
                    if dist_of(&k) > b {
                        cx.violation("driver:fetch-beyond-farthest-after-full", format!("after the store had refused a record as full, a fetch was scheduled for a record farther than the farthest held one (step {step})"), w.clone());
                    }
                }
                if !fetched.contains(&k) {
                    fetched.push(k);
                }
            }
        }
    }
    cx.nontrivial(&("driver", h64(&serde_json::to_string(&hist).unwrap_or_default())));
    if cx.index % 60 == 5 {
        cx.sample(json!({"driver_case": hist}));
    }
    drop(sim);
    let _ = std::fs::remove_dir_all(&root);
}
