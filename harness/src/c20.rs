//! C20 — upgraded services keep every setting, and antnode accepts what antctl writes.
//!
//! The real add_node (SimOs captures the ServiceInstallCtx) and the real
//! NodeService::build_upgrade_install_context (on the NodeServiceData that add_node recorded)
//! produce two argument lists; both are handed to the real `antnode` binary built from the working
//! tree with the guarded dump hook (prints the clap-parsed options and exits).

use crate::c19::{add_options, SimOs};
use crate::common::*;
use ant_bootstrap::PeersArgs;
use ant_evm::EvmNetwork;
use ant_logging::LogFormat;
use ant_node_manager::add_services::add_node;
use ant_node_manager::add_services::config::PortRange;
use ant_node_manager::VerbosityLevel;
use ant_service_management::rpc::{NetworkInfo, NodeInfo, RecordAddress, RpcActions};
use ant_service_management::{NodeRegistry, NodeService, ServiceStateActions, UpgradeOptions};
use async_trait::async_trait;
use rand::{seq::SliceRandom, Rng};
use serde_json::json;
use std::collections::BTreeMap;
use std::ffi::OsString;
use std::path::PathBuf;
use std::time::Duration;

pub struct C20;

pub const ANTNODE_BIN: &str = "/verif/target-antnode/debug/antnode";

struct NoRpc;
#[async_trait]
impl RpcActions for NoRpc {
    async fn node_info(&self) -> ant_service_management::error::Result<NodeInfo> {
        Err(ant_service_management::error::Error::RpcConnectionError("unused".into()))
    }
    async fn network_info(&self) -> ant_service_management::error::Result<NetworkInfo> {
        Err(ant_service_management::error::Error::RpcConnectionError("unused".into()))
    }
    async fn record_addresses(&self) -> ant_service_management::error::Result<Vec<RecordAddress>> {
        Ok(vec![])
    }
    async fn node_restart(&self, _d: u64, _r: bool) -> ant_service_management::error::Result<()> {
        Ok(())
    }
    async fn node_stop(&self, _d: u64) -> ant_service_management::error::Result<()> {
        Ok(())
    }
    async fn node_update(&self, _d: u64) -> ant_service_management::error::Result<()> {
        Ok(())
    }
    async fn is_node_connected_to_network(&self, _t: Duration) -> ant_service_management::error::Result<()> {
        Ok(())
    }
    async fn update_log_level(&self, _l: String) -> ant_service_management::error::Result<()> {
        Ok(())
    }
}

/// A running node as the manager sees it over RPC: its own listener first, then a relayed one (home-network
/// nodes listen through a relay reservation as well)
struct ListenRpc {
    pid: u32,
    listeners: Vec<libp2p::Multiaddr>,
}
#[async_trait]
impl RpcActions for ListenRpc {
    async fn node_info(&self) -> ant_service_management::error::Result<NodeInfo> {
        Ok(NodeInfo { pid: self.pid, peer_id: libp2p::PeerId::random(), log_path: PathBuf::from("/log"), data_path: PathBuf::from("/data"), version: "0.1.0".into(), uptime: Duration::from_secs(1), wallet_balance: 0 })
    }
    async fn network_info(&self) -> ant_service_management::error::Result<NetworkInfo> {
        Ok(NetworkInfo { connected_peers: vec![], listeners: self.listeners.clone() })
    }
    async fn record_addresses(&self) -> ant_service_management::error::Result<Vec<RecordAddress>> {
        Ok(vec![])
    }
    async fn node_restart(&self, _d: u64, _r: bool) -> ant_service_management::error::Result<()> {
        Ok(())
    }
    async fn node_stop(&self, _d: u64) -> ant_service_management::error::Result<()> {
        Ok(())
    }
    async fn node_update(&self, _d: u64) -> ant_service_management::error::Result<()> {
        Ok(())
    }
    async fn is_node_connected_to_network(&self, _t: Duration) -> ant_service_management::error::Result<()> {
        Ok(())
    }
    async fn update_log_level(&self, _l: String) -> ant_service_management::error::Result<()> {
        Ok(())
    }
}

/// top-level fields of a pretty-printed `{:#?}` struct dump: name -> whitespace-normalised value text
fn top_fields(dump: &str) -> BTreeMap<String, String> {
    let mut out: BTreeMap<String, String> = BTreeMap::new();
    let mut cur: Option<String> = None;
    for line in dump.lines() {
        let indent = line.len() - line.trim_start().len();
        let t = line.trim();
        if indent == 4 && t.contains(": ") && t.chars().next().map(|c| c.is_ascii_lowercase()).unwrap_or(false) {
            let (k, v) = t.split_once(": ").expect("contains");
            cur = Some(k.to_string());
            out.insert(k.to_string(), v.trim_end_matches(',').to_string());
        } else if indent >= 4 {
            if let Some(k) = &cur {
                if let Some(v) = out.get_mut(k) {
                    v.push(' ');
                    v.push_str(t);
                }
            }
        }
    }
    for v in out.values_mut() {
        *v = v.trim_end_matches(',').to_string();
    }
    out
}

fn run_antnode(args: &[OsString]) -> (Option<i32>, String, String) {
    let out = std::process::Command::new(ANTNODE_BIN).args(args).env("ANTNODE_VERIF_DUMP_OPTS", "1").env("NO_COLOR", "1").output();
    match out {
        Ok(o) => (o.status.code(), String::from_utf8_lossy(&o.stdout).to_string(), String::from_utf8_lossy(&o.stderr).chars().take(600).collect()),
        Err(e) => (None, String::new(), format!("spawn failed: {e}")),
    }
}

impl Check for C20 {
    fn id(&self) -> &'static str {
        "C20"
    }
    fn rule(&self) -> String {
        "each case: one random combination of the installable options (EVM network arbitrum-one / sepolia / custom with three fields, node port, metrics port, rpc address, node IP, peers arguments {first | local | neither} x {0,1,3 peer addresses} x {0,1,2 contacts URLs} x testnet x ignore-cache x cache dir (respecting clap conflicts), log format, max (archived) log files, owner in mixed case, home-network, upnp, service user, environment variables, network id, auto-restart) \
         goes through the real add_node (install definition captured by the simulated OS) and the real build_upgrade_install_context on the recorded NodeServiceData; judged: program / user / label / working directory / environment / autostart equal, both argument lists accepted by the real antnode binary (exit 0) with IDENTICAL parsed options, and every parsed field equal to the intended value. \
         Non-trivial: every combination with at least four non-default options; distinct = hash of the option combination. Sampled, not exhaustive."
            .into()
    }
    fn assumptions(&self) -> Vec<String> {
        vec![
            "the antnode binary is built from /repo's working tree with --features verif-hooks; the guarded hook prints the clap-parsed Opt (Debug) right after Opt::parse() and exits".into(),
            "the upgrade is given the installed auto_restart / environment values, so only genuine drops between install-time and upgrade-time definitions show".into(),
            "cmd::node::upgrade (which needs a real service manager) is outside this check".into(),
        ]
    }
    fn cases(&self, tier: Tier) -> u64 {
        tier.pick(4_800, 40_000)
    }
    fn min_nontrivial(&self, tier: Tier) -> u64 {
        tier.pick(3_000, 20_000)
    }
    fn shard_budget(&self, tier: Tier) -> Duration {
        tier.pick(Duration::from_secs(120), Duration::from_secs(1500))
    }
    fn required_counters(&self, _tier: Tier) -> Vec<&'static str> {
        vec!["evm:custom", "peers:two-or-more-contacts-urls", "home-network+upnp", "antnode-invocations"]
    }
    fn run_case(&self, cx: &mut Cx) {
        if !std::path::Path::new(ANTNODE_BIN).exists() {
            cx.inconclusive(format!("{ANTNODE_BIN} has not been built"));
            return;
        }
        let rt = tokio::runtime::Builder::new_current_thread().enable_all().build().expect("rt");
        let root = scratch_dir("c20");
        std::fs::write(root.join("antnode-src"), b"antnode").expect("src");
        let mut o = add_options(&root, 1);
        let nondefault = std::cell::Cell::new(0u32);
        let pick = |cx: &mut Cx, p: f64| -> bool {
            let b = cx.rng.gen_bool(p);
            if b {
                nondefault.set(nondefault.get() + 1);
            }
            b
        };
        // ---- options
        o.evm_network = match cx.rng.gen_range(0..3) {
            0 => EvmNetwork::ArbitrumOne,
            1 => EvmNetwork::ArbitrumSepolia,
            _ => {
                cx.count("evm:custom");
                let host = ["http://localhost:8545", "https://rpc.example.org/v1/key", "http://10.1.2.3:61611/"].choose(&mut cx.rng).expect("nonempty");
                EvmNetwork::new_custom(host, &format!("0x{}", hex(&cx.rng.gen::<[u8; 20]>())), &format!("0x{}", hex(&cx.rng.gen::<[u8; 20]>())))
            }
        };
        let node_port: Option<u16> = if pick(cx, 0.5) { Some(cx.rng.gen_range(1024..65535)) } else { None };
        o.node_port = node_port.map(PortRange::Single);
        let metrics_port: Option<u16> = if pick(cx, 0.4) { Some(cx.rng.gen_range(1024..65535)) } else { None };
        o.metrics_port = metrics_port.map(PortRange::Single);
        o.rpc_address = if pick(cx, 0.3) { Some(std::net::Ipv4Addr::new(10, 0, 0, cx.rng.gen_range(1..250))) } else { None };
        let rpc_port: u16 = cx.rng.gen_range(20_000..30_000);
        o.rpc_port = Some(PortRange::Single(rpc_port));
        o.node_ip = if pick(cx, 0.3) { Some(std::net::Ipv4Addr::new(192, 168, cx.rng.gen(), cx.rng.gen_range(1..250))) } else { None };
        let mode = cx.rng.gen_range(0..3); // 0 neither, 1 first, 2 local
        let mut pa = PeersArgs::default();
        if mode == 1 {
            pa.first = true;
            nondefault.set(nondefault.get() + 1);
        }
        if mode == 2 {
            pa.local = true;
            nondefault.set(nondefault.get() + 1);
        }
        if mode != 1 {
            let n = *[0usize, 0, 1, 3].choose(&mut cx.rng).expect("nonempty");
            for i in 0..n {
                let p = libp2p::PeerId::random();
                pa.addrs.push(format!("/ip4/10.9.{}.{}/udp/{}/quic-v1/p2p/{p}", i, cx.rng.gen_range(1..250), cx.rng.gen_range(1024..65000)).parse().expect("multiaddr"));
            }
            if n > 0 {
                nondefault.set(nondefault.get() + 1);
            }
        }
        if mode == 0 {
            let n = *[0usize, 0, 1, 2, 3].choose(&mut cx.rng).expect("nonempty");
            for i in 0..n {
                pa.network_contacts_url.push(format!("http://contacts{i}.example.org:808{i}/contacts.json"));
            }
            if n >= 2 {
                cx.count("peers:two-or-more-contacts-urls");
            }
            if n > 0 {
                nondefault.set(nondefault.get() + 1);
            }
        }
        pa.disable_mainnet_contacts = pick(cx, 0.3);
        pa.ignore_cache = pick(cx, 0.3);
        pa.bootstrap_cache_dir = if pick(cx, 0.3) { Some(root.join("bootstrap cache")) } else { None };
        o.peers_args = pa.clone();
        o.log_format = match cx.rng.gen_range(0..3) {
            0 => None,
            1 => Some(LogFormat::Default),
            _ => Some(LogFormat::Json),
        };
        o.max_log_files = if pick(cx, 0.4) { Some(cx.rng.gen_range(0..100)) } else { None };
        o.max_archived_log_files = if pick(cx, 0.4) { Some(cx.rng.gen_range(0..100)) } else { None };
        o.owner = if pick(cx, 0.4) { Some(["Discord_User", "alice", "BOB42", "mixedCase.name", "", "a", "with space"].choose(&mut cx.rng).expect("nonempty").to_string()) } else { None };
        o.home_network = pick(cx, 0.4);
        o.upnp = pick(cx, 0.4);
        if o.home_network && o.upnp {
            cx.count("home-network+upnp");
        }
        o.user = if pick(cx, 0.3) { Some("root".to_string()) } else { None };
        o.user_mode = cx.rng.gen_bool(0.3);
        // a user-mode install that leaves the directories at their defaults (the per-user data directory; the manager
        // then appends "<service>/logs" for the log output): XDG_DATA_HOME points into this case's scratch root
        if o.user_mode && cx.rng.gen_bool(0.5) {
            std::env::set_var("XDG_DATA_HOME", root.join("xdg"));
            if let Ok(d) = ant_node_manager::config::get_user_antnode_data_dir() {
                if d.starts_with(&root) {
                    o.service_data_dir_path = d.clone();
                    o.service_log_dir_path = d;
                    cx.count("user-mode-default-directories");
                }
            }
        }
        o.env_variables = if pick(cx, 0.3) { Some(vec![("ANT_LOG".to_string(), "all".to_string()), ("RUST_BACKTRACE".to_string(), "1".to_string())]) } else { None };
        o.network_id = if pick(cx, 0.4) { Some(cx.rng.gen()) } else { None };
        o.auto_restart = pick(cx, 0.3);
        let combo = format!(
            "{:?}|{node_port:?}|{metrics_port:?}|{:?}|{:?}|{:?}|{:?}|{:?}|{:?}|{:?}|{}|{}|{:?}|{}|{:?}|{:?}|{}",
            o.evm_network, o.rpc_address, o.node_ip, pa, o.log_format, o.max_log_files, o.max_archived_log_files, o.owner, o.home_network, o.upnp, o.user, o.user_mode, o.env_variables, o.network_id, o.auto_restart
        );
        let intended = (o.evm_network.clone(), o.owner.clone(), o.rewards_address);
        let (auto_restart, env) = (o.auto_restart, o.env_variables.clone());
        let (home, upnp, log_format, mlf, malf, netid, node_ip, rpc_address) = (o.home_network, o.upnp, o.log_format, o.max_log_files, o.max_archived_log_files, o.network_id, o.node_ip, o.rpc_address);

        // ---- install through the real add_node
        let os = SimOs::new();
        let mut registry = NodeRegistry::load(&root.join("registry.json")).expect("registry");
        cx.eval();
        // one case in six (no fixed ports, so that several services can be asked for): a batch of two or three services
        // of which a LATER one fails to install; the add then reports an error, the first service is installed all the
        // same, and everything below (its upgrade in particular) is judged on that service
        let mut o = o;
        let batch_possible = node_port.is_none() && metrics_port.is_none() && !pa.first;
        let partial = batch_possible && cx.rng.gen_bool(0.25);
        if partial {
            let count = cx.rng.gen_range(2..=3u16);
            o.count = Some(count);
            // the first service keeps the RPC port the case intends
            o.rpc_port = Some(PortRange::Range(rpc_port, rpc_port + count - 1));
            os.0.lock().expect("os").fail_nth_of = Some(("install".to_string(), cx.rng.gen_range(1..count as usize)));
            cx.count("batch-adds-with-a-later-install-failing");
        } else if batch_possible && cx.rng.gen_bool(0.3) {
            // a batch of two or three services that all install: every one of them is judged against its own upgrade below
            let count = cx.rng.gen_range(2..=3u16);
            o.count = Some(count);
            o.rpc_port = Some(PortRange::Range(rpc_port, rpc_port + count - 1));
            cx.count("batch-adds");
        }
        let added = rt.block_on(add_node(o, &mut registry, &os, VerbosityLevel::Minimal));
        os.0.lock().expect("os").fail_nth_of = None;
        let first_add_ctxs: Vec<_> = os.0.lock().expect("os").installed_ctx.clone();
        let added = if partial && added.is_err() && !registry.nodes.is_empty() { Ok(vec![]) } else { added.map(|_| vec![()]) };
        let install = os.0.lock().expect("os").installed_ctx.first().cloned();
        let w = json!({"options": combo, "batch_add_with_a_failed_install": partial});
        let (Ok(_), Some(install), Some(_)) = (&added, install, registry.nodes.first()) else {
            cx.violation("add-node-failed", format!("add_node failed for a valid option combination: {:?}", added.as_ref().err().map(|e| e.to_string())), w);
            let _ = std::fs::remove_dir_all(&root);
            return;
        };
        // ---- what the node does with --bootstrap-cache-dir: its start-up builds the cache store from the parsed peers
        //      arguments and its own default configuration; the cache file must live in the directory the manager wrote
        if let Some(dir) = &pa.bootstrap_cache_dir {
            std::env::set_var("XDG_DATA_HOME", root.join("xdg"));
            cx.eval();
            cx.count("bootstrap-cache-dir-interpreted");
            let built = ant_bootstrap::BootstrapCacheConfig::default_config().and_then(|cfg| ant_bootstrap::BootstrapCacheStore::new_from_peers_args(&pa, Some(cfg)));
            match built {
                Ok(store) => {
                    let used = store.config().cache_file_path.clone();
                    if used.parent() != Some(dir.as_path()) {
                        cx.violation("antnode-misreads:bootstrap_cache_dir", format!("the manager writes --bootstrap-cache-dir {dir:?}; the node's start-up (new_from_peers_args with its default configuration) uses the cache file {used:?}"), w.clone());
                    }
                }
                Err(e) => cx.violation("antnode-misreads:bootstrap_cache_dir", format!("building the node's cache store from the written peers arguments failed: {e}"), w.clone()),
            }
        }
        // ---- half of the services with a configured port are really started first (the manager then refreshes what it
        //      records from the node's RPC answers: own listener first, a relayed listener with another port second)
        if let (Some(port), true) = (node_port, cx.rng.gen_bool(0.5)) {
            let listeners: Vec<libp2p::Multiaddr> = vec![
                format!("/ip4/127.0.0.1/udp/{port}/quic-v1").parse().expect("multiaddr"),
                format!("/ip4/10.9.8.7/udp/{}/quic-v1/p2p/{}/p2p-circuit", if port == 40_123 { 40_124 } else { 40_123 }, libp2p::PeerId::random()).parse().expect("multiaddr"),
            ];
            // a node may also listen on tcp / websocket; one time in three such a listener is reported ahead of the quic one
            let mut listeners = listeners;
            if cx.rng.gen_bool(0.34) {
                listeners.insert(0, format!("/ip4/127.0.0.1/tcp/{}/ws", if port == 40_200 { 40_201 } else { 40_200 }).parse().expect("multiaddr"));
                cx.count("started-before-upgrade:non-udp-listener-reported-first");
            }
            let pid = 1001;
            let started = {
                let service = NodeService::new(&mut registry.nodes[0], Box::new(ListenRpc { pid, listeners })).with_connection_timeout(Duration::from_secs(1));
                let mut m = ant_node_manager::ServiceManager::new(service, Box::new(os.clone()), VerbosityLevel::Minimal);
                rt.block_on(m.start())
            };
            cx.count(if started.is_ok() { "started-before-upgrade" } else { "start-before-upgrade-failed" });
            // ... and in half of those the process then goes away (crash, reboot) and the registry is refreshed, as every
            // antctl command - upgrade included - does first: the service is found stopped; what the user configured stays
            if started.is_ok() && cx.rng.gen_bool(0.5) {
                os.0.lock().expect("os").procs.clear();
                let refreshed = rt.block_on(ant_node_manager::refresh_node_registry(&mut registry, &os, false, false, false));
                cx.count(if refreshed.is_ok() { "found-stopped-by-a-registry-refresh-before-upgrade" } else { "refresh-before-upgrade-failed" });
            }
        }
        // ---- services added WITHOUT a port: half of them are started, stopped and started again, the node picking another
        //      port the second time (a dynamic port is free to change across restarts). The upgrade then pins the port
        //      (its one explicit change) and what it pins must be the port the node is listening on now
        let mut pinned_port: Option<u16> = None;
        if node_port.is_none() && cx.rng.gen_bool(0.5) {
            let p1: u16 = cx.rng.gen_range(30_000..40_000);
            let p2: u16 = p1 + cx.rng.gen_range(1..2000);
            let mut last = None;
            let restarts = cx.rng.gen_bool(0.6);
            for (round, port) in [(0, p1), (1, p2)] {
                if round == 1 && !restarts {
                    break;
                }
                let listeners: Vec<libp2p::Multiaddr> = vec![format!("/ip4/127.0.0.1/udp/{port}/quic-v1").parse().expect("multiaddr")];
                let service = NodeService::new(&mut registry.nodes[0], Box::new(ListenRpc { pid: 2001 + round as u32, listeners })).with_connection_timeout(Duration::from_secs(1));
                let mut m = ant_node_manager::ServiceManager::new(service, Box::new(os.clone()), VerbosityLevel::Minimal);
                if rt.block_on(m.start()).is_ok() {
                    last = Some(port);
                    if round == 0 && restarts && rt.block_on(m.stop()).is_err() {
                        last = None;
                        break;
                    }
                } else {
                    last = None;
                    break;
                }
            }
            if let Some(p) = last {
                pinned_port = Some(p);
                cx.count(if restarts { "dynamic-port-services-restarted-on-another-port-before-upgrade" } else { "dynamic-port-services-started-before-upgrade" });
            }
        }
        // ---- in a third of the cases another service is added afterwards without any environment option (the
        //      registry keeps one environment for all services; a later add that does not mention it must not clear it)
        if cx.rng.gen_bool(0.33) {
            let mut o2 = add_options(&root, 1);
            o2.env_variables = None;
            let _ = rt.block_on(add_node(o2, &mut registry, &os, VerbosityLevel::Minimal));
            cx.count("second-add-before-upgrade");
        }
        // the upgrade command takes the environment from the registry unless the user passes one
        let _ = &env;
        let env_for_upgrade = registry.environment_variables.clone();
        // ---- upgrade definition from the recorded data
        let opts = UpgradeOptions { auto_restart, env_variables: env_for_upgrade, force: false, start_service: false, target_bin_path: root.join("antnode-src"), target_version: semver::Version::new(9, 9, 9) };
        let upgrade = {
            let svc = NodeService::new(&mut registry.nodes[0], Box::new(NoRpc));
            svc.build_upgrade_install_context(opts)
        };
        let upgrade = match upgrade {
            Ok(u) => u,
            Err(e) => {
                cx.violation("upgrade-context-failed", format!("build_upgrade_install_context failed: {e}"), w);
                let _ = std::fs::remove_dir_all(&root);
                return;
            }
        };
        if nondefault.get() >= 4 {
            cx.nontrivial(&combo);
        }
        let argv = |a: &[OsString]| a.iter().map(|s| s.to_string_lossy().to_string()).collect::<Vec<_>>();
        let ww = json!({"options": combo, "install_args": argv(&install.args), "upgrade_args": argv(&upgrade.args)});
        for (what, a, b) in [
            ("program", format!("{:?}", install.program), format!("{:?}", upgrade.program)),
            ("username", format!("{:?}", install.username), format!("{:?}", upgrade.username)),
            ("label", install.label.to_string(), upgrade.label.to_string()),
            ("working-directory", format!("{:?}", install.working_directory), format!("{:?}", upgrade.working_directory)),
            ("environment", format!("{:?}", install.environment), format!("{:?}", upgrade.environment)),
            ("autostart", install.autostart.to_string(), upgrade.autostart.to_string()),
            ("contents", format!("{:?}", install.contents), format!("{:?}", upgrade.contents)),
        ] {
            cx.eval();
            if a != b {
                cx.violation(format!("upgrade-definition-differs:{what}"), format!("{what}: installed {a}, regenerated at upgrade {b}"), ww.clone());
            }
        }
        // ---- the other services of the same batch: what each was installed with vs. what its own upgrade regenerates
        for ctx in first_add_ctxs.iter().skip(1) {
            let Some(i) = registry.nodes.iter().position(|n| n.service_name == ctx.label.to_string()) else { continue };
            let opts_i = UpgradeOptions { auto_restart, env_variables: registry.environment_variables.clone(), force: false, start_service: false, target_bin_path: root.join("antnode-src"), target_version: semver::Version::new(9, 9, 9) };
            let up = NodeService::new(&mut registry.nodes[i], Box::new(NoRpc)).build_upgrade_install_context(opts_i);
            cx.eval();
            cx.count("batch-siblings-judged");
            let Ok(up) = up else { continue };
            for (what, a, b) in [
                ("program", format!("{:?}", ctx.program), format!("{:?}", up.program)),
                ("username", format!("{:?}", ctx.username), format!("{:?}", up.username)),
                ("working-directory", format!("{:?}", ctx.working_directory), format!("{:?}", up.working_directory)),
                ("environment", format!("{:?}", ctx.environment), format!("{:?}", up.environment)),
                ("autostart", ctx.autostart.to_string(), up.autostart.to_string()),
            ] {
                if a != b {
                    cx.violation(format!("upgrade-definition-differs:{what}"), format!("service {} of a batch add: {what}: installed {a}, regenerated at upgrade {b}", ctx.label), ww.clone());
                }
            }
        }
        // ---- the real antnode interprets both
        let (c1, d1, e1) = run_antnode(&install.args);
        let (c2, d2, e2) = run_antnode(&upgrade.args);
        cx.count_n("antnode-invocations", 2);
        cx.evals(2);
        if c1 != Some(0) {
            cx.violation("antnode-rejects-install-arguments", format!("antnode exited with {c1:?} on the installed argument list: {e1}"), ww.clone());
        }
        if c2 != Some(0) {
            cx.violation("antnode-rejects-upgrade-arguments", format!("antnode exited with {c2:?} on the upgrade argument list: {e2}"), ww.clone());
        }
        if c1 == Some(0) && c2 == Some(0) {
            let (f1, f2) = (top_fields(&d1), top_fields(&d2));
            for (k, v1) in &f1 {
                let v2 = f2.get(k).cloned().unwrap_or_default();
                if k == "port" && pinned_port.is_some() {
                    // the one thing the upgrade changes on purpose: the dynamic port is pinned to the current one
                    let want = pinned_port.unwrap_or(0).to_string();
                    if v2 != want {
                        cx.violation("upgrade-pins-another-port-than-the-node-listens-on", format!("the node (added without a port) last listened on {want}; the upgraded definition starts it with port {v2}"), ww.clone());
                    }
                    continue;
                }
                if *v1 != v2 {
                    cx.violation(format!("upgrade-changes-setting:{k}"), format!("antnode reads `{k}` as {v1} at install but {v2} after an upgrade"), ww.clone());
                }
            }
            // interpreted as intended
            let data = registry.nodes[0].clone();
            let mut expect: Vec<(&str, String)> = vec![
                ("home_network", home.to_string()),
                ("upnp", upnp.to_string()),
                ("log_output_dest", format!("Path( {:?}, )", data.log_dir_path.to_string_lossy())),
                ("log_format", match log_format { None => "None".into(), Some(LogFormat::Default) => "Some( Default, )".into(), Some(LogFormat::Json) => "Some( Json, )".into() }),
                ("max_log_files", mlf.map(|n| format!("Some( {n}, )")).unwrap_or("None".into())),
                ("max_archived_log_files", malf.map(|n| format!("Some( {n}, )")).unwrap_or("None".into())),
                ("network_id", netid.map(|n| format!("Some( {n}, )")).unwrap_or("None".into())),
                ("root_dir", format!("Some( {:?}, )", data.data_dir_path.to_string_lossy())),
                ("port", node_port.unwrap_or(0).to_string()),
                ("ip", node_ip.map(|i| i.to_string()).unwrap_or("0.0.0.0".into())),
                ("rpc", format!("Some( {}:{rpc_port}, )", rpc_address.map(|a| a.to_string()).unwrap_or("127.0.0.1".into()))),
                ("owner", intended.1.as_ref().map(|s| format!("Some( {:?}, )", s.to_lowercase())).unwrap_or("None".into())),
                ("metrics_server_port", metrics_port.unwrap_or(0).to_string()),
            ];
            expect.push(("rewards_address", format!("Some( {:?}, )", intended.2.to_string())));
            for (k, want) in expect {
                cx.eval();
                let got = f1.get(k).cloned().unwrap_or_else(|| "<missing>".into());
                if got != want {
                    cx.violation(format!("antnode-misreads:{k}"), format!("antnode reads `{k}` as {got}, the manager intended {want}"), ww.clone());
                }
            }
            // EVM network
            cx.eval();
            let evm = f1.get("evm_network").cloned().unwrap_or_default();
            let evm_ok = match &intended.0 {
                EvmNetwork::ArbitrumOne => evm.contains("EvmArbitrumOne"),
                EvmNetwork::ArbitrumSepolia => evm.contains("EvmArbitrumSepolia"),
                EvmNetwork::Custom(c) => {
                    let field = |name: &str| evm.split(&format!("{name}: \"")).nth(1).and_then(|s| s.split('"').next()).unwrap_or("").to_string();
                    evm.contains("EvmCustom") && EvmNetwork::new_custom(&field("rpc_url"), &field("payment_token_address"), &field("data_payments_address")) == EvmNetwork::Custom(c.clone())
                }
            };
            if !evm_ok {
                cx.violation("antnode-misreads:evm_network", format!("antnode reads the EVM network as {evm}, intended {:?}", intended.0), ww.clone());
            }
            // peers
            cx.eval();
            let peers = f1.get("peers").cloned().unwrap_or_default();
            let flag = |name: &str| peers.contains(&format!("{name}: true"));
            let mut peers_ok = flag("first") == pa.first && flag("local") == pa.local && flag("disable_mainnet_contacts") == pa.disable_mainnet_contacts && flag("ignore_cache") == pa.ignore_cache;
            peers_ok &= peers.matches("/ip4/").count() == pa.addrs.len() && pa.addrs.iter().all(|a| peers.contains(&a.to_string()));
            peers_ok &= pa.network_contacts_url.iter().all(|u| peers.contains(&format!("\"{u}\""))) && peers.matches("contacts.json").count() == pa.network_contacts_url.len();
            peers_ok &= match &pa.bootstrap_cache_dir {
                Some(d) => peers.contains(&format!("{:?}", d.to_string_lossy())),
                None => peers.contains("bootstrap_cache_dir: None"),
            };
            if !peers_ok {
                cx.violation("antnode-misreads:peers", format!("antnode reads the peers arguments as {peers}, intended {pa:?}"), ww.clone());
            }
        }
        if cx.index < 2 {
            cx.sample(json!({"install_args": argv(&install.args), "upgrade_args": argv(&upgrade.args), "parsed_fields": top_fields(&d1).len()}));
        }
        let _ = std::fs::remove_dir_all(&root);
    }
}
