//! vcheck — runtime-monitoring harness for the properties in /verif/properties.jsonl.
//!
//! usage: vcheck <ID> [--tier quick|thorough] [--seed N] [--replay FILE] [--index N] [-v]
//! (internal) --shard i/n --out FILE --cases N

mod common;
mod refmetric;
mod gen;
mod sim;
mod stub;
mod clientsim;
mod logsink;
mod e2e;
mod realcases;

mod c01;
mod c02;
mod c03;
mod c04;
mod c05;
mod c06;
mod c07;
mod c08;
mod c09;
mod c10;
mod c11;
mod c12;
mod c13;
mod c14;
mod c15;
mod c16;
mod c17;
mod c18;
mod c19;
mod c20;

/// ant-cli's wallet modules live in a binary crate; compile the real sources from /repo in.
#[allow(dead_code)]
mod wallet {
    #[path = "/repo/ant-cli/src/wallet/error.rs"]
    pub mod error;
    #[path = "/repo/ant-cli/src/wallet/encryption.rs"]
    pub mod encryption;
}

use common::{Check, Opts, Tier};
use std::path::PathBuf;

fn registry() -> Vec<Box<dyn Check>> {
    vec![Box::new(c01::C01), Box::new(c02::C02), Box::new(c03::C03), Box::new(c04::C04), Box::new(c05::C05), Box::new(c06::C06), Box::new(c07::C07), Box::new(c08::C08), Box::new(c09::C09), Box::new(c10::C10), Box::new(c11::C11), Box::new(c12::C12), Box::new(c13::C13), Box::new(c14::C14), Box::new(c15::C15), Box::new(c16::C16), Box::new(c17::C17), Box::new(c18::C18), Box::new(c19::C19), Box::new(c20::C20)]
}

thread_local! {
    pub static LAST_PANIC: std::cell::RefCell<Option<String>> = const { std::cell::RefCell::new(None) };
}

fn main() {
    let args: Vec<String> = std::env::args().skip(1).collect();
    if args.is_empty() {
        eprintln!("usage: vcheck <ID> [--tier quick|thorough] [--seed N] [--replay FILE] [--index N] [-v]");
        std::process::exit(2);
    }
    let mut o = Opts {
        id: args[0].clone(),
        tier: match std::env::var("VERIF_TIER").as_deref() {
            Ok("thorough") => Tier::Thorough,
            _ => Tier::Quick,
        },
        seed: std::env::var("VERIF_SEED").ok().and_then(|s| s.parse().ok()).unwrap_or(1),
        shard: None,
        out: None,
        replay: None,
        only_index: None,
        verbose: false,
        cases_override: None,
    };
    let mut tier_given = false;
    let mut i = 1;
    while i < args.len() {
        let a = args[i].as_str();
        let mut next = || {
            i += 1;
            args.get(i).cloned().unwrap_or_default()
        };
        match a {
            "--tier" => {
                o.tier = if next() == "thorough" { Tier::Thorough } else { Tier::Quick };
                tier_given = true;
            }
            "quick" => {
                o.tier = Tier::Quick;
                tier_given = true;
            }
            "thorough" => {
                o.tier = Tier::Thorough;
                tier_given = true;
            }
            "--seed" => o.seed = next().parse().unwrap_or(1),
            "--shard" => {
                let s = next();
                let mut it = s.split('/');
                let a = it.next().and_then(|x| x.parse().ok()).unwrap_or(0);
                let b = it.next().and_then(|x| x.parse().ok()).unwrap_or(1);
                o.shard = Some((a, b));
            }
            "--out" => o.out = Some(PathBuf::from(next())),
            "--replay" => o.replay = Some(PathBuf::from(next())),
            "--index" => o.only_index = next().parse().ok(),
            "--cases" => o.cases_override = next().parse().ok(),
            "--aux" => {
                let spec = next();
                let code = match o.id.to_ascii_uppercase().as_str() {
                    "C18" => c18::aux_main(&spec),
                    "C12" => c12::aux_main(&spec),
                    "E2E" => e2e::aux_main(&spec),
                    _ => 2,
                };
                std::process::exit(code);
            }
            "-v" | "--verbose" => o.verbose = true,
            other => {
                eprintln!("unknown argument {other}");
                std::process::exit(2);
            }
        }
        i += 1;
    }
    let _ = tier_given;
    let reg = registry();
    let Some(check) = reg.iter().find(|c| c.id().eq_ignore_ascii_case(&o.id)) else {
        eprintln!("unknown check {}", o.id);
        std::process::exit(2);
    };
    // Quiet panic hook: target panics are caught and classified by the checks; remember the
    // message + location so that a violation can cite it.
    std::panic::set_hook(Box::new(|info| {
        let loc = info.location().map(|l| format!("{}:{}", l.file(), l.line())).unwrap_or_default();
        let msg = info
            .payload()
            .downcast_ref::<String>()
            .cloned()
            .or_else(|| info.payload().downcast_ref::<&str>().map(|s| s.to_string()))
            .unwrap_or_default();
        LAST_PANIC.with(|p| *p.borrow_mut() = Some(format!("{msg} at {loc}")));
        if std::env::var_os("VERIF_PANIC_TRACE").is_some() {
            eprintln!("panic: {msg} at {loc}");
        }
    }));
    let code = if o.replay.is_some() {
        common::replay(check.as_ref(), &o)
    } else if o.shard.is_some() || o.only_index.is_some() {
        common::run_shard(check.as_ref(), &o)
    } else {
        common::run_parent(check.as_ref(), &o)
    };
    std::process::exit(code);
}

pub fn last_panic() -> String {
    LAST_PANIC.with(|p| p.borrow_mut().take()).unwrap_or_default()
}
