//! Shared infrastructure: seeded per-case RNG, per-shard report, sharded parent/child runner,
//! three-valued verdicts, known-findings filter and evidence writer.

use rand::{rngs::StdRng, SeedableRng};
use serde::{Deserialize, Serialize};
use serde_json::{json, Value};
use std::collections::{BTreeMap, BTreeSet};
use std::hash::{Hash, Hasher};
use std::io::Write;
use std::path::{Path, PathBuf};
use std::time::{Duration, Instant};

pub const VERIF_ROOT: &str = "/verif";

#[derive(Clone, Copy, Debug, PartialEq, Eq)]
pub enum Tier {
    Quick,
    Thorough,
}

impl Tier {
    pub fn as_str(self) -> &'static str {
        match self {
            Tier::Quick => "quick",
            Tier::Thorough => "thorough",
        }
    }
    pub fn pick<T>(self, quick: T, thorough: T) -> T {
        match self {
            Tier::Quick => quick,
            Tier::Thorough => thorough,
        }
    }
}

/// Stable 64-bit hash (SipHash with fixed keys) used for "distinct case" counting and RNG derivation.
pub fn h64<T: Hash + ?Sized>(t: &T) -> u64 {
    #[allow(deprecated)]
    let mut h = std::hash::SipHasher::new_with_keys(0x7665_7269_66, 0x6861_726e_6573_73);
    t.hash(&mut h);
    h.finish()
}

/// first index of the real-network lane's cases
pub const LANE_BASE: u64 = 1_000_000;

pub fn case_rng(seed: u64, id: &str, index: u64) -> StdRng {
    StdRng::seed_from_u64(h64(&(seed, id, index)))
}

#[derive(Clone, Debug, Serialize, Deserialize)]
pub struct Violation {
    /// Fine-grained class; known findings are keyed on this exact string.
    pub signature: String,
    pub detail: String,
    pub index: u64,
    pub witness: Value,
}

#[derive(Default, Serialize, Deserialize)]
pub struct Report {
    pub evaluations: u64,
    pub cases_run: u64,
    pub distinct: BTreeSet<u64>,
    pub counters: BTreeMap<String, u64>,
    pub samples: Vec<Value>,
    pub violations: Vec<Violation>,
    pub inconclusive: Vec<String>,
    pub wall_s: f64,
}

impl Report {
    pub fn merge(&mut self, other: Report) {
        self.evaluations += other.evaluations;
        self.cases_run += other.cases_run;
        self.distinct.extend(other.distinct);
        for (k, v) in other.counters {
            *self.counters.entry(k).or_default() += v;
        }
        for s in other.samples {
            if self.samples.len() < 6 {
                self.samples.push(s);
            }
        }
        self.violations.extend(other.violations);
        self.inconclusive.extend(other.inconclusive);
    }
}

/// Per-case context handed to a check.
pub struct Cx<'a> {
    pub id: &'static str,
    pub tier: Tier,
    pub seed: u64,
    pub index: u64,
    pub rng: StdRng,
    pub verbose: bool,
    pub report: &'a mut Report,
}

impl Cx<'_> {
    /// One oracle evaluation (an operation checked against the model / one input judged).
    pub fn eval(&mut self) {
        self.report.evaluations += 1;
    }
    pub fn evals(&mut self, n: u64) {
        self.report.evaluations += n;
    }
    pub fn count(&mut self, name: &str) {
        *self.report.counters.entry(name.to_string()).or_default() += 1;
    }
    pub fn count_n(&mut self, name: &str, n: u64) {
        *self.report.counters.entry(name.to_string()).or_default() += n;
    }
    /// Register a case as non-trivial; `h` must identify the case (history/schedule/input hash).
    pub fn nontrivial<T: Hash + ?Sized>(&mut self, h: &T) {
        self.report.distinct.insert(h64(&(self.id, h64(h))));
    }
    pub fn sample(&mut self, v: Value) {
        if self.report.samples.len() < 3 {
            self.report.samples.push(v);
        }
    }
    pub fn violation(&mut self, signature: impl Into<String>, detail: impl Into<String>, witness: Value) {
        let mut detail: String = detail.into();
        if detail.len() > 600 {
            let cut = (0..=600).rev().find(|i| detail.is_char_boundary(*i)).unwrap_or(0);
            detail.truncate(cut);
            detail.push_str("...");
        }
        let v = Violation {
            signature: signature.into(),
            detail,
            index: self.index,
            witness,
        };
        if self.verbose {
            eprintln!("violation: {} :: {}", v.signature, v.detail);
        }
        // keep at most 50 per shard, at most 5 per signature, so a broken tree does not flood
        let same = self.report.violations.iter().filter(|x| x.signature == v.signature).count();
        if self.report.violations.len() < 50 && same < 5 {
            self.report.violations.push(v);
        } else {
            self.count("violations_not_recorded");
        }
    }
    pub fn inconclusive(&mut self, reason: impl Into<String>) {
        let r = reason.into();
        if self.report.inconclusive.len() < 20 {
            self.report.inconclusive.push(format!("case {}: {}", self.index, r));
        }
    }
    pub fn log(&self, msg: impl AsRef<str>) {
        if self.verbose {
            eprintln!("[{} #{}] {}", self.id, self.index, msg.as_ref());
        }
    }
}

pub trait Check: Sync {
    fn id(&self) -> &'static str;
    fn level(&self) -> &'static str {
        "exploration"
    }
    fn rule(&self) -> String;
    fn assumptions(&self) -> Vec<String>;
    /// Number of cases for the tier (cases are distributed round-robin over shards).
    fn cases(&self, tier: Tier) -> u64;
    /// Cases of the real-network lane: indices `LANE_BASE + j`, run first in their shard (round-robin over shards).
    fn lane_cases(&self, _tier: Tier) -> u64 {
        0
    }
    /// Wall-clock budget for a shard, after which it stops taking new cases (not a verdict).
    fn shard_budget(&self, tier: Tier) -> Duration {
        tier.pick(Duration::from_secs(100), Duration::from_secs(900))
    }
    /// Number of shard processes.
    fn shards(&self, _tier: Tier) -> usize {
        16
    }
    /// A run with fewer distinct non-trivial cases than this is inconclusive.
    fn min_nontrivial(&self, _tier: Tier) -> u64 {
        2
    }
    /// Abnormal death of a shard (abort, stack overflow, OOM kill) while running a case is
    /// itself a violation of the property ("never crashes") rather than a harness failure.
    fn crash_is_violation(&self) -> bool {
        false
    }
    /// CPU time a single case may use before the shard is declared stuck in it (non-termination is a violation of
    /// "returns a value or an error"); `None` = not monitored (cases that legitimately run long or idle-spin).
    fn hang_cpu_budget(&self, _tier: Tier) -> Option<Duration> {
        None
    }
    fn exhaustive(&self, _tier: Tier) -> bool {
        false
    }
    /// Counters that must be non-zero at the end of a run, else the run is inconclusive.
    fn required_counters(&self, _tier: Tier) -> Vec<&'static str> {
        vec![]
    }
    /// Once-per-shard set-up (e.g. tokio runtime); default none.
    fn run_case(&self, cx: &mut Cx);
    /// Extra environment for shard children.
    fn child_env(&self) -> Vec<(String, String)> {
        vec![]
    }
    /// A check whose cases need differently built binaries (C14: `MAX_CHUNK_SIZE` is a compile-time
    /// constant of the self_encryption crate) names the executable per case index; it must depend
    /// on `index % 2` only, so that with an even shard count every shard uses one executable.
    fn exe_for_index(&self, _index: u64) -> Option<PathBuf> {
        None
    }
    /// Targets of the Miri lane (/verif/harness-miri) that belong to this property; run in the
    /// given tier after the shards. (processes, operations per process)
    fn miri_lane(&self, _tier: Tier) -> Option<(Vec<&'static str>, usize, usize)> {
        None
    }
}

pub struct Opts {
    pub id: String,
    pub tier: Tier,
    pub seed: u64,
    pub shard: Option<(usize, usize)>,
    pub out: Option<PathBuf>,
    pub replay: Option<PathBuf>,
    pub only_index: Option<u64>,
    pub verbose: bool,
    pub cases_override: Option<u64>,
}

pub fn runs_dir(id: &str) -> PathBuf {
    let p = Path::new(VERIF_ROOT).join("runs").join(id);
    let _ = std::fs::create_dir_all(&p);
    p
}

/// Scratch root for a case; removed by the caller. Lives under /verif/runs/tmp (git-ignored).
pub fn scratch_dir(tag: &str) -> PathBuf {
    let base = std::env::var("VERIF_SCRATCH").unwrap_or_else(|_| format!("{VERIF_ROOT}/runs/tmp"));
    let p = Path::new(&base).join(format!("{tag}-{}-{}", std::process::id(), rand::random::<u32>()));
    std::fs::create_dir_all(&p).expect("create scratch dir");
    p
}

fn journal_path(id: &str, shard: usize) -> PathBuf {
    runs_dir(id).join(format!("journal-{shard}"))
}

/// Child: run this shard's cases and write the report.
pub fn run_shard(check: &dyn Check, o: &Opts) -> i32 {
    let (shard, nshards) = o.shard.unwrap_or((0, 1));
    if let Some(i) = o.only_index {
        // a single case (replay) that belongs to the other build: hand over to that executable
        if let Some(want) = check.exe_for_index(i) {
            let cur = std::env::current_exe().ok().and_then(|p| p.canonicalize().ok());
            if want.canonicalize().ok() != cur && std::env::var_os("VERIF_NO_REEXEC").is_none() {
                let st = std::process::Command::new(&want).args(std::env::args().skip(1)).env("VERIF_NO_REEXEC", "1").status();
                return st.ok().and_then(|s| s.code()).unwrap_or(2);
            }
        }
    }
    let total = o.cases_override.unwrap_or_else(|| check.cases(o.tier));
    let start = Instant::now();
    let budget = check.shard_budget(o.tier);
    let mut report = Report::default();
    let jpath = journal_path(check.id(), shard);
    let mut journal = std::fs::OpenOptions::new()
        .create(true)
        .write(true)
        .truncate(true)
        .open(&jpath)
        .ok();
    let indices: Box<dyn Iterator<Item = u64>> = match o.only_index {
        Some(i) => Box::new(std::iter::once(i)),
        None => {
            let lane = if o.cases_override.is_some() { 0 } else { check.lane_cases(o.tier) };
            Box::new((0..lane).filter(move |j| (*j as usize) % nshards == shard).map(|j| LANE_BASE + j).chain((0..total).filter(move |i| (*i as usize) % nshards == shard)))
        }
    };
    for index in indices {
        if o.only_index.is_none() && start.elapsed() > budget {
            *report.counters.entry("cases_skipped_by_time_budget".into()).or_default() += 1;
            continue;
        }
        if let Some(j) = journal.as_mut() {
            use std::os::unix::fs::FileExt;
            let _ = j.write_at(&index.to_le_bytes(), 0);
        }
        let mut cx = Cx {
            id: check.id(),
            tier: o.tier,
            seed: o.seed,
            index,
            rng: case_rng(o.seed, check.id(), index),
            verbose: o.verbose,
            report: &mut report,
        };
        let res = std::panic::catch_unwind(std::panic::AssertUnwindSafe(|| check.run_case(&mut cx)));
        report.cases_run += 1;
        if let Err(p) = res {
            let msg = p
                .downcast_ref::<String>()
                .cloned()
                .or_else(|| p.downcast_ref::<&str>().map(|s| s.to_string()))
                .unwrap_or_else(|| "non-string panic".into());
            // A panic that escaped a case is a harness-level failure unless the check classifies
            // target panics itself (checks wrap target calls in their own catch_unwind).
            if index >= LANE_BASE {
                // the real-network lane is supplementary: a case that could not be completed judges nothing
                *report.counters.entry("realnet:abandoned:harness-panic".into()).or_default() += 1;
                *report.counters.entry("realnet:cases-abandoned".into()).or_default() += 1;
                eprintln!("real-network lane case {index} abandoned: harness panic: {msg}");
            } else if report.inconclusive.len() < 20 {
                report.inconclusive.push(format!("case {index}: harness panic: {msg}"));
            }
        }
    }
    if let Some(j) = journal.as_mut() {
        use std::os::unix::fs::FileExt;
        let _ = j.write_at(&u64::MAX.to_le_bytes(), 0);
    }
    report.wall_s = start.elapsed().as_secs_f64();
    let out = o.out.clone().unwrap_or_else(|| runs_dir(check.id()).join(format!("shard-{shard}.json")));
    let bytes = serde_json::to_vec(&report).expect("serialise report");
    std::fs::write(&out, bytes).expect("write shard report");
    if o.shard.is_none() || o.only_index.is_some() {
        // direct invocation (replay): print a summary
        for v in &report.violations {
            println!("violation signature={} detail={}", v.signature, v.detail);
        }
        for r in &report.inconclusive {
            println!("inconclusive: {r}");
        }
        println!("cases_run={} evaluations={} violations={}", report.cases_run, report.evaluations, report.violations.len());
        return if !report.violations.is_empty() { 1 } else if !report.inconclusive.is_empty() { 2 } else { 0 };
    }
    0
}

#[derive(Deserialize, Default)]
struct KnownFindingsFile {
    #[serde(default)]
    findings: Vec<KnownFinding>,
    #[serde(default)]
    #[allow(dead_code)]
    fixed: Vec<Value>,
}

#[derive(Deserialize, Clone)]
struct KnownFinding {
    property: String,
    signature: String,
    what: String,
}

fn load_known(id: &str) -> Vec<KnownFinding> {
    let p = Path::new(VERIF_ROOT).join("known_findings.json");
    let Ok(bytes) = std::fs::read(&p) else { return vec![] };
    let f: KnownFindingsFile = serde_json::from_slice(&bytes).unwrap_or_default();
    f.findings.into_iter().filter(|k| k.property == id).collect()
}

/// user + system CPU time of a process and its threads so far, from /proc (clock ticks of 1/100 s)
fn process_cpu_seconds(pid: u32) -> Option<f64> {
    let stat = std::fs::read_to_string(format!("/proc/{pid}/stat")).ok()?;
    let rest = &stat[stat.rfind(')')? + 1..];
    let f: Vec<&str> = rest.split_whitespace().collect();
    // after the command name: state is field 0, utime field 11, stime field 12
    let ut: f64 = f.get(11)?.parse().ok()?;
    let stt: f64 = f.get(12)?.parse().ok()?;
    Some((ut + stt) / 100.0)
}

/// Parent: spawn shards, merge, judge, write evidence. Returns the process exit code.
pub fn run_parent(check: &dyn Check, o: &Opts) -> i32 {
    let id = check.id();
    let start = Instant::now();
    let nshards = check.shards(o.tier).max(1);
    let dir = runs_dir(id);
    let exe = std::env::current_exe().expect("current exe");
    // stale witnesses of an earlier run must not be mistaken for this run's
    if let Ok(rd) = std::fs::read_dir(&dir) {
        for e in rd.flatten() {
            if e.file_name().to_string_lossy().starts_with("violation-") {
                let _ = std::fs::remove_file(e.path());
            }
        }
    }
    let mut children = vec![];
    for shard in 0..nshards {
        let out = dir.join(format!("shard-{shard}.json"));
        let _ = std::fs::remove_file(&out);
        let shard_exe = check.exe_for_index(shard as u64).unwrap_or_else(|| exe.clone());
        let mut cmd = std::process::Command::new(&shard_exe);
        cmd.arg(id)
            .arg("--tier")
            .arg(o.tier.as_str())
            .arg("--seed")
            .arg(o.seed.to_string())
            .arg("--shard")
            .arg(format!("{shard}/{nshards}"))
            .arg("--out")
            .arg(&out);
        if let Some(c) = o.cases_override {
            cmd.arg("--cases").arg(c.to_string());
        }
        for (k, v) in check.child_env() {
            cmd.env(k, v);
        }
        let log = std::fs::File::create(dir.join(format!("shard-{shard}.stderr"))).expect("log file");
        cmd.stderr(log).stdout(std::process::Stdio::null());
        let child = cmd.spawn().expect("spawn shard");
        children.push((shard, out, child));
    }
    // generous wall-clock watchdog: budget * 3 + 120 s; its firing is *inconclusive*
    let watchdog = check.shard_budget(o.tier) * 3 + Duration::from_secs(120);
    let mut merged = Report::default();
    let mut inconclusive: Vec<String> = vec![];
    let mut crash_violations: Vec<Violation> = vec![];
    // Non-termination monitor (checks that opt in through `hang_cpu_budget`): a shard whose journal names the same case
    // while the process has burnt more than the budget of *CPU time* (not wall time: immune to a loaded machine) is
    // stuck in that case; it is killed and the case reported.
    let hang_budget = check.hang_cpu_budget(o.tier);
    let read_idx = |shard: usize| -> Option<u64> { std::fs::read(journal_path(id, shard)).ok().and_then(|b| b.get(..8).map(|s| u64::from_le_bytes(s.try_into().expect("8 bytes")))) };
    struct Watch {
        shard: usize,
        out: PathBuf,
        child: std::process::Child,
        status: Option<Option<std::process::ExitStatus>>,
        idx: Option<u64>,
        cpu_at_idx: f64,
        hung: Option<(u64, f64)>,
    }
    let mut watch: Vec<Watch> = children.into_iter().map(|(shard, out, child)| Watch { shard, out, child, status: None, idx: None, cpu_at_idx: 0.0, hung: None }).collect();
    let mut last_cpu_poll = Instant::now();
    loop {
        let mut running = 0;
        let poll_cpu = hang_budget.is_some() && last_cpu_poll.elapsed() > Duration::from_millis(500);
        for w in watch.iter_mut() {
            if w.status.is_some() {
                continue;
            }
            match w.child.try_wait() {
                Ok(Some(st)) => w.status = Some(Some(st)),
                Ok(None) => {
                    running += 1;
                    if start.elapsed() > watchdog {
                        let _ = w.child.kill();
                        let _ = w.child.wait();
                        w.status = Some(None);
                    } else if poll_cpu {
                        if let (Some(budget), Some(cpu)) = (hang_budget, process_cpu_seconds(w.child.id())) {
                            let idx = read_idx(w.shard);
                            if idx != w.idx {
                                w.idx = idx;
                                w.cpu_at_idx = cpu;
                            } else if idx.is_some() && idx != Some(u64::MAX) && cpu - w.cpu_at_idx > budget.as_secs_f64() {
                                w.hung = Some((idx.unwrap_or(0), cpu - w.cpu_at_idx));
                                let _ = w.child.kill();
                                let _ = w.child.wait();
                                w.status = Some(None);
                            }
                        }
                    }
                }
                Err(_) => w.status = Some(None),
            }
        }
        if poll_cpu {
            last_cpu_poll = Instant::now();
        }
        if running == 0 {
            break;
        }
        std::thread::sleep(Duration::from_millis(50));
    }
    for w in watch {
        let (shard, out) = (w.shard, w.out);
        if let Some((case, cpu)) = w.hung {
            crash_violations.push(Violation {
                signature: "non-termination".into(),
                detail: format!("shard {shard}: case {case} used {cpu:.0} s of CPU time without finishing (cases of this check normally take milliseconds); the shard was stopped"),
                index: case,
                witness: json!({"cpu_seconds": cpu, "shard": shard}),
            });
            continue;
        }
        match w.status.flatten() {
            None => inconclusive.push(format!("shard {shard}: wall-clock watchdog fired after {watchdog:?}")),
            Some(st) if st.success() => match std::fs::read(&out).ok().and_then(|b| serde_json::from_slice::<Report>(&b).ok()) {
                Some(r) => merged.merge(r),
                None => inconclusive.push(format!("shard {shard}: missing or unreadable report")),
            },
            Some(st) => {
                // abnormal death: which case was running?
                let idx = read_idx(shard);
                if check.crash_is_violation() && idx.is_some() && idx != Some(u64::MAX) {
                    crash_violations.push(Violation {
                        signature: "process-crash".into(),
                        detail: format!("shard {shard} died ({st}) while running case {}", idx.unwrap_or(0)),
                        index: idx.unwrap_or(0),
                        witness: json!({"exit": format!("{st}")}),
                    });
                } else {
                    inconclusive.push(format!("shard {shard}: exited abnormally ({st}) at case {idx:?}"));
                }
            }
        }
    }
    merged.violations.extend(crash_violations);
    inconclusive.extend(merged.inconclusive.iter().cloned());
    if let Some((targets, procs, ops)) = check.miri_lane(o.tier) {
        run_miri_lane(id, o, &targets, procs, ops, &mut merged, &mut inconclusive);
    }
    finish(check, o, merged, inconclusive, start.elapsed().as_secs_f64())
}

/// The UB-interpreter lane: the pure-Rust decoders / parsers run under `cargo +nightly miri run`
/// in parallel processes. A Miri diagnostic (undefined behaviour, data race, leak of the target) or a
/// panic inside a target is a violation; a lane that cannot be built or run is inconclusive.
fn run_miri_lane(id: &str, o: &Opts, targets: &[&'static str], procs: usize, ops: usize, merged: &mut Report, inconclusive: &mut Vec<String>) {
    let dir = runs_dir(id);
    let manifest = format!("{VERIF_ROOT}/harness-miri/Cargo.toml");
    let lock = format!("{VERIF_ROOT}/harness-miri/Cargo.lock");
    if std::fs::metadata(&lock).is_err() || std::fs::metadata("/repo/Cargo.lock").and_then(|a| Ok(a.modified()? > std::fs::metadata(&lock)?.modified()?)).unwrap_or(false) {
        let _ = std::fs::copy("/repo/Cargo.lock", &lock);
    }
    let cmd = |seed: u64, n: usize, target: &str| {
        let mut c = std::process::Command::new("cargo");
        c.args(["+nightly", "miri", "run", "--offline", "--quiet", "--manifest-path", &manifest, "--", &seed.to_string(), &n.to_string(), target]).env("CARGO_NET_OFFLINE", "true").env_remove("MIRIFLAGS");
        c
    };
    // build (and smoke-run) once, then fan out
    let t0 = Instant::now();
    match cmd(0, 1, targets[0]).output() {
        Ok(out) if out.status.success() && String::from_utf8_lossy(&out.stdout).contains("DONE") => {}
        Ok(out) => {
            let err = String::from_utf8_lossy(&out.stderr);
            let tail: String = err.lines().rev().take(6).collect::<Vec<_>>().join(" | ");
            inconclusive.push(format!("miri lane could not be built / started: {tail}"));
            return;
        }
        Err(e) => {
            inconclusive.push(format!("miri lane could not be started: {e}"));
            return;
        }
    }
    let mut children = vec![];
    for p in 0..procs {
        let target = targets[p % targets.len()];
        let seed = h64(&(o.seed, id, "miri", p as u64));
        let mut c = cmd(seed, ops, target);
        let out_path = dir.join(format!("miri-{p}.out"));
        let err_path = dir.join(format!("miri-{p}.err"));
        c.stdout(std::fs::File::create(&out_path).expect("out")).stderr(std::fs::File::create(&err_path).expect("err"));
        match c.spawn() {
            Ok(ch) => children.push((p, target, seed, out_path, err_path, ch)),
            Err(e) => inconclusive.push(format!("miri process {p}: {e}")),
        }
    }
    let deadline = Duration::from_secs(3600);
    for (p, target, seed, out_path, err_path, mut ch) in children {
        let st = loop {
            match ch.try_wait() {
                Ok(Some(st)) => break Some(st),
                Ok(None) if t0.elapsed() > deadline => {
                    let _ = ch.kill();
                    let _ = ch.wait();
                    break None;
                }
                Ok(None) => std::thread::sleep(Duration::from_millis(100)),
                Err(_) => break None,
            }
        };
        let out = std::fs::read_to_string(&out_path).unwrap_or_default();
        let err = std::fs::read_to_string(&err_path).unwrap_or_default();
        let done = out.lines().find(|l| l.starts_with("DONE"));
        for l in out.lines().filter(|l| l.starts_with("PANIC")) {
            merged.violations.push(Violation { signature: format!("miri-lane-panic:{target}"), detail: l.chars().take(300).collect(), index: p as u64, witness: json!({"lane": "miri", "target": target, "seed": seed, "ops": ops}) });
        }
        match (st, done) {
            (Some(s), Some(d)) if s.success() => {
                let n: u64 = d.split("ops=").nth(1).and_then(|x| x.split_whitespace().next()).and_then(|x| x.parse().ok()).unwrap_or(0);
                *merged.counters.entry("miri:operations-interpreted".into()).or_default() += n;
                *merged.counters.entry(format!("miri:ops:{target}")).or_default() += n;
                *merged.counters.entry("miri:processes".into()).or_default() += 1;
                merged.evaluations += n;
            }
            (None, _) => inconclusive.push(format!("miri process {p} ({target}): watchdog")),
            (Some(s), _) => {
                // Miri's own diagnostic
                let diag = err.lines().find(|l| l.starts_with("error")).unwrap_or("").to_string();
                if diag.contains("Undefined Behavior") || diag.contains("data race") || diag.contains("memory leaked") {
                    let frame = err.lines().find(|l| l.contains("/repo/")).unwrap_or("").trim().to_string();
                    merged.violations.push(Violation { signature: format!("miri-diagnostic:{target}"), detail: format!("{diag} {frame}").chars().take(400).collect(), index: p as u64, witness: json!({"lane": "miri", "target": target, "seed": seed, "ops": ops, "stderr": err_path.display().to_string()}) });
                } else {
                    inconclusive.push(format!("miri process {p} ({target}) ended with {s}: {}", diag.chars().take(200).collect::<String>()));
                }
            }
        }
    }
    *merged.counters.entry("miri:lane-wall-s".into()).or_default() += t0.elapsed().as_secs();
}

fn finish(check: &dyn Check, o: &Opts, merged: Report, mut inconclusive: Vec<String>, wall_s: f64) -> i32 {
    let id = check.id();
    let dir = runs_dir(id);
    let known = load_known(id);
    let mut known_hit: BTreeMap<String, String> = BTreeMap::new();
    let mut unknown: Vec<&Violation> = vec![];
    for v in &merged.violations {
        if let Some(k) = known.iter().find(|k| k.signature == v.signature) {
            known_hit.insert(k.signature.clone(), k.what.clone());
        } else {
            unknown.push(v);
        }
    }
    for c in check.required_counters(o.tier) {
        if merged.counters.get(c).copied().unwrap_or(0) == 0 {
            inconclusive.push(format!("required coverage counter `{c}` is zero"));
        }
    }
    let distinct = merged.distinct.len() as u64;
    // On a slow or loaded machine shards stop taking new cases when their time budget is used up (that is
    // not a verdict); the coverage floor is then scaled to the share of the planned cases that did run.
    let planned = o.cases_override.unwrap_or_else(|| check.cases(o.tier) + check.lane_cases(o.tier)).max(1);
    let ran = merged.cases_run.min(planned);
    let floor = ((check.min_nontrivial(o.tier) as u128 * ran as u128) / planned as u128) as u64;
    let floor = floor.max(check.min_nontrivial(o.tier).min(2));
    if distinct < floor && unknown.is_empty() {
        inconclusive.push(format!("only {distinct} distinct non-trivial cases observed (< {floor}; {ran} of {planned} planned cases ran)"));
    }
    // violation files
    let mut lines = vec![];
    let mut seen_sig = BTreeSet::new();
    for (n, v) in unknown.iter().enumerate() {
        if !seen_sig.insert(v.signature.clone()) && n >= 3 {
            continue;
        }
        let path = dir.join(format!("violation-{n}.json"));
        let body = json!({
            "property": id, "tier": o.tier.as_str(), "seed": o.seed, "index": v.index,
            "signature": v.signature, "detail": v.detail, "witness": v.witness,
            "replay": format!("./check {id} --replay {}", path.display()),
        });
        let _ = std::fs::write(&path, serde_json::to_vec_pretty(&body).expect("json"));
        lines.push(format!("VIOLATION property={id} replay={}", path.display()));
        eprintln!("  signature={} detail={}", v.signature, v.detail);
    }
    // evidence
    let mut coverage = serde_json::Map::new();
    coverage.insert("evaluations".into(), json!(merged.evaluations));
    coverage.insert("distinct_nontrivial".into(), json!(distinct));
    coverage.insert("rule".into(), json!(check.rule()));
    coverage.insert("samples".into(), json!(merged.samples));
    coverage.insert("cases_run".into(), json!(merged.cases_run));
    coverage.insert("cases_planned".into(), json!(planned));
    coverage.insert("distinct_nontrivial_floor".into(), json!(floor));
    coverage.insert("counters".into(), json!(merged.counters));
    if check.lane_cases(o.tier) > 0 {
        let g = |k: &str| merged.counters.get(k).copied().unwrap_or(0);
        coverage.insert(
            "real_network_lane".into(),
            json!({"cases_planned": check.lane_cases(o.tier), "networks_formed": g("realnet:networks-formed"), "real_nodes_started": g("realnet:nodes-started"), "cases_abandoned_without_verdict": g("realnet:cases-abandoned") + g("realnet:abandoned:formation"),
                   "note": "supplementary lane: real nodes with their own event loops on loopback; a case that cannot be completed (network not formed, watchdog) is abandoned and judges nothing; its counters are not required for the run to count"}),
        );
    }
    coverage.insert("exhaustive".into(), json!(check.exhaustive(o.tier) && merged.counters.get("cases_skipped_by_time_budget").copied().unwrap_or(0) == 0));
    coverage.insert("known_findings_reproduced".into(), json!(known_hit.keys().collect::<Vec<_>>()));
    coverage.insert("inconclusive".into(), json!(inconclusive));
    coverage.insert("shards".into(), json!(check.shards(o.tier)));
    let evidence = json!({
        "property_id": id,
        "tier": o.tier.as_str(),
        "seed": o.seed,
        "level": check.level(),
        "coverage": Value::Object(coverage),
        "assumptions": check.assumptions(),
        "wall_s": wall_s,
        "violations": unknown.len(),
    });
    let epath = Path::new(VERIF_ROOT).join("evidence").join(format!("{id}.json"));
    let _ = std::fs::create_dir_all(epath.parent().expect("parent"));
    let mut f = std::fs::File::create(&epath).expect("evidence file");
    f.write_all(&serde_json::to_vec_pretty(&evidence).expect("json")).expect("write evidence");

    for (sig, what) in &known_hit {
        println!("KNOWN-FINDING: property={id} {what} [{sig}]");
    }
    println!(
        "{id} {}: cases={} evaluations={} distinct_nontrivial={} violations={} known_findings={} wall={:.1}s",
        o.tier.as_str(), merged.cases_run, merged.evaluations, distinct, unknown.len(), known_hit.len(), wall_s
    );
    if !lines.is_empty() {
        for l in lines {
            println!("{l}");
        }
        return 1;
    }
    if !inconclusive.is_empty() {
        for r in inconclusive.iter().take(10) {
            println!("INCONCLUSIVE property={id} reason={r}");
        }
        return 2;
    }
    0
}

pub fn replay(check: &dyn Check, o: &Opts) -> i32 {
    let path = o.replay.clone().expect("replay path");
    let v: Value = match std::fs::read(&path).ok().and_then(|b| serde_json::from_slice(&b).ok()) {
        Some(v) => v,
        None => {
            eprintln!("cannot read {}", path.display());
            return 2;
        }
    };
    let tier = if v["tier"] == "thorough" { Tier::Thorough } else { Tier::Quick };
    let o2 = Opts {
        id: o.id.clone(),
        tier,
        seed: v["seed"].as_u64().unwrap_or(0),
        shard: None,
        out: Some(runs_dir(check.id()).join("replay.json")),
        replay: None,
        only_index: Some(v["index"].as_u64().unwrap_or(0)),
        verbose: true,
        cases_override: None,
    };
    run_shard(check, &o2)
}

// ---------------------------------------------------------------------------------------------
// small helpers shared by checks

pub fn hex(b: &[u8]) -> String {
    hex::encode(b)
}

pub fn short_hex(b: &[u8]) -> String {
    let h = hex::encode(b);
    if h.len() > 16 {
        format!("{}..{}", &h[..8], &h[h.len() - 6..])
    } else {
        h
    }
}

/// Run `f` catching a panic of the *target* code; returns Err(message) on panic.
pub fn catch<T>(f: impl FnOnce() -> T) -> Result<T, String> {
    std::panic::catch_unwind(std::panic::AssertUnwindSafe(f)).map_err(|p| {
        p.downcast_ref::<String>()
            .cloned()
            .or_else(|| p.downcast_ref::<&str>().map(|s| s.to_string()))
            .unwrap_or_else(|| "non-string panic".into())
    })
}
