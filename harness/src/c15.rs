//! C15 — client reads are authenticated against the requested address.
//!
//! A real `Client` reads through a real client SwarmDriver (real quorum accumulation, real split
//! handling); the harness plays 1-7 holders of which any number are faulty or adversarial and feeds
//! their replies as kad progress events for the real QueryIds. Judged at the client boundary:
//! `chunk_get`, `data_get_public` / `data_get`, `fetch_and_decrypt_vault`.

use crate::clientsim::{ClientSim, Order, Reply};
use crate::common::*;
use crate::gen;
use ant_protocol::storage::{try_serialize_record, Chunk, RecordKind, ScratchpadAddress};
use ant_protocol::NetworkAddress;
use autonomi::client::data::DataMapChunk;
use bytes::Bytes;
use rand::{seq::SliceRandom, Rng, RngCore};
use serde_json::json;
use std::collections::HashMap;

pub struct C15;

fn content_hash(b: &[u8]) -> [u8; 32] {
    use tiny_keccak::{Hasher, Sha3};
    let mut h = Sha3::v256();
    let mut out = [0u8; 32];
    h.update(b);
    h.finalize(&mut out);
    out
}

fn chunk_value(c: &Chunk) -> Vec<u8> {
    gen::chunk_record(c).value
}

/// what a faulty / adversarial holder may put under a chunk key instead of the chunk
fn substitute<R: Rng>(rng: &mut R, honest: &Chunk, pool: &[Chunk]) -> (Vec<u8>, &'static str) {
    match rng.gen_range(0..8) {
        0 | 1 => {
            let ol = rng.gen_range(1..200);
            let other = gen::chunk(rng, ol);
            (chunk_value(&other), "other-chunk")
        }
        2 if !pool.is_empty() => (chunk_value(pool.choose(rng).expect("nonempty")), "chunk-of-another-file"),
        3 => {
            // same content, wrong kind tag
            let v = try_serialize_record(honest, RecordKind::ChunkWithPayment).expect("ser").to_vec();
            (v, "wrong-kind:chunk-with-payment-tag")
        }
        4 => {
            let owner = gen::bls_sk(rng);
            let p = gen::pad(&owner, 1, &gen::bytes_r(rng, 1, 40), 0);
            (gen::pad_record(&p).value, "wrong-kind:scratchpad")
        }
        5 => (gen::bytes_r(rng, 0, 60), "garbage"),
        6 => {
            let mut v = chunk_value(honest);
            let cut = rng.gen_range(0..v.len());
            v.truncate(cut);
            (v, "truncated")
        }
        _ => {
            let mut v = chunk_value(honest);
            let i = rng.gen_range(0..v.len());
            v[i] ^= 1 << rng.gen_range(0..8);
            (v, "bit-flip")
        }
    }
}

#[derive(Clone, Copy, Debug, PartialEq, Eq)]
enum PadClass {
    Authentic,
    /// as created and never signed: counter 0, empty payload, no signature
    Blank,
    Unsigned,
    BadSignature,
    /// counter and signature of an authentic version the owner really wrote, around another payload
    PayloadSwapped,
    ForeignOwner,
    WrongKind,
    Garbage,
}

struct PadVersion {
    class: PadClass,
    counter: u64,
    plaintext: Vec<u8>,
    value: Vec<u8>,
}

impl Check for C15 {
    fn id(&self) -> &'static str {
        "C15"
    }
    fn rule(&self) -> String {
        "each case: a real Client over a real client SwarmDriver; the harness plays the holders. \
         (chunk) chunk_get(addr): the first / only reply is the honest chunk or a substitute (another chunk, a chunk of another file, wrong kind tag, scratchpad, garbage, truncated, bit flip), optionally followed by honest copies, or not-found / timeout. Ok(chunk) is admissible only if SHA3-256(chunk.value) == addr (recomputed by the harness). \
         (data) data_get_public(addr) / data_get(map) of a self-encrypted file while one address (the data map or a data chunk) is served substituted, incl. a complete other file's data map with its chunks served honestly. Ok(bytes) is admissible only if bytes == the file the address commits to. \
         (vault) fetch_and_decrypt_vault(sk): 1-7 holder replies drawn from 1-4 versions: owner-signed (several counters, equal counters), unsigned, wrongly signed, validly signed by a foreign owner (payload encrypted to the victim's public key, inflated counter), wrong kind, garbage; then finished / timeout. Ok(content) is admissible only if it is the plaintext of an owner-signed version whose counter is the highest among the owner-signed versions delivered before the outcome. \
         Errors are always admissible; honest controls must succeed for the run to count (required counters). Non-trivial: a case with at least one non-honest reply delivered; distinct = hash of (mode, substitution classes, reply script)."
            .into()
    }
    fn assumptions(&self) -> Vec<String> {
        vec![
            "holders' replies are fabricated kad events for the real QueryId (the swarm is never polled); quorum accumulation and split handling are the real code".into(),
            "forged data chunks that decrypt correctly under the victim's data map are not constructed (self_encryption's chunk cipher is crate-private); chunk substitution is judged directly at chunk_get".into(),
            "the scratchpad's data_encoding is not covered by the owner's signature by design and is not judged".into(),
        ]
    }
    fn cases(&self, tier: Tier) -> u64 {
        tier.pick(6_000, 120_000)
    }
    fn min_nontrivial(&self, tier: Tier) -> u64 {
        tier.pick(2_400, 40_000)
    }
    fn shard_budget(&self, tier: Tier) -> std::time::Duration {
        tier.pick(std::time::Duration::from_secs(150), std::time::Duration::from_secs(1800))
    }
    fn required_counters(&self, _tier: Tier) -> Vec<&'static str> {
        vec!["chunk:ok-honest", "chunk:substitute-refused", "data:ok-honest", "data:substitution-cases", "vault:ok-authentic", "vault:err", "vault:split-versions-delivered", "vault:forged-majority-cases", "vault:ok-highest-of-several-authentic", "vault:ok-authentic-despite-forged-versions"]
    }
    fn lane_cases(&self, tier: Tier) -> u64 {
        tier.pick(8, 64)
    }
    fn run_case(&self, cx: &mut Cx) {
        if cx.index >= LANE_BASE {
            return crate::realcases::c15_case(cx);
        }
        match cx.index % 3 {
            0 => chunk_case(cx),
            1 => data_case(cx),
            _ => vault_case(cx),
        }
    }
}

fn chunk_case(cx: &mut Cx) {
    let mut cs = ClientSim::new(&mut cx.rng);
    let hl = cx.rng.gen_range(1..300);
    let honest = gen::chunk(&mut cx.rng, hl);
    let addr = *honest.name();
    // reply script
    let mut script: Vec<(Vec<u8>, &'static str)> = vec![];
    let n = cx.rng.gen_range(1..=3);
    for i in 0..n {
        if (i == 0 && cx.rng.gen_bool(0.3)) || (i > 0 && cx.rng.gen_bool(0.7)) {
            script.push((chunk_value(&honest), "honest"));
        } else {
            script.push(substitute(&mut cx.rng, &honest, &[]));
        }
    }
    let terminal = match cx.rng.gen_range(0..10) {
        0 => Some(Reply::NotFound),
        1 => Some(Reply::Timeout),
        _ => None,
    };
    let first_terminal = terminal.is_some() && cx.rng.gen_bool(0.5);
    let classes: Vec<&str> = script.iter().map(|(_, c)| *c).collect();
    let w = json!({"mode": "chunk_get", "addr": hex(&addr.0), "replies": classes, "terminal": format!("{terminal:?}"), "terminal_first": first_terminal});
    let client = cs.client.clone();
    let h = cs.sim.spawn(async move { client.chunk_get(addr).await });
    let mut drive_rng = cx.rng.clone();
    let finished = {
        let mut done = || h.is_finished();
        let mut answer = |_key: &libp2p::kad::RecordKey, _nth: usize| -> Vec<Reply> {
            let mut r: Vec<Reply> = vec![];
            if first_terminal {
                r.push(terminal.clone().expect("terminal"));
            }
            for (i, (v, _)) in script.iter().enumerate() {
                r.push(Reply::Found(i, v.clone()));
            }
            r.push(terminal.clone().unwrap_or(Reply::Finished));
            r
        };
        cs.drive(&mut drive_rng, &Order::Fifo, &mut done, &mut answer)
    };
    if !finished {
        h.abort();
        cx.inconclusive("chunk_get did not finish");
        return;
    }
    cx.eval();
    cx.sample(w.clone());
    let delivered: Vec<&str> = cs.delivered.iter().filter_map(|(_, _, ri)| if first_terminal { ri.checked_sub(1) } else { Some(*ri) }).filter_map(|i| classes.get(i).copied()).collect();
    if delivered.iter().any(|c| *c != "honest") {
        cx.nontrivial(&("chunk", &classes, first_terminal, format!("{terminal:?}")));
    }
    match cs.sim.rt.block_on(h) {
        Err(e) => cx.violation("client-task-panicked:chunk_get", format!("{e} {}", crate::last_panic()), w),
        Ok(Ok(chunk)) => {
            if content_hash(chunk.value()) != addr.0 {
                let first = delivered.first().copied().unwrap_or("?");
                cx.violation(format!("chunk_get-returned-content-not-hashing-to-address:{first}"), format!("asked for {} and got {} bytes hashing to {} (holder returned: {first})", hex(&addr.0), chunk.value().len(), hex(&content_hash(chunk.value()))), w);
            } else if delivered.first() == Some(&"honest") {
                cx.count("chunk:ok-honest");
            } else {
                cx.count("chunk:ok-after-substitute");
            }
        }
        Ok(Err(_)) => {
            if delivered.first().map(|c| *c != "honest").unwrap_or(false) {
                cx.count("chunk:substitute-refused");
            } else {
                cx.count("chunk:err-other");
            }
        }
    }
}

fn data_case(cx: &mut Cx) {
    let mut cs = ClientSim::new(&mut cx.rng);
    let mk = |cx: &mut Cx| {
        let len = cx.rng.gen_range(3..6_000);
        let mut d = vec![0u8; len];
        if cx.rng.gen_bool(0.7) {
            cx.rng.fill_bytes(&mut d);
        } else {
            let b: u8 = cx.rng.gen();
            d.iter_mut().enumerate().for_each(|(i, x)| *x = b.wrapping_add((i / 7) as u8));
        }
        let (map, chunks) = autonomi::self_encryption::encrypt(Bytes::from(d.clone())).expect("encrypt");
        (d, map, chunks)
    };
    let (data_a, map_a, chunks_a) = mk(cx);
    let (_data_b, map_b, chunks_b) = mk(cx);
    let mut store: HashMap<Vec<u8>, Vec<u8>> = HashMap::new();
    let key_of = |c: &Chunk| NetworkAddress::from_chunk_address(*c.address()).to_record_key().to_vec();
    for c in chunks_a.iter().chain(chunks_b.iter()).chain([&map_a, &map_b]) {
        store.insert(key_of(c), chunk_value(c));
    }
    let public = cx.rng.gen_bool(0.6);
    let honest_control = cx.rng.gen_bool(0.15);
    // the substituted address
    let (victim, victim_name): (Chunk, &str) = if public && cx.rng.gen_bool(0.5) { (map_a.clone(), "data-map") } else { (chunks_a.choose(&mut cx.rng).expect("chunks").clone(), "data-chunk") };
    let (sub_value, sub_class): (Vec<u8>, &str) = if honest_control {
        (chunk_value(&victim), "honest")
    } else if victim_name == "data-map" && cx.rng.gen_bool(0.6) {
        (chunk_value(&map_b), "data-map-of-another-file")
    } else {
        substitute(&mut cx.rng, &victim, &chunks_b)
    };
    if !honest_control {
        cx.count("data:substitution-cases");
    }
    let victim_key = key_of(&victim);
    let w = json!({"mode": if public { "data_get_public" } else { "data_get" }, "len": data_a.len(), "substituted": victim_name, "with": sub_class});
    let client = cs.client.clone();
    let h = if public {
        let addr = *map_a.name();
        cs.sim.spawn(async move { client.data_get_public(addr).await })
    } else {
        let dm = DataMapChunk::from(map_a.clone());
        cs.sim.spawn(async move { client.data_get(dm).await })
    };
    let mut drive_rng = cx.rng.clone();
    let order = if cx.rng.gen_bool(0.5) { Order::Random } else { Order::Fifo };
    let mut victim_served = false;
    let finished = {
        let mut done = || h.is_finished();
        let mut answer = |key: &libp2p::kad::RecordKey, _nth: usize| -> Vec<Reply> {
            if key.as_ref() == victim_key.as_slice() {
                victim_served = true;
                return vec![Reply::Found(1, sub_value.clone()), Reply::Finished];
            }
            match store.get(key.as_ref()) {
                Some(v) => vec![Reply::Found(0, v.clone()), Reply::Finished],
                None => vec![Reply::NotFound],
            }
        };
        cs.drive(&mut drive_rng, &order, &mut done, &mut answer)
    };
    if !finished {
        h.abort();
        cx.inconclusive("data fetch did not finish");
        return;
    }
    cx.eval();
    cx.sample(w.clone());
    if victim_served && !honest_control {
        cx.nontrivial(&("data", public, victim_name, sub_class, data_a.len()));
    }
    match cs.sim.rt.block_on(h) {
        Err(e) => cx.violation("client-task-panicked:data_get", format!("{e} {}", crate::last_panic()), w),
        Ok(Ok(bytes)) => {
            if bytes.as_ref() != data_a.as_slice() {
                cx.violation(format!("data-read-returned-other-content:{victim_name}-replaced-by-{sub_class}"), format!("{} bytes were stored under the address, {} other bytes came back", data_a.len(), bytes.len()), w);
            } else if honest_control || !victim_served {
                cx.count("data:ok-honest");
            } else {
                cx.count("data:ok-despite-substitute");
            }
        }
        Ok(Err(_)) => {
            if honest_control {
                cx.violation("honest-data-read-failed", "all holders were honest but the read failed", w);
            } else {
                cx.count("data:substitute-refused");
            }
        }
    }
}

fn vault_case(cx: &mut Cx) {
    let mut cs = ClientSim::new(&mut cx.rng);
    let owner = gen::bls_sk(&mut cx.rng);
    let foreign = gen::bls_sk(&mut cx.rng);
    let key = NetworkAddress::from_scratchpad_address(ScratchpadAddress::new(owner.public_key())).to_record_key();
    let nver = *[1usize, 2, 2, 3, 3, 4].choose(&mut cx.rng).expect("nonempty");
    let honest_only = cx.rng.gen_bool(0.15);
    let mut versions: Vec<PadVersion> = vec![];
    let mut genuine_of_swapped: Option<(Vec<u8>, Vec<u8>)> = None;
    let base: u64 = cx.rng.gen_range(0..20);
    for i in 0..nver {
        let class = if honest_only {
            PadClass::Authentic
        } else {
            *[PadClass::Authentic, PadClass::Authentic, PadClass::Authentic, PadClass::Unsigned, PadClass::Blank, PadClass::BadSignature, PadClass::PayloadSwapped, PadClass::ForeignOwner, PadClass::ForeignOwner, PadClass::WrongKind, PadClass::Garbage].choose(&mut cx.rng).expect("nonempty")
        };
        let plaintext: Vec<u8> = if class == PadClass::Blank { vec![] } else { format!("version-{i}-{}", hex(&gen::bytes(&mut cx.rng, 6))).into_bytes() };
        let counter = match class {
            PadClass::Blank => 0,
            PadClass::Authentic => {
                if i > 0 && cx.rng.gen_bool(0.2) {
                    versions[0].counter
                } else {
                    base + cx.rng.gen_range(0..6)
                }
            }
            // forgers inflate
            _ => *[base + 50, u64::MAX, base, 0].choose(&mut cx.rng).expect("nonempty"),
        };
        let cipher = owner.public_key().encrypt_with_rng(&mut cx.rng, &plaintext).to_bytes();
        let value = match class {
            PadClass::Authentic => gen::pad_record(&gen::pad(&owner, counter, &cipher, 7)).value,
            PadClass::Blank => gen::pad_record(&ant_protocol::storage::Scratchpad::new(owner.public_key(), 7)).value,
            PadClass::Unsigned => {
                let mut raw = gen::RawPad::from_pad(&gen::pad(&owner, counter, &cipher, 7));
                raw.signature = None;
                gen::pad_record(&raw.to_pad()).value
            }
            PadClass::BadSignature => {
                let mut raw = gen::RawPad::from_pad(&gen::pad(&owner, counter, &cipher, 7));
                if cx.rng.gen_bool(0.5) {
                    raw.sign(&foreign);
                } else {
                    // the owner's signature over another counter
                    raw.counter = counter.wrapping_add(1);
                    raw.sign(&owner);
                    raw.counter = counter;
                }
                gen::pad_record(&raw.to_pad()).value
            }
            PadClass::PayloadSwapped => {
                // what the owner really signed at this counter (kept: a first read may see it), and the same counter and
                // signature wrapped around another payload (anyone can encrypt to the owner's public key)
                let genuine_plain = format!("genuine-{i}-{}", hex(&gen::bytes(&mut cx.rng, 6))).into_bytes();
                let genuine = gen::pad(&owner, counter, &owner.public_key().encrypt_with_rng(&mut cx.rng, &genuine_plain).to_bytes(), 7);
                let mut raw = gen::RawPad::from_pad(&genuine);
                raw.encrypted_data = Bytes::from(cipher.clone());
                genuine_of_swapped = Some((gen::pad_record(&genuine).value, genuine_plain));
                gen::pad_record(&raw.to_pad()).value
            }
            PadClass::ForeignOwner => gen::pad_record(&gen::pad(&foreign, counter, &cipher, 7)).value,
            PadClass::WrongKind => chunk_value(&Chunk::new(Bytes::from(plaintext.clone()))),
            PadClass::Garbage => gen::bytes_r(&mut cx.rng, 0, 80),
        };
        versions.push(PadVersion { class, counter, plaintext, value });
    }
    // replies: (holder, version)
    let nrep = cx.rng.gen_range(1..=7);
    let pattern = cx.rng.gen_range(0..4);
    let mut replies: Vec<(usize, usize)> = vec![];
    for i in 0..nrep {
        let v = match pattern {
            0 => 0,                                              // unanimous
            1 => usize::from(i >= 3).min(nver - 1),             // three of version 0, then version 1
            _ => cx.rng.gen_range(0..nver),
        };
        replies.push((i, v));
    }
    if pattern >= 2 {
        replies.shuffle(&mut cx.rng);
    }
    let terminal = if cx.rng.gen_bool(0.85) { Reply::Finished } else { Reply::Timeout };
    let forged_majority = {
        let mut by: HashMap<usize, usize> = HashMap::new();
        replies.iter().for_each(|(_, v)| *by.entry(*v).or_default() += 1);
        by.iter().any(|(v, n)| *n >= 3 && versions[*v].class != PadClass::Authentic)
    };
    if forged_majority {
        cx.count("vault:forged-majority-cases");
    }
    let script: Vec<String> = replies.iter().map(|(p, v)| format!("h{p}:{:?}#{}", versions[*v].class, versions[*v].counter)).collect();
    let w = json!({"mode": "fetch_and_decrypt_vault", "replies": script, "terminal": format!("{terminal:?}")});
    // a history: this process first reads the vault while every holder still serves what the owner really wrote at the
    // counter a forger will reuse; whatever the client concluded then must not vouch for anything later
    let mut earlier_reads = 0usize;
    if let Some((genuine_value, genuine_plain)) = genuine_of_swapped.clone() {
        if cx.rng.gen_bool(0.7) {
            let client = cs.client.clone();
            let sk = owner.clone();
            let h0 = cs.sim.spawn(async move { client.fetch_and_decrypt_vault(&sk).await });
            let mut drive_rng = cx.rng.clone();
            let finished = {
                let mut done = || h0.is_finished();
                let mut answer = |_k: &libp2p::kad::RecordKey, _nth: usize| -> Vec<Reply> {
                    let mut r: Vec<Reply> = (0..4).map(|p| Reply::Found(p, genuine_value.clone())).collect();
                    r.push(Reply::Finished);
                    r
                };
                cs.drive(&mut drive_rng, &Order::Fifo, &mut done, &mut answer)
            };
            if !finished {
                h0.abort();
                cx.inconclusive("vault read did not finish");
                return;
            }
            earlier_reads = 1;
            cx.count("vault:earlier-read-of-the-genuine-version");
            match cs.sim.rt.block_on(h0) {
                Ok(Ok((bytes, _))) if bytes.as_ref() == genuine_plain.as_slice() => {}
                Ok(other) => cx.violation("vault-read-of-unanimous-authentic-version-failed", format!("four holders served the owner's signed version, the read gave {:?}", other.map(|(b, _)| b.len())), json!({})),
                Err(e) => cx.violation("client-task-panicked:vault", format!("{e}"), json!({})),
            }
        }
    }
    let client = cs.client.clone();
    let sk = owner.clone();
    let h = cs.sim.spawn(async move { client.fetch_and_decrypt_vault(&sk).await });
    let mut drive_rng = cx.rng.clone();
    let mut wrong_key_asked = false;
    let finished = {
        let mut done = || h.is_finished();
        let mut answer = |k: &libp2p::kad::RecordKey, _nth: usize| -> Vec<Reply> {
            if *k != key {
                wrong_key_asked = true;
            }
            let mut r: Vec<Reply> = replies.iter().map(|(p, v)| Reply::Found(*p, versions[*v].value.clone())).collect();
            r.push(terminal.clone());
            r
        };
        cs.drive(&mut drive_rng, &Order::Fifo, &mut done, &mut answer)
    };
    if !finished {
        h.abort();
        cx.inconclusive("vault read did not finish");
        return;
    }
    cx.eval();
    cx.sample(w.clone());
    if wrong_key_asked {
        cx.violation("vault-read-asked-for-another-key", "the client did not ask for the scratchpad address of the owner's key", w.clone());
    }
    // versions that reached the client before its outcome (first query only; no retries are configured)
    let delivered: Vec<usize> = cs.delivered.iter().filter(|(_, nth, _)| *nth == earlier_reads).filter_map(|(_, _, ri)| replies.get(*ri).map(|(_, v)| *v)).collect();
    let mut dv = delivered.clone();
    dv.sort();
    dv.dedup();
    if dv.len() >= 2 {
        cx.count("vault:split-versions-delivered");
    }
    if delivered.iter().any(|v| versions[*v].class != PadClass::Authentic) {
        cx.nontrivial(&("vault", &script, format!("{terminal:?}")));
    }
    let best_authentic = dv.iter().filter(|v| versions[**v].class == PadClass::Authentic).map(|v| versions[*v].counter).max();
    match cs.sim.rt.block_on(h) {
        Err(e) => cx.violation("client-task-panicked:vault", format!("{e} {}", crate::last_panic()), w),
        Ok(Ok((bytes, _encoding))) => match versions.iter().position(|v| v.plaintext == bytes.as_ref()) {
            None => cx.violation("vault-returned-unknown-content", format!("{} bytes that no holder supplied", bytes.len()), w),
            Some(vi) => {
                let v = &versions[vi];
                if v.class != PadClass::Authentic {
                    cx.violation(format!("vault-returned-unauthenticated-version:{:?}", v.class), format!("the vault read returned the content of a {:?} scratchpad (counter {}); owner-signed versions delivered: {:?}", v.class, v.counter, best_authentic), w);
                } else if Some(v.counter) < best_authentic {
                    cx.violation("vault-returned-stale-version", format!("returned counter {} although an owner-signed version with counter {:?} had been received", v.counter, best_authentic), w);
                } else {
                    cx.count("vault:ok-authentic");
                    if dv.iter().any(|x| versions[*x].class == PadClass::Authentic && versions[*x].counter < v.counter) {
                        cx.count("vault:ok-highest-of-several-authentic");
                    }
                    if dv.iter().any(|x| versions[*x].class != PadClass::Authentic) {
                        cx.count("vault:ok-authentic-despite-forged-versions");
                    }
                }
            }
        },
        Ok(Err(_)) => {
            cx.count("vault:err");
            if best_authentic.is_none() {
                cx.count("vault:err-no-authentic-version-available");
            }
        }
    }
}
