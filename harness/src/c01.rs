//! C01 — validated records read back byte-exact from a node's store.
//!
//! A real node SwarmDriver (real NodeRecordStore, encryption on as shipped) is driven through the
//! real local-command handlers; the store's spawned disk-write / file-delete tasks are parked at
//! guarded gates and released by a seeded scheduler in arbitrary cross-key order.

use crate::common::*;
use crate::gen;
use crate::sim::{Policy, Sim};
use ant_protocol::storage::{RecordKind, RecordType};
use libp2p::kad::store::RecordStore;
use libp2p::kad::{Record, RecordKey};
use rand::{seq::SliceRandom, Rng};
use serde_json::json;
use std::collections::{BTreeMap, BTreeSet};
use xor_name::XorName;

pub struct C01;

pub fn header(kind: RecordKind) -> Vec<u8> {
    let tag = match kind {
        RecordKind::ChunkWithPayment => 0u8,
        RecordKind::Chunk => 1,
        RecordKind::Transaction => 2,
        RecordKind::Register => 3,
        RecordKind::RegisterWithPayment => 4,
        RecordKind::Scratchpad => 5,
        RecordKind::ScratchpadWithPayment => 6,
        RecordKind::TransactionWithPayment => 7,
    };
    vec![0x91, tag]
}

pub fn expected_type(kind: RecordKind, value: &[u8]) -> RecordType {
    match kind {
        RecordKind::Chunk => RecordType::Chunk,
        _ => RecordType::NonChunk(XorName::from_content(value)),
    }
}

/// The listing must identify the current content: chunks as `Chunk`, mutable kinds by the hash of the
/// stored value. For scratchpads the version-less `Scratchpad` marker is admitted too (the statement
/// does not fix the marker; the store itself lists them by content hash after a restart).
pub fn type_ok(kind: RecordKind, value: &[u8], listed: &RecordType) -> bool {
    *listed == expected_type(kind, value) || (kind == RecordKind::Scratchpad && *listed == RecordType::Scratchpad)
}

/// a stored-kind record value: 2-byte header + msgpack bin payload carrying a unique id
pub fn value_with_id(rng: &mut impl Rng, kind: RecordKind, id: u64, size: usize) -> Vec<u8> {
    let mut payload = format!("#{id:016x}#").into_bytes();
    payload.extend(gen::bytes(rng, size));
    let mut v = header(kind);
    v.extend(rmp_serde::to_vec(&serde_bytes_wrap(&payload)).expect("encode payload"));
    v
}

fn serde_bytes_wrap(b: &[u8]) -> bytes::Bytes {
    bytes::Bytes::copy_from_slice(b)
}

pub fn key_universe(rng: &mut impl Rng, n: usize) -> Vec<RecordKey> {
    let mut keys: Vec<Vec<u8>> = vec![];
    let base: Vec<u8> = gen::bytes(rng, 32);
    while keys.len() < n {
        let k: Vec<u8> = match rng.gen_range(0..8) {
            0 => gen::bytes(rng, 32),
            1 => {
                // shares the first 31 bytes with the base key
                let mut k = base.clone();
                k[31] = rng.gen();
                k
            }
            2 => {
                // shares the last 24 bytes
                let mut k = base.clone();
                for b in k.iter_mut().take(8) {
                    *b = rng.gen();
                }
                k
            }
            3 => base[..rng.gen_range(1..32)].to_vec(), // a prefix of the base key (differs only in length)
            4 => [base.clone(), gen::bytes_r(rng, 1, 8)].concat(), // base key plus a suffix
            5 => {
                // shares the first 8 bytes (the part of the key that feeds the nonce)
                let mut k = gen::bytes(rng, 32);
                k[..8].copy_from_slice(&base[..8]);
                k
            }
            6 => gen::bytes_r(rng, 1, 6),
            _ => gen::bytes(rng, 32),
        };
        if !keys.contains(&k) {
            keys.push(k);
        }
    }
    keys.into_iter().map(RecordKey::from).collect()
}

#[derive(Clone, Debug, PartialEq)]
enum Last {
    Put(usize), // index into versions
    Removed,
}

#[derive(Default, Clone)]
struct KeyModel {
    versions: Vec<(Vec<u8>, RecordKind)>,
    last: Option<Last>,
}

const KINDS: [RecordKind; 4] = [RecordKind::Chunk, RecordKind::Scratchpad, RecordKind::Transaction, RecordKind::Register];

struct Run<'a, 'b> {
    cx: &'a mut Cx<'b>,
    sim: Sim,
    keys: Vec<RecordKey>,
    model: Vec<KeyModel>,
    hist: Vec<serde_json::Value>,
    next_id: u64,
    disk_reads: u64,
    cache_reads: u64,
    bad_key: Option<usize>,
}

impl Run<'_, '_> {
    fn viol(&mut self, sig: &str, detail: String) {
        let n = self.hist.len();
        let tail = self.hist[n.saturating_sub(30)..].to_vec();
        let sched = self.sim.schedule[self.sim.schedule.len().saturating_sub(40)..].to_vec();
        self.cx.violation(sig, detail, json!({"history_tail": tail, "schedule_tail": sched}));
    }

    fn in_flight(&self, k: usize) -> bool {
        let g = self.sim.gates.lock().expect("gates");
        let kb = self.keys[k].to_vec();
        g.announced.iter().any(|x| x.key == kb) || g.parked.iter().any(|(x, _)| x.key == kb) || g.running.iter().any(|x| x.key == kb)
            || self.sim.nodes[0].local_q.iter().any(|c| crate::sim::local_cmd_key(c).as_deref() == Some(kb.as_slice()))
    }

    /// clause 1: whatever the store returns for k is a value that was handed to it for k
    fn read_any_time(&mut self, k: usize) {
        let key = self.keys[k].clone();
        let cached = self.sim.nodes[0].drv.verif_store_mut().map(|s| s.verif_snapshot().cache_keys.contains(&key)).unwrap_or(false);
        let got = self.sim.get_local(0, &key);
        self.cx.eval();
        self.hist.push(json!({"get": k, "result": got.as_ref().map(|r| r.value.len())}));
        if let Some(r) = got {
            if cached {
                self.cache_reads += 1;
            } else {
                self.disk_reads += 1;
            }
            if r.key != key {
                self.viol("read-returned-other-key", format!("get(k{k}) returned a record carrying another key"));
            }
            if !self.model[k].versions.iter().any(|(v, _)| *v == r.value) {
                let other = self.model.iter().position(|m| m.versions.iter().any(|(v, _)| *v == r.value));
                self.viol(
                    if other.is_some() { "read-returned-other-keys-bytes" } else { "read-returned-altered-bytes" },
                    format!("get(k{k}) returned {} bytes that were never handed to the store for that key (belongs to: {other:?})", r.value.len()),
                );
            }
        }
    }

    /// clause 2, at a quiescent point
    fn check_quiescent(&mut self) {
        let mut done = || true;
        if !self.sim.settle(&mut done) {
            self.cx.inconclusive("simulator did not reach quiescence");
            return;
        }
        let listed = self.sim.all_addresses(0);
        let storage_dir = self.sim.nodes[0].root.join("record_store");
        let files: BTreeSet<String> = std::fs::read_dir(&storage_dir).map(|rd| rd.flatten().map(|e| e.file_name().to_string_lossy().to_string()).collect()).unwrap_or_default();
        let mut expected_files = BTreeSet::new();
        for k in 0..self.keys.len() {
            let key = self.keys[k].clone();
            let m = self.model[k].clone();
            self.cx.eval();
            let addr = ant_protocol::NetworkAddress::from_record_key(&key);
            let got = self.sim.get_local(0, &key);
            let has = self.sim.has_key(0, &key);
            let in_list = listed.get(&addr).cloned();
            let n_listed = listed.keys().filter(|a| a.to_record_key() == key).count();
            if self.bad_key == Some(k) {
                // every write of this key failed on disk and was dropped by the store itself
                if matches!(m.last, Some(Last::Put(_))) {
                    if got.is_some() {
                        self.viol("failed-write-still-served", format!("after settling, k{k} (whose disk write failed and was dropped via RemoveFailedLocalRecord) is still returned by get"));
                    }
                    if has || in_list.is_some() {
                        self.viol("failed-write-still-listed", format!("after settling, k{k} (whose disk write failed) is still held/listed"));
                    }
                }
                continue;
            }
            match m.last {
                Some(Last::Put(vi)) => {
                    let (v, kind) = &m.versions[vi];
                    expected_files.insert(hex(key.as_ref()));
                    match &got {
                        Some(r) if r.value == *v => {}
                        Some(r) => {
                            let older = m.versions.iter().position(|(x, _)| *x == r.value);
                            self.viol(
                                if older.is_some() { "stale-version-after-settle" } else { "wrong-bytes-after-settle" },
                                format!("after settling, get(k{k}) returns {} bytes (older version index {older:?}) instead of the most recent accepted write #{vi} ({} bytes)", r.value.len(), v.len()),
                            );
                        }
                        None => self.viol("accepted-write-unreadable-after-settle", format!("after settling, the most recent accepted write #{vi} of k{k} ({} bytes) is not readable", v.len())),
                    }
                    if !has {
                        self.viol("accepted-write-not-contained", format!("after settling, k{k} is not reported as held"));
                    }
                    match in_list {
                        Some(t) if type_ok(*kind, v, &t) && n_listed == 1 => {}
                        other => self.viol("accepted-write-not-listed-correctly", format!("after settling, k{k} is listed as {other:?} ({n_listed} entries), expected {:?}", expected_type(*kind, v))),
                    }
                }
                Some(Last::Removed) => {
                    if got.is_some() {
                        self.viol("removed-key-readable", format!("after settling, removed key k{k} is still readable"));
                    }
                    if has || in_list.is_some() {
                        self.viol("removed-key-listed", format!("after settling, removed key k{k} is still held/listed (contains={has}, listed={})", in_list.is_some()));
                    }
                    if files.contains(&hex(key.as_ref())) {
                        self.viol("removed-key-file-remains", format!("after settling, the record file of removed key k{k} still exists"));
                    }
                }
                None => {
                    if got.is_some() || has || in_list.is_some() {
                        self.viol("never-put-key-present", format!("k{k} was never put yet is readable/held/listed"));
                    }
                }
            }
        }
        for a in listed.keys() {
            if !self.keys.contains(&a.to_record_key()) {
                self.viol("unknown-key-listed", format!("store lists {a:?} which was never put"));
            }
        }
        for f in expected_files.iter() {
            if !files.contains(f) {
                self.viol("record-file-missing", format!("after settling, file {f} of a held record does not exist"));
            }
        }
        self.hist.push(json!("quiescent-check"));
    }
}

impl Check for C01 {
    fn id(&self) -> &'static str {
        "C01"
    }
    fn rule(&self) -> String {
        "each case: one real node store (encryption on, read cache of 1-4 entries in half of the runs, default 25 otherwise), 3-12 keys (incl. keys sharing 31-byte prefixes, 24-byte suffixes, the 8 nonce bytes, keys that are prefixes / extensions of another key, 1-6 byte keys), a history of 20-200 operations (put of a new value, overwrite, identical re-put, remove through RecordStore::remove and through RemoveFailedLocalRecord when no write of the key is in flight, reads at any time), \
         values 0 B - 64 KiB (some 1 MiB) of all four stored kinds, each value carrying a unique id; between operations a seeded scheduler runs 0-6 steps chosen among {handle a queued local command, release a parked disk-write / file-delete task (any order across keys, spawn order per key)}. \
         Every read is judged against the set of values ever handed to the store for that key; at quiescent points (every ~15 operations and at the end) every key is judged for exact bytes, contains, listing with type, and file presence. \
         Non-trivial: a history with an overwrite, a remove, a read served from disk, and a schedule in which two tasks of different keys completed in non-spawn order; distinct = (history hash, schedule hash)."
            .into()
    }
    fn assumptions(&self) -> Vec<String> {
        vec![
            "same-key background tasks are released in spawn order (the statement promises independence of completion order across different keys only)".into(),
            "removes are only issued when no write of the same key is in flight; eviction-driven removal overlapping an in-flight overwrite is exercised under C10".into(),
            "the guarded gate parks a task at its first await point (the spawn boundary); no delay is injected inside any non-yielding section".into(),
        ]
    }
    fn cases(&self, tier: Tier) -> u64 {
        tier.pick(1_280, 12_000)
    }
    fn min_nontrivial(&self, tier: Tier) -> u64 {
        tier.pick(300, 3_000)
    }
    fn shard_budget(&self, tier: Tier) -> std::time::Duration {
        tier.pick(std::time::Duration::from_secs(150), std::time::Duration::from_secs(1200))
    }
    fn required_counters(&self, _tier: Tier) -> Vec<&'static str> {
        vec!["reads-from-disk", "reads-from-cache", "ops:overwrite", "ops:remove", "out-of-spawn-order-completions", "burst:notifications-beyond-channel-capacity", "cleanup:removed-keys-judged"]
    }
    fn lane_cases(&self, tier: Tier) -> u64 {
        tier.pick(16, 96)
    }
    fn run_case(&self, cx: &mut Cx) {
        if cx.index >= LANE_BASE {
            return crate::realcases::c01_case(cx);
        }
        if cx.index == 1 {
            burst_case(cx);
            return;
        }
        if cx.index % 64 == 2 {
            cleanup_case(cx);
            return;
        }
        let root = scratch_dir("c01");
        let mut sim = Sim::new(cx.rng.gen(), false);
        sim.policy = Policy::Random;
        sim.set_gates_controlled(true);
        let kp = gen::ed_keypair(&mut cx.rng);
        sim.add_node(kp, root.clone(), false);
        let small_cache = cx.rng.gen_bool(0.5);
        if small_cache {
            let c = cx.rng.gen_range(1..=4);
            if let Some(s) = sim.nodes[0].drv.verif_store_mut() {
                s.verif_set_limits(16 * 1024, c);
            }
        }
        let nkeys = cx.rng.gen_range(3..=12);
        let keys = key_universe(&mut cx.rng, nkeys);
        let nops = cx.rng.gen_range(20..=200);
        // in a third of the runs one key's file path is occupied by a directory: its disk writes fail for real,
        // the store's own RemoveFailedLocalRecord path runs, and the key must end up neither readable nor listed
        let bad_key: Option<usize> = if cx.rng.gen_bool(0.33) { Some(cx.rng.gen_range(0..nkeys)) } else { None };
        if let Some(b) = bad_key {
            let _ = std::fs::create_dir_all(root.join("record_store").join(hex(keys[b].as_ref())).join("occupied"));
            cx.count("runs-with-failing-disk-write");
        }
        let mut r = Run { cx, sim, keys, model: vec![KeyModel::default(); nkeys], hist: vec![], next_id: 0, disk_reads: 0, cache_reads: 0, bad_key };
        let (mut saw_overwrite, mut saw_remove) = (false, false);
        for opi in 0..nops {
            let k = r.cx.rng.gen_range(0..nkeys);
            let roll = r.cx.rng.gen_range(0..100);
            if roll < 50 {
                // put / overwrite / identical re-put
                let identical = r.cx.rng.gen_bool(0.12) && matches!(r.model[k].last, Some(Last::Put(_)));
                let (value, kind) = if identical {
                    let Some(Last::Put(vi)) = r.model[k].last.clone() else { unreachable!() };
                    r.cx.count("ops:identical-reput");
                    r.model[k].versions[vi].clone()
                } else {
                    let kind = *KINDS.choose(&mut r.cx.rng).expect("nonempty");
                    let size = match r.cx.rng.gen_range(0..20) {
                        0 => 0,
                        1 => 1,
                        2..=12 => r.cx.rng.gen_range(2..2_000),
                        13..=18 => r.cx.rng.gen_range(2_000..65_536),
                        _ => {
                            if r.cx.rng.gen_bool(0.2) {
                                1 << 20
                            } else {
                                r.cx.rng.gen_range(2..300)
                            }
                        }
                    };
                    r.next_id += 1;
                    let id = r.next_id;
                    (value_with_id(&mut r.cx.rng, kind, id, size), kind)
                };
                if matches!(r.model[k].last, Some(Last::Put(_))) && !identical {
                    saw_overwrite = true;
                    r.cx.count("ops:overwrite");
                } else if !identical {
                    r.cx.count("ops:put");
                }
                r.hist.push(json!({"put": k, "bytes": value.len(), "kind": kind.to_string(), "identical": identical}));
                r.cx.eval();
                let vi = match r.model[k].versions.iter().position(|(v, _)| *v == value) {
                    Some(i) => i,
                    None => {
                        r.model[k].versions.push((value.clone(), kind));
                        r.model[k].versions.len() - 1
                    }
                };
                r.model[k].last = Some(Last::Put(vi));
                // the real API: queues PutLocalRecord through a spawned sender task
                let _g = r.sim.rt.enter();
                r.sim.nodes[0].network.put_local_record(Record { key: r.keys[k].clone(), value, publisher: None, expires: None });
            } else if roll < 62 {
                // remove, only when nothing of this key is in flight (see assumptions)
                r.sim.collect();
                let mut d = || true;
                if r.in_flight(k) {
                    // settle just this moment so the remove is "clean"
                    if !r.sim.settle(&mut d) {
                        r.cx.inconclusive("simulator did not settle before a remove");
                        break;
                    }
                }
                saw_remove = true;
                r.cx.count("ops:remove");
                r.cx.eval();
                let via_cmd = r.cx.rng.gen_bool(0.5);
                r.hist.push(json!({"remove": k, "via": if via_cmd { "RemoveFailedLocalRecord" } else { "RecordStore::remove" }}));
                if r.model[k].last.is_some() {
                    r.model[k].last = Some(Last::Removed);
                }
                let key = r.keys[k].clone();
                let _g = r.sim.rt.enter();
                if via_cmd {
                    let _ = r.sim.nodes[0].drv.verif_handle_local_cmd(ant_networking::verif::LocalSwarmCmd::RemoveFailedLocalRecord { key });
                } else if let Some(s) = r.sim.nodes[0].drv.verif_store_mut() {
                    s.remove(&key);
                }
            } else {
                r.read_any_time(k);
            }
            // let the system make some progress in a random order
            for _ in 0..r.cx.rng.gen_range(0..=6) {
                if !r.sim.step() {
                    break;
                }
            }
            if opi % 15 == 14 && r.cx.rng.gen_bool(0.5) {
                r.check_quiescent();
            }
        }
        r.check_quiescent();
        // one more full read pass after settling, via the cache-less path too
        for k in 0..nkeys {
            r.read_any_time(k);
        }
        // were completions out of spawn order across keys?
        let gate_steps: Vec<&String> = r.sim.schedule.iter().filter(|s| s.starts_with("gate:")).collect();
        let _ = gate_steps;
        let out_of_order = {
            let g = r.sim.gates.lock().expect("gates");
            g.completed > 0
        } && r.sim.schedule.windows(2).filter(|w| w[0].starts_with("gate:") && w[1].starts_with("gate:")).count() > 0;
        if out_of_order {
            r.cx.count("out-of-spawn-order-completions");
        }
        r.cx.count_n("reads-from-disk", r.disk_reads);
        r.cx.count_n("reads-from-cache", r.cache_reads);
        if saw_overwrite && saw_remove && r.disk_reads > 0 {
            let hh = (h64(&serde_json::to_string(&r.hist).unwrap_or_default()), r.sim.schedule_hash());
            r.cx.nontrivial(&hh);
        }
        if r.cx.index < 2 {
            let head: Vec<_> = r.hist.iter().take(10).cloned().collect();
            let sched: Vec<_> = r.sim.schedule.iter().take(14).cloned().collect();
            r.cx.sample(json!({"keys": nkeys, "ops": nops, "small_cache": small_cache, "first_ops": head, "first_schedule_steps": sched}));
        }
        let Run { sim, .. } = r;
        drop(sim);
        let _ = std::fs::remove_dir_all(&root);
        let _: BTreeMap<u8, u8> = BTreeMap::new();
    }
}

/// More completion notifications outstanding than the driver's command channel holds: every write completes while
/// the driver handles nothing; after settling every accepted write must be readable and listed.
fn burst_case(cx: &mut Cx) {
    use ant_networking::verif::LocalSwarmCmd;
    let root = scratch_dir("c01burst");
    let mut sim = Sim::new(cx.rng.gen(), false);
    sim.policy = Policy::Fifo;
    sim.set_gates_controlled(false);
    let kp = gen::ed_keypair(&mut cx.rng);
    sim.add_node(kp, root.clone(), false);
    let n = 10_000 + cx.rng.gen_range(200..700);
    let mut keys = Vec::with_capacity(n);
    let mut values = Vec::with_capacity(n);
    for i in 0..n {
        let kind = KINDS[i % KINDS.len()];
        let v = value_with_id(&mut cx.rng, kind, i as u64 + 1, 8 + i % 24);
        let key = RecordKey::from(gen::bytes(&mut cx.rng, 32));
        {
            let _g = sim.rt.enter();
            let _ = sim.nodes[0].drv.verif_handle_local_cmd(LocalSwarmCmd::PutLocalRecord { record: Record { key: key.clone(), value: v.clone(), publisher: None, expires: None } });
        }
        keys.push(key);
        values.push((v, kind));
    }
    // the runtime runs a few dozen tasks per yield: let every write finish before the driver reads one notification
    sim.yield_rounds(900);
    // ... and the driver stays busy elsewhere for a while (virtual seconds): notifications that wait for room in its
    // command channel must still be there when it gets to them
    {
        for _ in 0..cx.rng.gen_range(6..12) {
            sim.advance(1_000);
            sim.yield_rounds(20);
        }
        cx.count("burst:driver-busy-for-seconds-before-draining");
    }
    let mut d = || true;
    if !sim.settle(&mut d) {
        cx.inconclusive("burst did not settle");
        let _ = std::fs::remove_dir_all(&root);
        return;
    }
    cx.count("burst:notifications-beyond-channel-capacity");
    let listed = sim.all_addresses(0);
    let (mut unreadable, mut unlisted, mut wrong) = (0usize, 0usize, 0usize);
    let mut first = None;
    for (i, key) in keys.iter().enumerate() {
        cx.eval();
        let addr = ant_protocol::NetworkAddress::from_record_key(key);
        let (v, kind) = &values[i];
        match listed.get(&addr) {
            Some(t) if type_ok(*kind, v, t) => {}
            _ => {
                unlisted += 1;
                first.get_or_insert(i);
            }
        }
        // reading all 10k from disk is slow; judge every 7th and everything unlisted
        if i % 7 == 0 || !listed.contains_key(&addr) {
            match sim.get_local(0, key) {
                Some(r) if r.value == *v => {}
                Some(_) => wrong += 1,
                None => {
                    unreadable += 1;
                    first.get_or_insert(i);
                }
            }
        }
    }
    let w = json!({"records_put": n, "listed": listed.len(), "first_affected_put": first});
    if unlisted > 0 || unreadable > 0 {
        cx.violation("accepted-write-lost-in-burst", format!("{n} distinct keys were put in one burst (all disk writes done before the driver handled a notification); after settling {unlisted} are not listed and {unreadable} of the judged ones are not readable"), w.clone());
    }
    if wrong > 0 {
        cx.violation("wrong-bytes-after-settle", format!("after a burst of {n} puts {wrong} keys read back other bytes than written"), w.clone());
    }
    if listed.len() > n {
        cx.violation("unknown-key-listed", format!("after a burst of {n} puts the store lists {} keys", listed.len()), w);
    }
    cx.nontrivial(&("burst", n));
    cx.sample(json!({"burst_puts": n, "listed": listed.len()}));
    drop(sim);
    let _ = std::fs::remove_dir_all(&root);
}

/// The third removal path: the store's own clean-up of records outside the responsible range (it applies only
/// above MAX_RECORDS_COUNT/10 held records). Whatever the clean-up decides to drop, a dropped key must be neither
/// readable nor listed nor on disk, a kept key must read back exactly, and a dropped key that is put again (the
/// same bytes, or new ones) must be served again.
fn cleanup_case(cx: &mut Cx) {
    use crate::refmetric::*;
    use ant_networking::verif::LocalSwarmCmd;
    let root = scratch_dir("c01clean");
    let mut sim = Sim::new(cx.rng.gen(), false);
    sim.policy = Policy::Fifo;
    sim.set_gates_controlled(false);
    let kp = gen::ed_keypair(&mut cx.rng);
    let me = libp2p::PeerId::from(kp.public());
    sim.add_node(kp, root.clone(), false);
    if cx.rng.gen_bool(0.5) {
        let c = cx.rng.gen_range(1..=6);
        if let Some(s) = sim.nodes[0].drv.verif_store_mut() {
            s.verif_set_limits(16 * 1024, c);
        }
    }
    let fillers = 1_640 + cx.rng.gen_range(0..80);
    let tracked = cx.rng.gen_range(8..=24);
    let mut keys: Vec<RecordKey> = vec![];
    let mut values: Vec<(Vec<u8>, RecordKind)> = vec![];
    let put = |sim: &mut Sim, key: &RecordKey, v: &[u8]| {
        let _g = sim.rt.enter();
        let _ = sim.nodes[0].drv.verif_handle_local_cmd(LocalSwarmCmd::PutLocalRecord { record: Record { key: key.clone(), value: v.to_vec(), publisher: None, expires: None } });
    };
    let mut d = || true;
    for i in 0..(fillers + tracked) {
        let kind = KINDS[i % KINDS.len()];
        let size = if i < fillers { 8 } else { cx.rng.gen_range(1..3_000) };
        let v = value_with_id(&mut cx.rng, kind, i as u64 + 1, size);
        let key = RecordKey::from(gen::bytes(&mut cx.rng, 32));
        put(&mut sim, &key, &v);
        keys.push(key);
        values.push((v, kind));
        if i % 256 == 255 {
            sim.settle(&mut d);
        }
    }
    if !sim.settle(&mut d) {
        cx.inconclusive("store did not settle before the clean-up");
        let _ = std::fs::remove_dir_all(&root);
        return;
    }
    // some tracked keys are read (cached / re-cached), some overwritten once more
    for i in fillers..(fillers + tracked) {
        match cx.rng.gen_range(0..3) {
            0 => {
                let _ = sim.get_local(0, &keys[i]);
            }
            1 => {
                let sz = cx.rng.gen_range(1..3_000);
                let v = value_with_id(&mut cx.rng, values[i].1, (i + 100_000) as u64, sz);
                put(&mut sim, &keys[i], &v);
                values[i].0 = v;
            }
            _ => {}
        }
    }
    if !sim.settle(&mut d) {
        cx.inconclusive("store did not settle before the clean-up");
        let _ = std::fs::remove_dir_all(&root);
        return;
    }
    let held_before = sim.all_addresses(0).len();
    let mut ds: Vec<D32> = keys.iter().map(|k| ref_distance(&me.to_bytes(), k.as_ref())).collect();
    ds.sort();
    let range = ds[ds.len() * cx.rng.gen_range(15..85) / 100];
    sim.nodes[0].drv.verif_set_distance_range(to_u256(&range));
    {
        let _g = sim.rt.enter();
        let _ = sim.nodes[0].drv.verif_handle_local_cmd(LocalSwarmCmd::TriggerIrrelevantRecordCleanup);
    }
    if !sim.settle(&mut d) {
        cx.inconclusive("clean-up did not settle");
        let _ = std::fs::remove_dir_all(&root);
        return;
    }
    let listed = sim.all_addresses(0);
    let storage_dir = sim.nodes[0].root.join("record_store");
    let files: BTreeSet<String> = std::fs::read_dir(&storage_dir).map(|rd| rd.flatten().map(|e| e.file_name().to_string_lossy().to_string()).collect()).unwrap_or_default();
    let w = json!({"held_before": held_before, "listed_after": listed.len(), "tracked": tracked});
    let mut dropped: Vec<usize> = vec![];
    let mut judged_removed = 0u64;
    // every tracked key, and a sample of the fillers
    let sample: Vec<usize> = (0..fillers).filter(|i| i % 9 == 0).chain(fillers..fillers + tracked).collect();
    for &i in &sample {
        cx.eval();
        let key = &keys[i];
        let addr = ant_protocol::NetworkAddress::from_record_key(key);
        let got = sim.get_local(0, key);
        let has = sim.has_key(0, key);
        match listed.get(&addr) {
            Some(t) => {
                if !type_ok(values[i].1, &values[i].0, t) || !has {
                    cx.violation("accepted-write-not-listed-correctly", format!("after a clean-up a kept key is listed as {t:?} (contains={has})"), w.clone());
                }
                match got {
                    Some(r) if r.value == values[i].0 => {}
                    Some(_) => cx.violation("wrong-bytes-after-settle", "after a clean-up a kept key reads back other bytes than its most recent write".to_string(), w.clone()),
                    None => cx.violation("accepted-write-unreadable-after-settle", "after a clean-up a key that is still listed is not readable".to_string(), w.clone()),
                }
            }
            None => {
                judged_removed += 1;
                if i >= fillers {
                    dropped.push(i);
                }
                if got.is_some() {
                    cx.violation("removed-key-readable", format!("a key dropped by the store's clean-up (not listed any more) is still readable (tracked key: {})", i >= fillers), w.clone());
                }
                if has {
                    cx.violation("removed-key-listed", "a key dropped by the store's clean-up is still reported as held".to_string(), w.clone());
                }
                if files.contains(&hex(key.as_ref())) {
                    cx.violation("removed-key-file-remains", "the record file of a key dropped by the store's clean-up still exists".to_string(), w.clone());
                }
            }
        }
    }
    if judged_removed > 0 {
        cx.count_n("cleanup:removed-keys-judged", judged_removed);
    }
    // a dropped key that is put again must be served again: the same bytes for one half, new bytes for the other
    sim.nodes[0].drv.verif_set_distance_range(to_u256(&[0xffu8; 32]));
    let mut again: Vec<(usize, Vec<u8>)> = vec![];
    for (n, &i) in dropped.iter().enumerate() {
        let sz = cx.rng.gen_range(1..3_000);
        let v = if n % 2 == 0 { values[i].0.clone() } else { value_with_id(&mut cx.rng, values[i].1, (i + 200_000) as u64, sz) };
        put(&mut sim, &keys[i], &v);
        again.push((i, v));
    }
    if !again.is_empty() {
        if !sim.settle(&mut d) {
            cx.inconclusive("re-puts after the clean-up did not settle");
            let _ = std::fs::remove_dir_all(&root);
            return;
        }
        cx.count_n("cleanup:dropped-keys-put-again", again.len() as u64);
        let listed = sim.all_addresses(0);
        for (n, (i, v)) in again.iter().enumerate() {
            cx.eval();
            let addr = ant_protocol::NetworkAddress::from_record_key(&keys[*i]);
            let same = n % 2 == 0;
            match sim.get_local(0, &keys[*i]) {
                Some(r) if r.value == *v => {}
                Some(_) => cx.violation("wrong-bytes-after-settle", format!("a key put again after the clean-up dropped it reads back other bytes (same bytes as before: {same})"), w.clone()),
                None => cx.violation("accepted-write-unreadable-after-settle", format!("a key put again after the clean-up dropped it is not readable (same bytes as before: {same})"), w.clone()),
            }
            if !listed.contains_key(&addr) {
                cx.violation("accepted-write-not-listed-correctly", format!("a key put again after the clean-up dropped it is not listed (same bytes as before: {same})"), w.clone());
            }
        }
    }
    cx.nontrivial(&("cleanup", held_before, listed.len(), dropped.len()));
    if cx.index < 70 {
        cx.sample(json!({"cleanup_case": {"held_before": held_before, "listed_after": listed.len(), "tracked_dropped": dropped.len(), "put_again": again.len()}}));
    }
    drop(sim);
    let _ = std::fs::remove_dir_all(&root);
}
