//! C11 — all distance computations agree with the XOR metric over hashed addresses.
//!
//! Reference: d(a,b) = BE256(SHA256(bytes(a)) XOR SHA256(bytes(b))), computed with `sha2`,
//! never through libp2p. Every closeness decision of the code base is compared with it.

use crate::c01::value_with_id;
use crate::common::*;
use crate::gen;
use crate::refmetric::*;
use crate::sim::{quic_addr, Policy, Sim};
use ant_networking::verif::{verif_get_peers_in_range, LocalSwarmCmd};
use ant_networking::{sort_peers_by_address, sort_peers_by_key, NetworkError};
use ant_node::verif::VerifNode;
use ant_protocol::storage::{ChunkAddress, RecordKind, ScratchpadAddress, TransactionAddress};
use ant_protocol::{convert_distance_to_u256, NetworkAddress, CLOSE_GROUP_SIZE};
use ant_registers::RegisterAddress;
use libp2p::kad::{Record, RecordKey};
use libp2p::{Multiaddr, PeerId};
use rand::{seq::SliceRandom, Rng};
use serde_json::json;
use std::collections::BTreeSet;
use xor_name::XorName;

pub struct C11;

/// the bytes an address is hashed from, written from the statement ("their address bytes"):
/// peer id bytes, raw key bytes, or the 32-byte name of a typed address
pub(crate) fn addr_bytes(a: &NetworkAddress) -> Vec<u8> {
    match a {
        NetworkAddress::PeerId(b) | NetworkAddress::RecordKey(b) => b.to_vec(),
        NetworkAddress::ChunkAddress(c) => c.xorname().0.to_vec(),
        NetworkAddress::TransactionAddress(t) => t.xorname().0.to_vec(),
        NetworkAddress::RegisterAddress(r) => r.xorname().0.to_vec(),
        NetworkAddress::ScratchpadAddress(s) => s.xorname().0.to_vec(),
    }
}

fn rd(a: &NetworkAddress, b: &NetworkAddress) -> D32 {
    ref_distance(&addr_bytes(a), &addr_bytes(b))
}

pub(crate) fn kind_of(a: &NetworkAddress) -> &'static str {
    match a {
        NetworkAddress::PeerId(_) => "peer",
        NetworkAddress::ChunkAddress(_) => "chunk",
        NetworkAddress::TransactionAddress(_) => "transaction",
        NetworkAddress::RegisterAddress(_) => "register",
        NetworkAddress::RecordKey(_) => "raw-key",
        NetworkAddress::ScratchpadAddress(_) => "scratchpad",
    }
}

pub(crate) fn random_addr(rng: &mut impl Rng) -> NetworkAddress {
    match rng.gen_range(0..6) {
        0 => NetworkAddress::from_peer(PeerId::from(gen::ed_keypair(rng).public())),
        1 => NetworkAddress::from_chunk_address(ChunkAddress::new(XorName(rng.gen()))),
        2 => NetworkAddress::from_transaction_address(TransactionAddress::new(XorName(rng.gen()))),
        3 => NetworkAddress::from_register_address(RegisterAddress::new(XorName(rng.gen()), gen::bls_sk(rng).public_key())),
        4 => {
            let n = *[1usize, 8, 32, 32, 38, 64].choose(rng).expect("nonempty");
            NetworkAddress::from_record_key(&RecordKey::from(gen::bytes(rng, n)))
        }
        _ => NetworkAddress::from_scratchpad_address(ScratchpadAddress::new(gen::bls_sk(rng).public_key())),
    }
}

fn peers(rng: &mut impl Rng, n: usize) -> Vec<PeerId> {
    (0..n).map(|_| PeerId::from(gen::ed_keypair(rng).public())).collect()
}

pub(crate) fn sorted_ref(ps: &[PeerId], target: &NetworkAddress) -> Vec<PeerId> {
    let mut v: Vec<(D32, PeerId)> = ps.iter().map(|p| (ref_distance(&p.to_bytes(), &addr_bytes(target)), *p)).collect();
    v.sort();
    v.into_iter().map(|(_, p)| p).collect()
}

impl Check for C11 {
    fn id(&self) -> &'static str {
        "C11"
    }
    fn rule(&self) -> String {
        "each case: (1) 60 address pairs of all six kinds, random plus constructed (equal, typed vs raw-key form of the same address, pairs whose hashes share 1-2 leading bytes found by a birthday search over 1500 candidates) judged for convert_distance_to_u256(a.distance(b)) == reference, symmetry, zero iff equal bytes, typed == raw-key form; \
         (2) sort_peers_by_key / sort_peers_by_address with 0..K+1 peers and requested counts 0,1,CLOSE_GROUP_SIZE-1..K+1 (Err(NotEnoughPeers) iff fewer than CLOSE_GROUP_SIZE peers, else the ascending prefix); (3) get_peers_in_range and Node::calculate_get_closest_peers (range and count modes) with ranges at an element's distance +-1; \
         (4) every 4th case: a real node driver with 8-45 routing-table peers and an optional responsible range: get_replicate_candidates and GetCloseGroupLocalPeers against the reference order, and a real store holding 5-30 records: get_records_within_distance_range, farthest record before and after a restart. \
         Non-trivial: every judged (function, input) pair; distinct = hash of function name and inputs."
            .into()
    }
    fn assumptions(&self) -> Vec<String> {
        vec![
            "distance == range bound is not judged (random 256-bit distances never hit it; constructed bounds are the element's distance +-1)".into(),
            "\"returns the requested number of nearest peers or reports that too few are known\" is read against the documented API: sort_peers_by_* errs iff fewer than CLOSE_GROUP_SIZE peers are given, otherwise returns min(n, len) peers; calculate_get_closest_peers returns min(n, len)".into(),
            "sha2 is trusted as the SHA-256 implementation of the reference".into(),
        ]
    }
    fn cases(&self, tier: Tier) -> u64 {
        tier.pick(1_500, 20_000)
    }
    fn min_nontrivial(&self, tier: Tier) -> u64 {
        tier.pick(50_000, 500_000)
    }
    fn shard_budget(&self, tier: Tier) -> std::time::Duration {
        tier.pick(std::time::Duration::from_secs(120), std::time::Duration::from_secs(1200))
    }
    fn required_counters(&self, _tier: Tier) -> Vec<&'static str> {
        vec!["pairs:leading-zero-bytes", "pairs:typed-vs-raw", "sort:not-enough-peers", "replicate-candidates-judged", "store-range-counts-judged", "farthest-after-restart-judged"]
    }
    fn lane_cases(&self, tier: Tier) -> u64 {
        tier.pick(6, 48)
    }
    fn run_case(&self, cx: &mut Cx) {
        if cx.index >= LANE_BASE {
            return crate::realcases::c11_case(cx);
        }
        // every 8th case also: the replication fetcher's admission and order (range and full-node bound both in force)
        if cx.index % 8 == 3 {
            fetcher_case(cx);
        }
        // ---- (1) pairs
        let mut pairs: Vec<(NetworkAddress, NetworkAddress, &'static str)> = vec![];
        for _ in 0..40 {
            pairs.push((random_addr(&mut cx.rng), random_addr(&mut cx.rng), "random"));
        }
        for _ in 0..6 {
            let a = random_addr(&mut cx.rng);
            pairs.push((a.clone(), a.clone(), "equal"));
            let raw = NetworkAddress::from_record_key(&a.to_record_key());
            pairs.push((a.clone(), raw, "typed-vs-raw"));
        }
        {
            // birthday search for hashes sharing leading bytes => distances with leading zero bytes
            let cands: Vec<NetworkAddress> = (0..1500).map(|_| NetworkAddress::from_record_key(&RecordKey::from(gen::bytes(&mut cx.rng, 32)))).collect();
            let mut by_prefix: std::collections::HashMap<[u8; 2], usize> = std::collections::HashMap::new();
            let mut by_prefix1: std::collections::HashMap<u8, usize> = std::collections::HashMap::new();
            for (i, c) in cands.iter().enumerate() {
                let h = sha(&addr_bytes(c));
                if let Some(j) = by_prefix.insert([h[0], h[1]], i) {
                    pairs.push((cands[i].clone(), cands[j].clone(), "leading-zero-bytes"));
                }
                if let Some(j) = by_prefix1.insert(h[0], i) {
                    if pairs.len() < 70 {
                        pairs.push((cands[i].clone(), cands[j].clone(), "leading-zero-bytes"));
                    }
                }
            }
        }
        for (a, b, label) in pairs {
            cx.eval();
            cx.count(&format!("pairs:{label}"));
            cx.nontrivial(&("pair", addr_bytes(&a), addr_bytes(&b), kind_of(&a), kind_of(&b)));
            let expect = to_u256(&rd(&a, &b));
            let got = convert_distance_to_u256(&a.distance(&b));
            let back = convert_distance_to_u256(&b.distance(&a));
            let w = json!({"a": format!("{a}"), "b": format!("{b}"), "expected": short_hex(&from_u256(&expect)), "got": short_hex(&from_u256(&got))});
            if got != expect {
                cx.violation(format!("distance-disagrees-with-metric:{}-{}", kind_of(&a), kind_of(&b)), format!("distance({}, {}) = {} but SHA-256/XOR gives {}", kind_of(&a), kind_of(&b), short_hex(&from_u256(&got)), short_hex(&from_u256(&expect))), w.clone());
            }
            if got != back {
                cx.violation("distance-not-symmetric", format!("distance({}, {}) differs from the reverse", kind_of(&a), kind_of(&b)), w.clone());
            }
            let equal_bytes = addr_bytes(&a) == addr_bytes(&b);
            if (got == ant_evm::U256::ZERO) != equal_bytes {
                cx.violation("distance-zero-iff-equal", format!("distance is zero: {}, address bytes equal: {equal_bytes}", got == ant_evm::U256::ZERO), w.clone());
            }
            if label == "typed-vs-raw" {
                let c = random_addr(&mut cx.rng);
                if convert_distance_to_u256(&a.distance(&c)) != convert_distance_to_u256(&b.distance(&c)) {
                    cx.violation("typed-and-raw-key-forms-disagree", format!("a {} address and its raw record-key form are at different distances from a third address", kind_of(&a)), w);
                }
            }
        }

        // ---- (2) sorting peers
        let k = 20usize;
        for n in [0usize, 1, CLOSE_GROUP_SIZE - 1, CLOSE_GROUP_SIZE, CLOSE_GROUP_SIZE + 1, k - 1, k, k + 1] {
            let ps = peers(&mut cx.rng, n);
            let target = random_addr(&mut cx.rng);
            let want = *[0usize, 1, CLOSE_GROUP_SIZE - 1, CLOSE_GROUP_SIZE, CLOSE_GROUP_SIZE + 1, k, k + 1].choose(&mut cx.rng).expect("nonempty");
            let expect: Vec<PeerId> = sorted_ref(&ps, &target).into_iter().take(want).collect();
            for via_key in [false, true] {
                cx.eval();
                cx.nontrivial(&("sort", n, want, via_key, addr_bytes(&target), ps.first().map(|p| p.to_bytes())));
                let res = if via_key { sort_peers_by_key(&ps, &target.as_kbucket_key(), want) } else { sort_peers_by_address(&ps, &target, want) };
                let w = json!({"peers": n, "requested": want, "target_kind": kind_of(&target)});
                match res {
                    Err(NetworkError::NotEnoughPeers { found, required }) => {
                        cx.count("sort:not-enough-peers");
                        if n >= CLOSE_GROUP_SIZE || found != n || required != CLOSE_GROUP_SIZE {
                            cx.violation("sort-peers-wrong-error", format!("sort_peers reported NotEnoughPeers(found {found}, required {required}) for {n} peers"), w);
                        }
                    }
                    Err(e) => cx.violation("sort-peers-wrong-error", format!("sort_peers returned {e:?}"), w),
                    Ok(got) => {
                        cx.count("sort:ok");
                        let got: Vec<PeerId> = got.into_iter().cloned().collect();
                        if n < CLOSE_GROUP_SIZE {
                            cx.violation("sort-peers-too-few-not-reported", format!("sort_peers returned Ok for {n} peers (< CLOSE_GROUP_SIZE)"), w);
                        } else if got != expect {
                            cx.violation("sort-peers-order", format!("sort_peers({n} peers, requested {want}) is not the ascending prefix by the XOR metric"), w);
                        }
                    }
                }
            }
        }

        // ---- (3) range filters and closest-peer selection
        for _ in 0..6 {
            let n = cx.rng.gen_range(0..=25);
            let ps = peers(&mut cx.rng, n);
            let target = random_addr(&mut cx.rng);
            let order = sorted_ref(&ps, &target);
            let bound: D32 = match order.choose(&mut cx.rng) {
                Some(p) => {
                    let d = ref_distance(&p.to_bytes(), &addr_bytes(&target));
                    if cx.rng.gen_bool(0.5) { inc(&d) } else { dec(&d) }
                }
                None => cx.rng.gen(),
            };
            let in_range: BTreeSet<PeerId> = ps.iter().filter(|p| ref_distance(&p.to_bytes(), &addr_bytes(&target)) < bound).cloned().collect();
            cx.eval();
            cx.nontrivial(&("range", n, bound, addr_bytes(&target)));
            let got: Vec<PeerId> = verif_get_peers_in_range(&ps, &target, to_u256(&bound));
            if got.iter().cloned().collect::<BTreeSet<_>>() != in_range || got.len() != in_range.len() {
                cx.violation("peers-in-range-wrong", format!("get_peers_in_range returned {} peers, {} are within the bound", got.len(), in_range.len()), json!({"peers": n, "bound": short_hex(&bound)}));
            }
            let with_addrs: Vec<(PeerId, Vec<Multiaddr>)> = ps.iter().map(|p| (*p, vec![quic_addr(1000)])).collect();
            let got2 = VerifNode::calculate_get_closest_peers(with_addrs.clone(), target.clone(), Some(cx.rng.gen_range(0..30)), Some(bound));
            let got2: BTreeSet<PeerId> = got2.iter().filter_map(|(a, _)| a.as_peer_id()).collect();
            cx.eval();
            if got2 != in_range {
                cx.violation("closest-peers-range-mode-wrong", format!("calculate_get_closest_peers(range) returned {} peers, {} are within the bound", got2.len(), in_range.len()), json!({"peers": n, "bound": short_hex(&bound)}));
            }
            let want = *[0usize, 1, 3, 5, n, n + 1, 20, 40].choose(&mut cx.rng).expect("nonempty");
            let got3: Vec<PeerId> = VerifNode::calculate_get_closest_peers(with_addrs, target.clone(), Some(want), None).iter().filter_map(|(a, _)| a.as_peer_id()).collect();
            let expect3: Vec<PeerId> = order.iter().take(want).cloned().collect();
            cx.eval();
            cx.nontrivial(&("closest", n, want, addr_bytes(&target)));
            if got3 != expect3 {
                cx.violation("closest-peers-count-mode-wrong", format!("calculate_get_closest_peers({n} known, {want} requested) is not the ascending prefix of length min(requested, known)"), json!({"peers": n, "requested": want}));
            }
        }

        // ---- (4) through a real driver and store
        if cx.index % 4 == 0 {
            driver_case(cx);
        }
        if cx.index < 2 {
            cx.sample(json!({"kind": "summary", "pairs": 60, "sort_sizes": [0, 1, 4, 5, 6, 19, 20, 21], "driver_case": cx.index % 4 == 0}));
        }
    }
}

fn driver_case(cx: &mut Cx) {
    let root = scratch_dir("c11");
    let mut sim = Sim::new(cx.rng.gen(), false);
    sim.policy = Policy::Fifo;
    sim.set_gates_controlled(false);
    let kp = gen::ed_keypair(&mut cx.rng);
    let me = PeerId::from(kp.public());
    sim.add_node(kp.clone(), root.clone(), false);
    let n = cx.rng.gen_range(8..=45);
    let mut known: Vec<PeerId> = vec![];
    for p in peers(&mut cx.rng, n) {
        if sim.nodes[0].drv.verif_add_peer(p, quic_addr(cx.rng.gen_range(1024..60000))) {
            known.push(p);
        }
    }
    // store some records
    let nrec = cx.rng.gen_range(5..=30);
    let mut keys: Vec<Vec<u8>> = vec![];
    for i in 0..nrec {
        let k = gen::bytes(&mut cx.rng, 32);
        let v = value_with_id(&mut cx.rng, RecordKind::Chunk, i as u64, 10);
        let _g = sim.rt.enter();
        let _ = sim.nodes[0].drv.verif_handle_local_cmd(LocalSwarmCmd::PutLocalRecord { record: Record { key: RecordKey::from(k.clone()), value: v, publisher: None, expires: None } });
        keys.push(k);
    }
    let mut d = || true;
    if !sim.settle(&mut d) {
        cx.inconclusive("driver case did not settle");
        return;
    }
    let self_addr = NetworkAddress::from_peer(me);
    let mut dists: Vec<D32> = keys.iter().map(|k| ref_distance(&me.to_bytes(), k)).collect();
    dists.sort();
    // responsible range (optional): around a record's or a peer's distance
    let range: Option<D32> = match cx.rng.gen_range(0..3) {
        0 => None,
        1 => Some(inc(dists.choose(&mut cx.rng).expect("records"))),
        _ => known.choose(&mut cx.rng).map(|p| dec(&ref_distance(&p.to_bytes(), &me.to_bytes()))),
    };
    if let Some(r) = range {
        sim.nodes[0].drv.verif_set_distance_range(to_u256(&r));
    }
    for _ in 0..4 {
        let target = if cx.rng.gen_bool(0.4) { self_addr.clone() } else { random_addr(&mut cx.rng) };
        let order = sorted_ref(&known, &target);
        let got = sim.nodes[0].drv.verif_get_replicate_candidates(&target);
        let expect: Vec<PeerId> = match range {
            Some(r) => {
                let within: Vec<PeerId> = order.iter().filter(|p| ref_distance(&p.to_bytes(), &addr_bytes(&target)) < r).cloned().collect();
                if within.len() >= CLOSE_GROUP_SIZE {
                    within
                } else {
                    order.iter().take(CLOSE_GROUP_SIZE).cloned().collect()
                }
            }
            None => order.iter().take(CLOSE_GROUP_SIZE).cloned().collect(),
        };
        cx.eval();
        cx.count("replicate-candidates-judged");
        cx.nontrivial(&("repl", known.len(), range, addr_bytes(&target)));
        if got.iter().collect::<BTreeSet<_>>() != expect.iter().collect::<BTreeSet<_>>() {
            cx.violation(
                "replicate-candidates-wrong",
                format!("get_replicate_candidates returned {} peers, the metric selects {} ({} known, range set: {})", got.len(), expect.len(), known.len(), range.is_some()),
                json!({"known": known.len(), "range": range.map(|r| short_hex(&r)), "target_kind": kind_of(&target)}),
            );
        } else if got != expect && range.is_none() {
            cx.violation("replicate-candidates-order", "replication candidates are not in ascending distance".to_string(), json!({"known": known.len()}));
        }
        // close group from the local routing table
        let (tx, mut rx) = tokio::sync::oneshot::channel();
        {
            let _g = sim.rt.enter();
            let _ = sim.nodes[0].drv.verif_handle_local_cmd(LocalSwarmCmd::GetCloseGroupLocalPeers { key: target.clone(), sender: tx });
        }
        if let Ok(cg) = rx.try_recv() {
            let expect_cg: Vec<PeerId> = order.iter().take(CLOSE_GROUP_SIZE).cloned().collect();
            cx.eval();
            if cg != expect_cg {
                cx.violation("close-group-wrong", "GetCloseGroupLocalPeers is not the ascending prefix of the routing table by the XOR metric".to_string(), json!({"known": known.len(), "target_kind": kind_of(&target)}));
            }
        }
    }
    // closest-k to self, as used to admit replication senders and payees
    {
        let got = sim.nodes[0].drv.verif_closest_k_value_local_peers();
        let mut expect = vec![me];
        expect.extend(sorted_ref(&known, &self_addr).into_iter().take(19));
        cx.eval();
        if got != expect {
            cx.violation("closest-k-local-peers-wrong", format!("closest K local peers ({}) are not self + the 19 nearest of {} known peers in ascending distance", got.len(), known.len()), json!({"known": known.len()}));
        }
    }
    // store: records within a range, farthest record
    let store_checks = |cx: &mut Cx, sim: &mut Sim, label: &str| {
        let st = sim.nodes[0].drv.verif_store_mut().expect("store");
        for _ in 0..4 {
            let b = if cx.rng.gen_bool(0.5) { inc(dists.choose(&mut cx.rng).expect("records")) } else { dec(dists.choose(&mut cx.rng).expect("records")) };
            let got = st.get_records_within_distance_range(to_u256(&b));
            let expect = dists.iter().filter(|d| **d < b).count();
            cx.eval();
            cx.count("store-range-counts-judged");
            cx.nontrivial(&("storerange", b, dists.len(), label.len()));
            if got != expect {
                cx.violation("records-within-range-wrong", format!("[{label}] store counts {got} records within a range that holds {expect}"), json!({"held": dists.len(), "bound": short_hex(&b)}));
            }
        }
        let far = st.get_farthest().map(|k| k.to_vec());
        let expect_far = keys.iter().max_by_key(|k| ref_distance(&me.to_bytes(), k)).cloned();
        cx.eval();
        if far != expect_far {
            cx.violation(
                "farthest-record-wrong",
                format!("[{label}] store names {:?} as its farthest record, the metric says {:?}", far.as_ref().map(|k| short_hex(k)), expect_far.as_ref().map(|k| short_hex(k))),
                json!({"held": dists.len()}),
            );
        }
    };
    store_checks(cx, &mut sim, "running");
    // restart over the same directory
    sim.bury_background_tasks();
    sim.crash_node(0);
    sim.add_node(kp, root.clone(), false);
    sim.yield_rounds(8);
    cx.count("farthest-after-restart-judged");
    store_checks(cx, &mut sim, "after-restart");
    drop(sim);
    let _ = std::fs::remove_dir_all(&root);
}


/// The fetcher's range / full-node filter and its closest-first order, against the reference metric: one multi-key
/// advertisement of 40-90 keys, a responsible range at the distance of the j-th closest key and (half of the cases) a
/// full-node bound at the m-th closest (m > j or m < j); everything the fetcher then hands out, batch by batch, is collected.
fn fetcher_case(cx: &mut Cx) {
    use ant_networking::verif::VerifFetcher;
    use ant_protocol::storage::RecordType;
    use crate::refmetric::{ref_distance, to_u256, D32};
    let rt = tokio::runtime::Builder::new_current_thread().enable_all().build().expect("rt");
    let _g = rt.enter();
    let me = PeerId::random();
    let holder = PeerId::random();
    let n = cx.rng.gen_range(40..=90usize);
    let keys: Vec<RecordKey> = (0..n).map(|_| RecordKey::from(gen::bytes(&mut cx.rng, 32))).collect();
    let dist: Vec<D32> = keys.iter().map(|k| ref_distance(&me.to_bytes(), k.as_ref())).collect();
    let mut order: Vec<usize> = (0..n).collect();
    order.sort_by_key(|i| dist[*i]);
    let j = cx.rng.gen_range(3..n - 3);
    let range = dist[order[j]];
    let full_at: Option<usize> = if cx.rng.gen_bool(0.5) { Some(cx.rng.gen_range(2..n - 1)) } else { None };
    let (mut f, _rx) = VerifFetcher::new(me);
    // the order of the two settings is free
    if cx.rng.gen_bool(0.5) {
        if let Some(m) = full_at {
            f.set_farthest_on_full(Some(keys[order[m]].clone()));
        }
        f.set_replication_distance_range(to_u256(&range));
    } else {
        f.set_replication_distance_range(to_u256(&range));
        if let Some(m) = full_at {
            f.set_farthest_on_full(Some(keys[order[m]].clone()));
        }
    }
    let incoming: Vec<(NetworkAddress, RecordType)> = keys.iter().map(|k| (NetworkAddress::from_record_key(k), RecordType::Chunk)).collect();
    // half of the cases: another node's fetcher in the same process hears the same advertisement first
    let _neighbour = if cx.rng.gen_bool(0.5) {
        let (mut nb, nrx) = VerifFetcher::new(PeerId::random());
        let _ = nb.add_keys(holder, incoming.clone(), &std::collections::HashMap::new());
        let _ = nb.next_keys_to_fetch();
        cx.count("fetcher-admission-cases-after-a-neighbour-fetcher");
        Some((nb, nrx))
    } else {
        None
    };
    let mut batches: Vec<Vec<RecordKey>> = vec![];
    let first: Vec<RecordKey> = f.add_keys(holder, incoming, &std::collections::HashMap::new()).into_iter().map(|(_, k)| k).collect();
    batches.push(first);
    for _ in 0..40 {
        let last = batches.last().cloned().unwrap_or_default();
        if last.is_empty() {
            break;
        }
        // what was handed out arrives, which frees the slots
        // (every arrival makes the fetcher hand out what fits into the freed slot)
        let mut next: Vec<RecordKey> = vec![];
        for k in &last {
            next.extend(f.notify_about_new_put(k.clone(), RecordType::Chunk).into_iter().map(|(_, k)| k));
        }
        next.extend(f.next_keys_to_fetch().into_iter().map(|(_, k)| k));
        batches.push(next);
    }
    cx.eval();
    cx.count("fetcher-admission-cases");
    let d_of = |k: &RecordKey| ref_distance(&me.to_bytes(), k.as_ref());
    let bound_full: Option<D32> = full_at.map(|m| dist[order[m]]);
    let fetched: std::collections::BTreeSet<Vec<u8>> = batches.iter().flatten().map(|k| k.to_vec()).collect();
    let w = json!({"keys": n, "range_at_rank": j, "full_node_bound_at_rank": full_at, "batches": batches.iter().map(|b| b.len()).collect::<Vec<_>>()});
    for (rank, i) in order.iter().enumerate() {
        let d = dist[*i];
        let inside = d < range && bound_full.map(|b| d <= b).unwrap_or(true);
        let outside = d > range || bound_full.map(|b| d > b).unwrap_or(false);
        let got = fetched.contains(&keys[*i].to_vec());
        if outside && got {
            cx.violation("fetcher-admits-key-outside-range-or-beyond-full-node-bound", format!("the key of rank {rank} was fetched although the responsible range ends at rank {j} and the full-node bound is at rank {full_at:?}"), w.clone());
            break;
        }
        if inside && !got {
            cx.violation("fetcher-drops-key-within-range", format!("the key of rank {rank} (inside the range ending at rank {j}, full-node bound at rank {full_at:?}) was never handed out for fetching"), w.clone());
            break;
        }
    }
    // closest first: within a batch ascending, and no batch starts closer than the previous one ended
    let flat: Vec<D32> = batches.iter().flatten().map(|k| d_of(k)).collect();
    if flat.windows(2).any(|p| p[0] > p[1]) {
        cx.violation("fetcher-order-not-closest-first", "the keys of one advertisement were not handed out in ascending distance".to_string(), w.clone());
    }
    cx.nontrivial(&("fetcher", n, j, full_at));
}
