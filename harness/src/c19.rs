//! C19 — service lifecycle state matches the managed processes, even under faults.
//!
//! The real add_node / ServiceManager::{start,stop,remove,upgrade} / refresh_node_registry /
//! NodeRegistry::{save,load} run against a simulated OS (`SimOs: ServiceControl`) and RPC
//! (`SimRpc: RpcActions`) that can fail any chosen call. Level: fault enumeration — for each
//! operation sequence every single fault placement (thorough: also pairs) is executed.

use crate::common::*;
use ant_evm::{EvmNetwork, RewardsAddress};
use ant_node_manager::add_services::add_node;
use ant_node_manager::add_services::config::{AddNodeServiceOptions, PortRange};
use ant_node_manager::{refresh_node_registry, ServiceManager, VerbosityLevel};
use ant_service_management::control::ServiceControl;
use ant_service_management::error::{Error as SvcError, Result as SvcResult};
use ant_service_management::rpc::{NetworkInfo, NodeInfo, RecordAddress, RpcActions};
use ant_service_management::{NodeRegistry, NodeService, ServiceStatus, UpgradeOptions};
use async_trait::async_trait;
use rand::{seq::SliceRandom, Rng};
use serde_json::json;
use service_manager::ServiceInstallCtx;
use std::collections::{BTreeMap, BTreeSet};
use std::path::{Path, PathBuf};
use std::sync::{Arc, Mutex};
use std::time::Duration;

pub struct C19;

#[derive(Clone, Copy, Debug, PartialEq, Eq, PartialOrd, Ord)]
pub enum Flavour {
    /// the call returns an error and has no effect
    Error,
    /// (start only) the call reports success but the process dies straight away
    SilentDeath,
}

#[derive(Default)]
pub struct OsState {
    pub calls: usize,
    pub call_log: Vec<String>,
    pub faults: BTreeMap<usize, Flavour>,
    /// fail the n-th (0-based) call of one kind, e.g. ("install", 1): the second install
    pub fail_nth_of: Option<(String, usize)>,
    pub calls_by_kind: BTreeMap<String, usize>,
    /// installed service definitions: name -> program path
    pub services: BTreeMap<String, PathBuf>,
    /// every definition ever handed to install(), for C20
    pub installed_ctx: Vec<ServiceInstallCtx>,
    /// live processes: program path -> pid
    pub procs: BTreeMap<PathBuf, u32>,
    pub next_pid: u32,
    pub next_port: u16,
}

#[derive(Clone)]
pub struct SimOs(pub Arc<Mutex<OsState>>);

impl SimOs {
    pub fn new() -> Self {
        SimOs(Arc::new(Mutex::new(OsState { next_pid: 1000, next_port: 20_000, ..Default::default() })))
    }
    /// counts the call and tells whether a fault is planned for it
    fn tick(&self, what: &str) -> Option<Flavour> {
        let mut s = self.0.lock().expect("os");
        let i = s.calls;
        s.calls += 1;
        s.call_log.push(what.to_string());
        let nth = {
            let c = s.calls_by_kind.entry(what.to_string()).or_default();
            *c += 1;
            *c - 1
        };
        if s.fail_nth_of.as_ref().map(|(k, n)| k == what && *n == nth).unwrap_or(false) {
            return Some(Flavour::Error);
        }
        s.faults.get(&i).copied()
    }
    fn injected(what: &str) -> SvcError {
        SvcError::Io(std::io::Error::other(format!("injected fault in {what}")))
    }
}

impl ServiceControl for SimOs {
    fn create_service_user(&self, _username: &str) -> SvcResult<()> {
        match self.tick("create_service_user") {
            Some(_) => Err(Self::injected("create_service_user")),
            None => Ok(()),
        }
    }
    fn get_available_port(&self) -> SvcResult<u16> {
        if self.tick("get_available_port").is_some() {
            return Err(Self::injected("get_available_port"));
        }
        let mut s = self.0.lock().expect("os");
        s.next_port += 1;
        Ok(s.next_port)
    }
    fn install(&self, install_ctx: ServiceInstallCtx, _user_mode: bool) -> SvcResult<()> {
        if self.tick("install").is_some() {
            return Err(Self::injected("install"));
        }
        let mut s = self.0.lock().expect("os");
        s.services.insert(install_ctx.label.to_string(), install_ctx.program.clone());
        s.installed_ctx.push(install_ctx);
        Ok(())
    }
    fn get_process_pid(&self, path: &Path) -> SvcResult<u32> {
        if self.tick("get_process_pid").is_some() {
            return Err(Self::injected("get_process_pid"));
        }
        let s = self.0.lock().expect("os");
        s.procs.get(path).copied().ok_or_else(|| SvcError::ServiceProcessNotFound(path.to_string_lossy().to_string()))
    }
    fn start(&self, service_name: &str, _user_mode: bool) -> SvcResult<()> {
        let f = self.tick("start");
        if f == Some(Flavour::Error) {
            return Err(Self::injected("start"));
        }
        let mut s = self.0.lock().expect("os");
        let Some(program) = s.services.get(service_name).cloned() else {
            return Err(SvcError::Io(std::io::Error::other(format!("service {service_name} is not installed"))));
        };
        if f == Some(Flavour::SilentDeath) {
            s.procs.remove(&program);
            return Ok(());
        }
        if !s.procs.contains_key(&program) {
            s.next_pid += 1;
            let pid = s.next_pid;
            s.procs.insert(program, pid);
        }
        Ok(())
    }
    fn stop(&self, service_name: &str, _user_mode: bool) -> SvcResult<()> {
        if self.tick("stop").is_some() {
            return Err(Self::injected("stop"));
        }
        let mut s = self.0.lock().expect("os");
        match s.services.get(service_name).cloned() {
            Some(program) => {
                s.procs.remove(&program);
                Ok(())
            }
            None => Err(SvcError::Io(std::io::Error::other(format!("service {service_name} is not installed")))),
        }
    }
    fn uninstall(&self, service_name: &str, _user_mode: bool) -> SvcResult<()> {
        if self.tick("uninstall").is_some() {
            return Err(Self::injected("uninstall"));
        }
        let mut s = self.0.lock().expect("os");
        match s.services.remove(service_name) {
            Some(_) => Ok(()),
            None => Err(SvcError::ServiceDoesNotExists(service_name.to_string())),
        }
    }
    fn wait(&self, _delay: u64) {}
}

pub struct SimRpc {
    os: SimOs,
    program: PathBuf,
}

#[async_trait]
impl RpcActions for SimRpc {
    async fn node_info(&self) -> SvcResult<NodeInfo> {
        if self.os.tick("rpc:node_info").is_some() {
            return Err(SvcError::RpcNodeInfoError("injected fault".into()));
        }
        let pid = self.os.0.lock().expect("os").procs.get(&self.program).copied();
        match pid {
            Some(pid) => Ok(NodeInfo { pid, peer_id: libp2p::PeerId::random(), log_path: PathBuf::from("/log"), data_path: PathBuf::from("/data"), version: "0.1.0".into(), uptime: Duration::from_secs(1), wallet_balance: 0 }),
            None => Err(SvcError::RpcConnectionError("node is not running".into())),
        }
    }
    async fn network_info(&self) -> SvcResult<NetworkInfo> {
        if self.os.tick("rpc:network_info").is_some() {
            return Err(SvcError::RpcNetworkInfoError("injected fault".into()));
        }
        if !self.os.0.lock().expect("os").procs.contains_key(&self.program) {
            return Err(SvcError::RpcConnectionError("node is not running".into()));
        }
        Ok(NetworkInfo { connected_peers: vec![], listeners: vec!["/ip4/127.0.0.1/udp/41000/quic-v1".parse().expect("addr")] })
    }
    async fn record_addresses(&self) -> SvcResult<Vec<RecordAddress>> {
        Ok(vec![])
    }
    async fn node_restart(&self, _d: u64, _r: bool) -> SvcResult<()> {
        Ok(())
    }
    async fn node_stop(&self, _d: u64) -> SvcResult<()> {
        Ok(())
    }
    async fn node_update(&self, _d: u64) -> SvcResult<()> {
        Ok(())
    }
    async fn is_node_connected_to_network(&self, _t: Duration) -> SvcResult<()> {
        if self.os.tick("rpc:is_node_connected_to_network").is_some() {
            return Err(SvcError::RpcConnectionError("injected fault".into()));
        }
        Ok(())
    }
    async fn update_log_level(&self, _l: String) -> SvcResult<()> {
        Ok(())
    }
}

#[derive(Clone, Debug)]
pub enum Op {
    Add { count: u16, node_port: Option<(u16, u16)>, rpc_port: Option<(u16, u16)>, metrics: bool },
    Start(usize),
    Stop(usize),
    Remove(usize, bool),
    Upgrade { idx: usize, force: bool, start: bool },
    /// not a manager operation: the service's process dies on its own (crash, kill -9, OOM)
    Die(usize),
}

fn op_json(op: &Op) -> serde_json::Value {
    match op {
        Op::Add { count, node_port, rpc_port, metrics } => json!({"add": {"count": count, "node_port": node_port, "rpc_port": rpc_port, "metrics": metrics}}),
        Op::Start(i) => json!({"start": i}),
        Op::Stop(i) => json!({"stop": i}),
        Op::Remove(i, keep) => json!({"remove": i, "keep_directories": keep}),
        Op::Upgrade { idx, force, start } => json!({"upgrade": idx, "force": force, "start": start}),
        Op::Die(i) => json!({"process_dies": i}),
    }
}

pub fn add_options(root: &Path, count: u16) -> AddNodeServiceOptions {
    AddNodeServiceOptions {
        antnode_dir_path: root.join("bin"),
        antnode_src_path: root.join("antnode-src"),
        auto_restart: false,
        auto_set_nat_flags: false,
        count: Some(count),
        delete_antnode_src: false,
        enable_metrics_server: false,
        env_variables: None,
        evm_network: EvmNetwork::ArbitrumOne,
        home_network: false,
        log_format: None,
        max_archived_log_files: None,
        max_log_files: None,
        metrics_port: None,
        network_id: None,
        node_ip: None,
        node_port: None,
        owner: None,
        peers_args: Default::default(),
        rewards_address: RewardsAddress::from([7u8; 20]),
        rpc_address: None,
        rpc_port: None,
        service_data_dir_path: root.join("data"),
        service_log_dir_path: root.join("logs"),
        upnp: false,
        user: None,
        user_mode: false,
        version: "0.1.0".into(),
    }
}

fn range(r: (u16, u16)) -> PortRange {
    if r.0 == r.1 {
        PortRange::Single(r.0)
    } else {
        PortRange::Range(r.0, r.1)
    }
}

struct RunOut {
    calls: usize,
    start_calls: Vec<usize>,
    violations: Vec<(String, String)>,
    log: Vec<serde_json::Value>,
}

/// Execute one operation sequence under a fault plan and judge every step.
fn run_sequence(rt: &tokio::runtime::Runtime, seq: &[Op], refresh_plan: &[bool], faults: &BTreeMap<usize, Flavour>) -> RunOut {
    let root = scratch_dir("c19");
    std::fs::write(root.join("antnode-src"), b"antnode v1").expect("src bin");
    std::fs::write(root.join("antnode-new"), b"antnode v2").expect("new bin");
    let os = SimOs::new();
    os.0.lock().expect("os").faults = faults.clone();
    let reg_path = root.join("node_registry.json");
    let mut registry = NodeRegistry::load(&reg_path).expect("empty registry");
    let mut viol: Vec<(String, String)> = vec![];
    let mut log = vec![];
    let mut removed_names: BTreeSet<String> = BTreeSet::new();
    // services whose process was left alive by a start / upgrade that returned an error (recorded as not running)
    let mut orphans: BTreeSet<String> = BTreeSet::new();
    // services whose process died on its own and that no manager operation or refresh has looked at since:
    // their record is legitimately stale until then
    let mut stale: BTreeSet<String> = BTreeSet::new();
    let mut ever_orphan: BTreeSet<String> = BTreeSet::new();
    for (step, op) in seq.iter().enumerate() {
        let calls_before = os.0.lock().expect("os").calls;
        // antctl commands refresh the registry first; the daemon's control path (rpc.rs) and library users do not
        let refreshed = if refresh_plan.get(step).copied().unwrap_or(true) { rt.block_on(refresh_node_registry(&mut registry, &os, false, false, false)) } else { Ok(()) };
        if refresh_plan.get(step).copied().unwrap_or(true) && refreshed.is_ok() {
            stale.clear();
            // a successful refresh looks at every service's process: whatever a failed start left behind is
            // recorded from here on, so it no longer excuses a mismatch
            orphans.clear();
        }
        let before_json = serde_json::to_value(&registry).unwrap_or_default();
        let running_before: BTreeSet<String> = registry.nodes.iter().filter(|n| n.status == ServiceStatus::Running).map(|n| n.service_name.clone()).collect();
        let n = registry.nodes.len();
        let (label, result, target): (String, Result<(), String>, Option<usize>) = match op {
            Op::Add { count, node_port, rpc_port, metrics } => {
                let mut o = add_options(&root, *count);
                o.node_port = node_port.map(range);
                o.rpc_port = rpc_port.map(range);
                o.enable_metrics_server = *metrics;
                let clash = {
                    let recorded: BTreeSet<u16> = registry.nodes.iter().flat_map(|x| [x.node_port, x.metrics_port, Some(x.rpc_socket_addr.port())]).flatten().collect();
                    let req: Vec<u16> = [*node_port, *rpc_port].into_iter().flatten().flat_map(|(a, b)| a..=b).collect();
                    req.iter().any(|p| recorded.contains(p))
                };
                let r = rt.block_on(add_node(o, &mut registry, &os, VerbosityLevel::Minimal)).map(|_| ()).map_err(|e| format!("{e}"));
                // add_node saves the registry itself as it goes: whatever it returns, the file it left must
                // describe the services it recorded in memory (antctl does not save after a failed add)
                if serde_json::to_value(&registry).unwrap_or_default() != before_json {
                    match NodeRegistry::load(&reg_path) {
                        Ok(on_disk) => {
                            let mem: Vec<(String, String)> = registry.nodes.iter().map(|x| (x.service_name.clone(), format!("{:?}", x.status))).collect();
                            let disk: Vec<(String, String)> = on_disk.nodes.iter().map(|x| (x.service_name.clone(), format!("{:?}", x.status))).collect();
                            if mem != disk {
                                viol.push(("add-left-saved-registry-behind-memory".into(), format!("step {step}: add returned {r:?}; in memory {mem:?}, in the file it saved {disk:?}")));
                            }
                        }
                        Err(e) => viol.push(("registry-save-load-failed".into(), format!("step {step}: the registry file left by add does not load: {e}"))),
                    }
                }
                if clash {
                    let after = serde_json::to_value(&registry).unwrap_or_default();
                    if r.is_ok() || after != before_json {
                        viol.push(("requested-port-already-recorded-not-refused".into(), format!("step {step}: add with a port another service records returned {r:?}; registry changed: {}", after != before_json)));
                    }
                }
                ("add".into(), r, None)
            }
            Op::Start(i) | Op::Stop(i) | Op::Remove(i, _) | Op::Upgrade { idx: i, .. } | Op::Die(i) if n == 0 => {
                let _ = i;
                ("skip".into(), Ok(()), None)
            }
            Op::Start(i) => {
                let idx = i % n;
                let program = registry.nodes[idx].antnode_path.clone();
                let service = NodeService::new(&mut registry.nodes[idx], Box::new(SimRpc { os: os.clone(), program })).with_connection_timeout(Duration::from_secs(1));
                let mut m = ServiceManager::new(service, Box::new(os.clone()), VerbosityLevel::Minimal);
                ("start".into(), rt.block_on(m.start()).map_err(|e| format!("{e}")), Some(idx))
            }
            Op::Stop(i) => {
                let idx = i % n;
                let program = registry.nodes[idx].antnode_path.clone();
                let service = NodeService::new(&mut registry.nodes[idx], Box::new(SimRpc { os: os.clone(), program }));
                let mut m = ServiceManager::new(service, Box::new(os.clone()), VerbosityLevel::Minimal);
                ("stop".into(), rt.block_on(m.stop()).map_err(|e| format!("{e}")), Some(idx))
            }
            Op::Remove(i, keep) => {
                let idx = i % n;
                let program = registry.nodes[idx].antnode_path.clone();
                let service = NodeService::new(&mut registry.nodes[idx], Box::new(SimRpc { os: os.clone(), program }));
                let mut m = ServiceManager::new(service, Box::new(os.clone()), VerbosityLevel::Minimal);
                ("remove".into(), rt.block_on(m.remove(*keep)).map_err(|e| format!("{e}")), Some(idx))
            }
            Op::Die(i) => {
                let idx = i % n;
                let program = registry.nodes[idx].antnode_path.clone();
                if os.0.lock().expect("os").procs.remove(&program).is_some() {
                    stale.insert(registry.nodes[idx].service_name.clone());
                }
                ("process-dies".into(), Ok(()), None)
            }
            Op::Upgrade { idx: i, force, start } => {
                let idx = i % n;
                let program = registry.nodes[idx].antnode_path.clone();
                let opts = UpgradeOptions { auto_restart: false, env_variables: None, force: *force, start_service: *start, target_bin_path: root.join("antnode-new"), target_version: semver::Version::new(0, 2, 0) };
                let service = NodeService::new(&mut registry.nodes[idx], Box::new(SimRpc { os: os.clone(), program })).with_connection_timeout(Duration::from_secs(1));
                let mut m = ServiceManager::new(service, Box::new(os.clone()), VerbosityLevel::Minimal);
                ("upgrade".into(), rt.block_on(m.upgrade(opts)).map(|_| ()).map_err(|e| format!("{e}")), Some(idx))
            }
        };
        let saved = registry.save();
        let (procs, calls_now) = {
            let s = os.0.lock().expect("os");
            (s.procs.clone(), s.calls)
        };
        log.push(json!({"step": step, "op": op_json(op), "result": result.as_ref().map(|_| "ok").map_err(|e| e.chars().take(80).collect::<String>()), "refresh_ok": refreshed.is_ok(), "calls": [calls_before, calls_now],
            "registry": registry.nodes.iter().map(|x| format!("{}:{:?}:pid={:?}", x.service_name, x.status, x.pid)).collect::<Vec<_>>(),
            "processes": procs.iter().map(|(p, pid)| format!("{}={pid}", p.file_name().and_then(|f| p.parent().and_then(|d| d.file_name()).map(|d| format!("{}/{}", d.to_string_lossy(), f.to_string_lossy()))).unwrap_or_default())).collect::<Vec<_>>()}));
        if let (Some(idx), Ok(())) = (target, &result) {
            // the manager has just dealt with this service successfully: its record must be accurate again
            // (an operation that failed may not have been able to look at the process at all, and an upgrade
            // that finds nothing to do returns Ok without looking)
            if label != "upgrade" {
                stale.remove(&registry.nodes[idx].service_name);
            }
        }
        // a failed start / upgrade that nevertheless left the process alive
        if let Some(idx) = target {
            // (an upgrade whose inner start fails still returns Ok(UpgradedButNotStarted))
            let node = &registry.nodes[idx];
            if (label == "start" || label == "upgrade") && procs.contains_key(&node.antnode_path) && node.status != ServiceStatus::Running {
                orphans.insert(node.service_name.clone());
            }
            // ... also when the record still shows an older (dead) process as running
            if (label == "start" || label == "upgrade") && result.is_err() && procs.get(&node.antnode_path).is_some_and(|p| Some(*p) != node.pid) {
                orphans.insert(node.service_name.clone());
            }
        }
        orphans.retain(|name| registry.nodes.iter().any(|x| &x.service_name == name && procs.contains_key(&x.antnode_path)));
        ever_orphan.extend(orphans.iter().cloned());
        // "came back" is a lasting consequence of the orphan process (it stays recorded after that process has died too)
        let tag = |name: &String| if orphans.contains(name) { ":process-left-by-failed-start" } else { "" };
        let tag_sticky = |name: &String| if orphans.contains(name) || ever_orphan.contains(name) { ":process-left-by-failed-start" } else { "" };
        // ---- oracle
        for node in &registry.nodes {
            if node.status == ServiceStatus::Running && !stale.contains(&node.service_name) {
                match procs.get(&node.antnode_path) {
                    Some(pid) if Some(*pid) == node.pid => {}
                    live => {
                        let newly = !running_before.contains(&node.service_name);
                        let left_by_failed_start = live.is_some() && orphans.contains(&node.service_name);
                        if left_by_failed_start {
                            // the live process is the one a failed start left behind; the record still names its dead predecessor
                            viol.push(("recorded-pid-is-not-the-live-process:process-left-by-failed-start".into(), format!("step {step} ({label}): {} is recorded Running with pid {:?}, the live process {live:?} was left by a start that failed", node.service_name, node.pid)));
                        } else {
                        viol.push((
                            format!("recorded-running-without-matching-process:{label}{}", if result.is_err() { ":after-failed-op" } else { "" }),
                            format!("step {step} ({label} -> {}): {} is recorded Running with pid {:?} but the live process is {live:?} (newly recorded: {newly})", if result.is_ok() { "ok" } else { "err" }, node.service_name, node.pid),
                        ));
                        }
                    }
                }
            }
            if removed_names.contains(&node.service_name) && node.status != ServiceStatus::Removed {
                viol.push((format!("removed-service-came-back{}", tag_sticky(&node.service_name)), format!("step {step} ({label}): {} had been removed and is now {:?}", node.service_name, node.status)));
            }
        }
        if let (Some(idx), Ok(())) = (target, &result) {
            let node = &registry.nodes[idx];
            if label == "stop" || label == "remove" {
                if procs.contains_key(&node.antnode_path) {
                    viol.push((format!("process-alive-after-successful-{label}{}", tag(&node.service_name)), format!("step {step}: {label} of {} returned Ok but its process is still alive", node.service_name)));
                }
                if node.pid.is_some() {
                    viol.push((format!("pid-recorded-after-successful-{label}"), format!("step {step}: {label} of {} returned Ok but pid {:?} is still recorded", node.service_name, node.pid)));
                }
            }
            if label == "remove" && node.status != ServiceStatus::Removed {
                viol.push(("successful-remove-not-recorded".into(), format!("step {step}: remove of {} returned Ok but status is {:?}", node.service_name, node.status)));
            }
        }
        for node in &registry.nodes {
            if node.status == ServiceStatus::Removed {
                removed_names.insert(node.service_name.clone());
            }
        }
        let names: Vec<&String> = registry.nodes.iter().map(|x| &x.service_name).collect();
        let dirs: Vec<&PathBuf> = registry.nodes.iter().map(|x| &x.data_dir_path).collect();
        if names.iter().collect::<BTreeSet<_>>().len() != names.len() {
            viol.push(("duplicate-service-name".into(), format!("step {step} ({label}): registry holds service names {names:?}")));
        }
        if dirs.iter().collect::<BTreeSet<_>>().len() != dirs.len() {
            viol.push(("duplicate-data-directory".into(), format!("step {step} ({label}): two services share a data directory")));
        }
        match (saved, NodeRegistry::load(&reg_path)) {
            (Ok(()), Ok(loaded)) => {
                if serde_json::to_value(&loaded).ok() != serde_json::to_value(&registry).ok() {
                    viol.push(("registry-save-load-mismatch".into(), format!("step {step}: the registry saved after {label} loads back to a different state")));
                }
            }
            (s, l) => viol.push(("registry-save-load-failed".into(), format!("step {step}: save -> {:?}, load ok: {}", s.map_err(|e| e.to_string()), l.is_ok()))),
        }
    }
    let (calls, call_log) = {
        let s = os.0.lock().expect("os");
        (s.calls, s.call_log.clone())
    };
    let start_calls = call_log.iter().enumerate().filter(|(_, c)| c.as_str() == "start").map(|(i, _)| i).collect();
    let _ = std::fs::remove_dir_all(&root);
    RunOut { calls, start_calls, violations: viol, log }
}

fn random_sequence(rng: &mut impl Rng, max_len: usize) -> Vec<Op> {
    let len = rng.gen_range(2..=max_len);
    let focus = rng.gen_range(0..3);
    let mut seq = vec![];
    for i in 0..len {
        let op = if i == 0 || rng.gen_bool(0.25) {
            let count = *[1u16, 1, 2, 3].choose(rng).expect("nonempty");
            let node_port = match rng.gen_range(0..4) {
                0 => {
                    // incl. the top of the port space
                    let base = *[12_000u16, 12_001, 12_002, 65_533, 65_534, 65_535].choose(rng).expect("nonempty");
                    let last = (base as u32 + count as u32 - 1).min(65_535) as u16;
                    Some((last - (count - 1), last))
                }
                _ => None,
            };
            let rpc_port = if rng.gen_bool(0.2) {
                let base = *[13_000u16, 13_001].choose(rng).expect("nonempty");
                Some((base, base + count - 1))
            } else {
                None
            };
            Op::Add { count, node_port, rpc_port, metrics: rng.gen_bool(0.2) }
        } else {
            let idx = if rng.gen_bool(0.7) { focus } else { rng.gen_range(0..4) };
            match rng.gen_range(0..11) {
                0..=3 => Op::Start(idx),
                4..=5 => Op::Stop(idx),
                6 => Op::Remove(idx, rng.gen()),
                7 | 8 => Op::Die(idx),
                _ => Op::Upgrade { idx, force: rng.gen(), start: rng.gen() },
            }
        };
        let died = if let Op::Die(i) = &op { Some(*i) } else { None };
        seq.push(op);
        // a death is usually followed by an operation on the same service
        if let Some(i) = died {
            if rng.gen_bool(0.7) && seq.len() < len {
                seq.push(match rng.gen_range(0..4) {
                    0 | 1 => Op::Stop(i),
                    2 => Op::Start(i),
                    _ => Op::Remove(i, rng.gen()),
                });
            }
        }
    }
    seq
}

impl Check for C19 {
    fn level(&self) -> &'static str {
        "fault_enumeration"
    }
    fn id(&self) -> &'static str {
        "C19"
    }
    fn rule(&self) -> String {
        "each case: one random operation sequence of length 2-5 (thorough: 2-7) over {add(count 1-3, optional node/rpc port ranges, metrics), start, stop, remove(keep?), upgrade(force?, start?)}, executed through the real add_node / ServiceManager / refresh_node_registry / NodeRegistry::save+load against a simulated OS and RPC; \
         the fault-free run counts the N service-control / RPC calls, then EVERY single fault placement is executed (call i returns an error; for start calls additionally 'reports success but the process dies'), and in the thorough tier every pair (i<j) when N <= 16, else 120 sampled pairs. \
         After every operation of every run: recorded Running => live process with the recorded PID; successful stop/remove => no process and no PID; Removed is absorbing; names and data directories pairwise distinct; an add requesting a recorded port is refused with the registry unchanged; saved registry loads back JSON-equal. \
         distinct_nontrivial counts distinct (sequence, fault plan) runs in which at least one injected fault was reached."
            .into()
    }
    fn assumptions(&self) -> Vec<String> {
        vec![
            "SimOs models a well-behaved service manager: start spawns one process per program path, stop kills it, uninstall removes the definition without touching the process, a missing definition yields ServiceDoesNotExists".into(),
            "an injected fault makes the call return an error without effect; 'silent death' makes start succeed without a surviving process".into(),
            "each operation is followed by registry.save(); 70% of the operations are preceded by refresh_node_registry(full_refresh=false) as the antctl commands do, the rest run without it as the daemon control path (rpc.rs) does".into(),
            "sequences are sampled; fault placements within a sequence are enumerated completely (single) / completely or sampled (pairs)".into(),
        ]
    }
    fn hang_cpu_budget(&self, _tier: Tier) -> Option<std::time::Duration> {
        // a case of this check is a few milliseconds of computation; one that has burnt two minutes of CPU time is not coming back
        Some(std::time::Duration::from_secs(120))
    }
    fn cases(&self, tier: Tier) -> u64 {
        tier.pick(480, 6_000)
    }
    fn min_nontrivial(&self, tier: Tier) -> u64 {
        tier.pick(3_000, 100_000)
    }
    fn shard_budget(&self, tier: Tier) -> Duration {
        tier.pick(Duration::from_secs(150), Duration::from_secs(1500))
    }
    fn required_counters(&self, _tier: Tier) -> Vec<&'static str> {
        vec!["runs:fault-free", "runs:single-fault", "runs:silent-death", "ops:upgrade", "ops:remove"]
    }
    fn run_case(&self, cx: &mut Cx) {
        let rt = tokio::runtime::Builder::new_current_thread().enable_all().build().expect("rt");
        let seq = random_sequence(&mut cx.rng, cx.tier.pick(5, 7));
        for op in &seq {
            cx.count(match op {
                Op::Add { .. } => "ops:add",
                Op::Start(_) => "ops:start",
                Op::Stop(_) => "ops:stop",
                Op::Remove(..) => "ops:remove",
                Op::Upgrade { .. } => "ops:upgrade",
                Op::Die(_) => "ops:process-dies",
            });
        }
        let seq_json: Vec<_> = seq.iter().map(op_json).collect();
        // the step right after a spontaneous death mostly runs without the registry refresh (the daemon's control path
        // and library users do not refresh): the operation itself then meets the dead process
        let refresh_plan: Vec<bool> = seq.iter().enumerate().map(|(i, _)| if i > 0 && matches!(seq[i - 1], Op::Die(_)) { cx.rng.gen_bool(0.25) } else { cx.rng.gen_bool(0.7) }).collect();
        let base = run_sequence(&rt, &seq, &refresh_plan, &BTreeMap::new());
        cx.eval();
        cx.count("runs:fault-free");
        let mut report = |cx: &mut Cx, out: &RunOut, plan: &BTreeMap<usize, Flavour>| {
            for (sig, detail) in &out.violations {
                let plan_s: Vec<String> = plan.iter().map(|(i, f)| format!("call#{i}:{f:?}")).collect();
                cx.violation(sig.clone(), format!("{detail} [faults: {plan_s:?}]"), json!({"sequence": seq_json, "refresh_before_step": refresh_plan, "faults": plan_s, "run": out.log}));
            }
        };
        report(cx, &base, &BTreeMap::new());
        let n = base.calls;
        let mut plans: Vec<BTreeMap<usize, Flavour>> = vec![];
        for i in 0..n {
            plans.push([(i, Flavour::Error)].into_iter().collect());
        }
        for i in &base.start_calls {
            plans.push([(*i, Flavour::SilentDeath)].into_iter().collect());
        }
        if cx.tier == Tier::Thorough {
            let mut pairs = vec![];
            for i in 0..n {
                for j in (i + 1)..n + 2 {
                    pairs.push((i, j));
                }
            }
            if pairs.len() > 140 {
                pairs.shuffle(&mut cx.rng);
                pairs.truncate(120);
                cx.count("pair-sets-sampled");
            } else {
                cx.count("pair-sets-complete");
            }
            for (i, j) in pairs {
                plans.push([(i, Flavour::Error), (j, Flavour::Error)].into_iter().collect());
            }
        }
        for plan in plans {
            let out = run_sequence(&rt, &seq, &refresh_plan, &plan);
            cx.eval();
            let silent = plan.values().any(|f| *f == Flavour::SilentDeath);
            cx.count(if silent { "runs:silent-death" } else if plan.len() == 1 { "runs:single-fault" } else { "runs:fault-pair" });
            // the fault was reached if the run made at least as many calls as the fault index
            if plan.keys().all(|i| *i < out.calls) {
                cx.nontrivial(&(format!("{seq_json:?}"), plan.iter().map(|(i, f)| (*i, *f == Flavour::Error)).collect::<Vec<_>>()));
            }
            report(cx, &out, &plan);
        }
        if cx.index < 2 {
            cx.sample(json!({"sequence": seq_json, "calls_in_fault_free_run": n, "fault_free_run": base.log}));
        }
    }
}
