//! C03 — new data is stored from a client only with a valid payment for that exact data.
//!
//! A real node (SwarmDriver + store + real `Node` validation) is driven by the simulator; the
//! payment contract is a local JSON-RPC stub answering `verifyPayment` from a harness ledger.

use crate::common::*;
use crate::gen;
use crate::sim::{Policy, Sim};
use ant_evm::{EncodedPeerId, PaymentQuote, ProofOfPayment};
use ant_protocol::storage::{try_serialize_record, RecordKind};
use ant_protocol::NetworkAddress;
use ant_registers::Permissions;
use libp2p::identity::Keypair;
use libp2p::kad::{Record, RecordKey};
use libp2p::PeerId;
use rand::Rng;
use serde_json::json;
use std::collections::BTreeSet;
use std::time::{Duration, SystemTime};
use xor_name::XorName;

pub struct C03;

#[derive(Clone, Copy, Debug, PartialEq, Eq)]
pub struct Conds {
    pub signed: bool,
    pub us_payee: bool,
    pub payees_close: bool,
    pub fresh: bool,
    pub paid: bool,
    pub for_this_address: bool,
}

impl Conds {
    pub fn all() -> Self {
        Conds { signed: true, us_payee: true, payees_close: true, fresh: true, paid: true, for_this_address: true }
    }
    pub fn from_bits(b: u8) -> Self {
        Conds { signed: b & 1 != 0, us_payee: b & 2 != 0, payees_close: b & 4 != 0, fresh: b & 8 != 0, paid: b & 16 != 0, for_this_address: b & 32 != 0 }
    }
    pub fn holds(&self) -> bool {
        self.signed && self.us_payee && self.payees_close && self.fresh && self.paid && self.for_this_address
    }
    pub(crate) fn label(&self) -> String {
        let mut v = vec![];
        if !self.signed {
            v.push("forged-quote-signature");
        }
        if !self.us_payee {
            v.push("node-not-a-payee");
        }
        if !self.payees_close {
            v.push("payee-not-close");
        }
        if !self.fresh {
            v.push("quote-expired");
        }
        if !self.paid {
            v.push("not-paid-on-chain");
        }
        if !self.for_this_address {
            v.push("quote-for-other-address");
        }
        if v.is_empty() {
            "all-conditions-hold".into()
        } else {
            v.join("+")
        }
    }
}

pub struct PayEnv {
    pub node_kp: Keypair,
    /// payees the node knows as close (in its routing table)
    pub close: Vec<Keypair>,
    /// a peer the node does not know at all
    pub stranger: Keypair,
}

/// Build a proof of `n` quotes for `content` that satisfies exactly the given conditions, and
/// register it with the ledger stub. Each false condition is a single-spot fault of an otherwise valid proof.
pub fn build_proof(rng: &mut impl Rng, env: &PayEnv, content: XorName, n: usize, c: Conds, stub: &crate::stub::VaultStub) -> ProofOfPayment {
    let ts = SystemTime::now() - Duration::from_secs(rng.gen_range(5..900));
    let mut payees: Vec<&Keypair> = vec![];
    if c.us_payee {
        payees.push(&env.node_kp);
    }
    let mut others: Vec<&Keypair> = env.close.iter().collect();
    while payees.len() < n {
        payees.push(others.remove(rng.gen_range(0..others.len())));
    }
    if !c.payees_close {
        // one of the *other* payees is a peer this node has never heard of
        let idx = if c.us_payee { rng.gen_range(1..n) } else { rng.gen_range(0..n) };
        payees[idx] = &env.stranger;
    }
    // keep our own entry at a random position
    if c.us_payee {
        let pos = rng.gen_range(0..n);
        payees.swap(0, pos);
    }
    let mut quotes: Vec<(EncodedPeerId, PaymentQuote)> = payees
        .iter()
        .map(|kp| {
            let ours = PeerId::from(kp.public()) == PeerId::from(env.node_kp.public());
            let qc = if ours && !c.for_this_address { XorName(rng.gen()) } else { content };
            (EncodedPeerId::from(PeerId::from(kp.public())), gen::quote_for(kp, qc, ts, rng))
        })
        .collect();
    if !c.fresh {
        // one quote dated outside the validity window (too old or in the future), properly re-signed
        let i = rng.gen_range(0..n);
        let kp = payees[i];
        let bad_ts = if rng.gen_bool(0.7) { SystemTime::now() - Duration::from_secs(rng.gen_range(3700..90_000)) } else { SystemTime::now() + Duration::from_secs(rng.gen_range(120..90_000)) };
        let qc = quotes[i].1.content;
        quotes[i].1 = gen::quote_for(kp, qc, bad_ts, rng);
    }
    if !c.signed {
        // one quote whose signature does not belong to its claimed node
        let i = rng.gen_range(0..n);
        // the genuine quote has been seen and verified in this process before (a quoting round, the client's own check,
        // another node of the same process): whatever that left behind must not vouch for the altered quote below
        if rng.gen_bool(0.7) {
            if let Ok(p) = quotes[i].0.to_peer_id() {
                let _ = quotes[i].1.check_is_signed_by_claimed_peer(p);
            }
        }
        match rng.gen_range(0..5) {
            4 => {
                // a payee listed twice: an altered copy of its quote (the signature no longer covers it) ahead of the
                // genuine one - whoever de-duplicates by payee must not lose sight of the forged entry
                let mut forged = quotes[i].clone();
                forged.1.quoting_metrics.close_records_stored ^= 1;
                forged.1.quoting_metrics.received_payment_count = 0;
                quotes.insert(i, forged);
            }
            3 => {
                // a complete, internally consistent quote made by somebody else (own key, own signature),
                // listed under the payee's peer id
                let q = gen::quote_for(&env.stranger, quotes[i].1.content, ts, rng);
                quotes[i].1 = q;
            }
            0 => {
                let l = quotes[i].1.signature.len();
                quotes[i].1.signature[rng.gen_range(0..l)] ^= 0x40;
            }
            1 => {
                // signed by somebody else, claimed for the payee
                let q = gen::quote_for(&env.stranger, quotes[i].1.content, ts, rng);
                quotes[i].1.signature = q.signature;
            }
            _ => quotes[i].1.quoting_metrics.close_records_stored ^= 1, // signed field altered after signing
        }
    }
    // ledger: every quote paid (valid) unless the contract is to deny
    for (j, (_, q)) in quotes.iter().enumerate() {
        let pay_this = c.paid || (n > 3 && j % 2 == 0 && false);
        stub.set_paid(q.hash().0, 1_000 + j as u128, pay_this);
    }
    if !c.paid && rng.gen_bool(0.5) {
        // only one of the quotes unpaid
        // (it carries the highest amount so that it is among the three results the contract reports)
        for (j, (_, q)) in quotes.iter().enumerate() {
            stub.set_paid(q.hash().0, if j == 0 { 9_000 } else { 1_000 + j as u128 }, j != 0);
        }
    }
    ProofOfPayment { peer_quotes: quotes }
}

#[derive(Clone, Copy, Debug, PartialEq, Eq)]
pub enum Kind {
    Chunk,
    Register,
    Scratchpad,
    Transaction,
}

pub struct Item {
    pub key: RecordKey,
    pub content: XorName,
    /// the record as a client uploads it with a payment
    pub paid_record: Box<dyn Fn(&ProofOfPayment) -> Record>,
    /// the same data as the plain (stored / replicated / unpaid) record kind
    pub plain_record: Record,
}

pub fn make_item(rng: &mut impl Rng, kind: Kind) -> Item {
    match kind {
        Kind::Chunk => {
            let n = rng.gen_range(1..3000);
            let c = gen::chunk(rng, n);
            let key = NetworkAddress::from_chunk_address(*c.address()).to_record_key();
            let (k2, c2) = (key.clone(), c.clone());
            Item {
                key: key.clone(),
                content: *c.name(),
                paid_record: Box::new(move |p| gen::record(k2.clone(), try_serialize_record(&(p.clone(), c2.clone()), RecordKind::ChunkWithPayment).expect("ser").to_vec())),
                plain_record: gen::chunk_record(&c),
            }
        }
        Kind::Register => {
            let owner = gen::bls_sk(rng);
            let mut reg = gen::register(&owner, XorName(rng.gen()), Permissions::default());
            let addr = *reg.address();
            let _ = reg.add_op(gen::reg_op(addr, gen::bytes_r(rng, 1, 40), BTreeSet::new(), &owner));
            let key = gen::reg_key(&addr);
            let (k2, r2) = (key.clone(), reg.clone());
            Item {
                key,
                content: addr.xorname(),
                paid_record: Box::new(move |p| gen::record(k2.clone(), try_serialize_record(&(p.clone(), r2.clone()), RecordKind::RegisterWithPayment).expect("ser").to_vec())),
                plain_record: gen::reg_record(&reg),
            }
        }
        Kind::Scratchpad => {
            let owner = gen::bls_sk(rng);
            let data = gen::bytes_r(rng, 0, 300);
            let pad = gen::pad(&owner, rng.gen_range(1..1000), &data, 0);
            let key = gen::pad_key(&pad);
            let (k2, p2) = (key.clone(), pad.clone());
            Item {
                key,
                content: pad.address().xorname(),
                paid_record: Box::new(move |p| gen::record(k2.clone(), try_serialize_record(&(p.clone(), p2.clone()), RecordKind::ScratchpadWithPayment).expect("ser").to_vec())),
                plain_record: gen::pad_record(&pad),
            }
        }
        Kind::Transaction => {
            let owner = gen::bls_sk(rng);
            let tx = gen::transaction(rng, &owner);
            let key = gen::tx_key(&owner.public_key());
            let (k2, t2) = (key.clone(), tx.clone());
            Item {
                key: key.clone(),
                content: *tx.address().xorname(),
                paid_record: Box::new(move |p| gen::record(k2.clone(), try_serialize_record(&(p.clone(), t2.clone()), RecordKind::TransactionWithPayment).expect("ser").to_vec())),
                plain_record: gen::txs_record(key, &vec![tx]),
            }
        }
    }
}

/// a node-sim with a routing table: returns (sim, env). The node is index 0.
pub fn node_sim(cx: &mut Cx, root: &std::path::Path, extra_close_peers: usize) -> (Sim, PayEnv) {
    let mut sim = Sim::new(cx.rng.gen(), true);
    sim.policy = Policy::Fifo;
    sim.set_gates_controlled(false);
    let node_kp = gen::ed_keypair(&mut cx.rng);
    sim.add_node(node_kp.clone(), root.to_path_buf(), true);
    let close: Vec<Keypair> = (0..6 + extra_close_peers).map(|_| gen::ed_keypair(&mut cx.rng)).collect();
    let ids: Vec<PeerId> = close.iter().map(|k| PeerId::from(k.public())).collect();
    sim.add_rt_peers(0, &ids);
    let stranger = gen::ed_keypair(&mut cx.rng);
    (sim, PayEnv { node_kp, close, stranger })
}

const KINDS: [Kind; 4] = [Kind::Chunk, Kind::Register, Kind::Scratchpad, Kind::Transaction];

impl Check for C03 {
    fn id(&self) -> &'static str {
        "C03"
    }
    fn rule(&self) -> String {
        "each case: one real node (driver, store, real Node::validate_and_store_record) with 6 routing-table peers and the payment-vault stub; a batch of uploads over the four paid record kinds: for every kind all 64 combinations of {quotes authentically signed, this node among payees, all payees known close, no quote expired / future-dated, contract confirms payment, this node's quote issued for the stored address} are covered across cases 0-63 (case index mod 64 selects the combination; other cases draw random multi-fault proofs), proofs of 3 or 5 quotes, \
         each false condition being a single-spot fault of an otherwise valid proof; prior store content absent or present; plus unpaid uploads of every kind against absent / present content. Judged after the simulator has drained every command, event and disk task: for an address not held before, the record is stored iff all six conditions hold and the call returns Err iff it was not stored; a held chunk stays byte-identical; unpaid uploads never create a record; the payment-received counter moves only when the contract confirmed. \
         Non-trivial: every upload whose proof reaches at least the signature check (i.e. is well-formed); distinct = (kind, combination, prior, proof size, case)."
            .into()
    }
    fn assumptions(&self) -> Vec<String> {
        vec![
            "the stub models the contract interface: verifyPayment answers from the harness ledger with the three best-paid results; pricing is not modelled".into(),
            "'payees known as close' is made false by a payee the node has never heard of (not in its routing table)".into(),
            "when the node is not a payee the sixth condition (quote for this address) is vacuous and the upload must be rejected anyway".into(),
        ]
    }
    fn cases(&self, tier: Tier) -> u64 {
        tier.pick(768, 8_192)
    }
    fn min_nontrivial(&self, tier: Tier) -> u64 {
        tier.pick(1_200, 12_000)
    }
    fn shard_budget(&self, tier: Tier) -> Duration {
        tier.pick(Duration::from_secs(200), Duration::from_secs(1500))
    }
    fn required_counters(&self, _tier: Tier) -> Vec<&'static str> {
        vec!["uploads:all-conditions-hold", "uploads:quote-for-other-address", "uploads:not-paid-on-chain", "uploads:payee-not-close", "unpaid-uploads", "rpc-calls", "proof-presented-twice:payee-left-the-routing-table-since-the-first-presentation"]
    }
    fn lane_cases(&self, tier: Tier) -> u64 {
        tier.pick(6, 48)
    }
    fn run_case(&self, cx: &mut Cx) {
        if cx.index >= LANE_BASE {
            return crate::realcases::c03_case(cx);
        }
        let root = scratch_dir("c03");
        let (mut sim, env) = node_sim(cx, &root, 0);
        let stub_calls = |sim: &Sim| sim.stub.as_ref().map(|s| s.calls.load(std::sync::atomic::Ordering::SeqCst)).unwrap_or(0);
        let node = sim.nodes[0].node.clone().expect("node layer");
        // the systematic combination of this case, applied to every kind; then random ones
        let mut plans: Vec<(Kind, Conds)> = KINDS.iter().map(|k| (*k, Conds::from_bits((cx.index % 64) as u8))).collect();
        for _ in 0..3 {
            let mut b: u8 = 63;
            for _ in 0..cx.rng.gen_range(0..3) {
                b &= !(1 << cx.rng.gen_range(0..6));
            }
            plans.push((KINDS[cx.rng.gen_range(0..4)], Conds::from_bits(b)));
        }
        for (kind, conds) in plans {
            let item = make_item(&mut cx.rng, kind);
            let prior_present = cx.rng.gen_bool(0.25);
            if prior_present {
                let n2 = node.clone();
                let rec = item.plain_record.clone();
                if sim.run_op(async move { n2.store_replicated_in_record(rec).await }).is_none() {
                    cx.inconclusive("could not pre-populate the store");
                    continue;
                }
            }
            let before = sim.get_local(0, &item.key);
            let nq = if cx.rng.gen_bool(0.5) { 3 } else { 5 };
            let proof = build_proof(&mut cx.rng, &env, item.content, nq, conds, sim.stub.as_ref().expect("stub"));
            let record = (item.paid_record)(&proof);
            let pay_before = sim.nodes[0].drv.verif_store_mut().expect("store").verif_snapshot().received_payment_count;
            let calls_before = stub_calls(&sim);
            let n2 = node.clone();
            let res = sim.run_op(async move { n2.validate_and_store_record(record).await });
            let Some(res) = res else {
                cx.inconclusive(format!("upload did not complete ({kind:?}, {})", conds.label()));
                continue;
            };
            cx.eval();
            cx.count(&format!("uploads:{}", if conds.holds() { "all-conditions-hold".to_string() } else { conds.label().split('+').next().unwrap_or("").to_string() }));
            cx.count_n("rpc-calls", stub_calls(&sim) - calls_before);
            cx.nontrivial(&(format!("{kind:?}"), conds.label(), prior_present, nq, cx.index));
            let after = sim.get_local(0, &item.key);
            let has = sim.has_key(0, &item.key);
            let pay_after = sim.nodes[0].drv.verif_store_mut().expect("store").verif_snapshot().received_payment_count;
            let w = json!({"kind": format!("{kind:?}"), "conditions": format!("{conds:?}"), "prior_present": prior_present, "quotes": nq, "result": format!("{res:?}").chars().take(200).collect::<String>()});
            if before.is_none() {
                let stored = after.is_some() || has;
                if stored && !conds.holds() {
                    cx.violation(
                        format!("stored-without-valid-payment:{}", conds.label()),
                        format!("{kind:?} upload at an address not held before was stored although: {} (result {res:?})", conds.label()),
                        w.clone(),
                    );
                }
                if !stored && conds.holds() {
                    cx.violation("valid-paid-upload-not-stored", format!("{kind:?} upload with a fully valid payment was not stored: {res:?}"), w.clone());
                }
                if res.is_ok() != stored {
                    cx.violation(
                        if res.is_ok() { "accepted-but-not-stored" } else { "rejected-but-stored" },
                        format!("{kind:?} upload returned {res:?} while stored={stored} ({})", conds.label()),
                        w.clone(),
                    );
                }
                if let (Some(a), true) = (&after, conds.holds()) {
                    if a.value != item.plain_record.value {
                        cx.violation("stored-bytes-differ", format!("{kind:?} stored bytes are not the uploaded data"), w.clone());
                    }
                }
            } else if kind == Kind::Chunk && after.as_ref().map(|r| &r.value) != before.as_ref().map(|r| &r.value) {
                cx.violation("held-chunk-changed", "an upload changed the bytes of a chunk that was already held".to_string(), w.clone());
            }
            // payments are counted only when the contract confirmed them
            let confirmed = conds.signed && conds.us_payee && conds.payees_close && conds.fresh && conds.paid;
            if pay_after > pay_before && !confirmed {
                cx.violation("payment-counted-without-confirmation", format!("payment-received counter rose although: {}", conds.label()), w.clone());
            }
            if pay_after == pay_before && conds.holds() {
                cx.violation("confirmed-payment-not-counted", "a fully valid, confirmed payment did not increase the payment-received counter".to_string(), w);
            }
        }
        // ---- the payment contract cannot be consulted (endpoint down / rate limited): an otherwise perfect proof is
        //      not a confirmed payment, nothing may be stored
        if cx.rng.gen_bool(0.3) {
            let kind = KINDS[cx.rng.gen_range(0..4)];
            let item = make_item(&mut cx.rng, kind);
            let proof = build_proof(&mut cx.rng, &env, item.content, 3, Conds::all(), sim.stub.as_ref().expect("stub"));
            let record = (item.paid_record)(&proof);
            sim.stub.as_ref().expect("stub").set_unavailable(true);
            let pay_before = sim.nodes[0].drv.verif_store_mut().expect("store").verif_snapshot().received_payment_count;
            let n2 = node.clone();
            let res = sim.run_op(async move { n2.validate_and_store_record(record).await });
            sim.stub.as_ref().expect("stub").set_unavailable(false);
            cx.eval();
            cx.count("uploads:contract-unreachable");
            if let Some(res) = res {
                let stored = sim.get_local(0, &item.key).is_some() || sim.has_key(0, &item.key);
                let pay_after = sim.nodes[0].drv.verif_store_mut().expect("store").verif_snapshot().received_payment_count;
                if stored || res.is_ok() {
                    cx.violation("stored-without-valid-payment:contract-unreachable", format!("a {kind:?} upload was {} while every call to the payment contract failed (result {res:?})", if stored { "stored" } else { "accepted" }), json!({"kind": format!("{kind:?}")}));
                }
                if pay_after > pay_before {
                    cx.violation("payment-counted-without-confirmation", "payment-received counter rose although the contract could not be consulted".to_string(), json!({"kind": format!("{kind:?}")}));
                }
            }
        }
        // ---- a held record of another kind under the same key (a scratchpad and the transactions of one owner share
        //      their record key): an upload with an invalid payment must not replace it
        if cx.rng.gen_bool(0.4) {
            let owner = gen::bls_sk(&mut cx.rng);
            let pad = gen::pad(&owner, cx.rng.gen_range(1..100), &gen::bytes_r(&mut cx.rng, 1, 60), 0);
            let tx = gen::transaction(&mut cx.rng, &owner);
            let (pk, tk) = (gen::pad_key(&pad), gen::tx_key(&owner.public_key()));
            if pk != tk {
                cx.count("cross-kind:keys-differ");
            } else {
                let pad_first = cx.rng.gen_bool(0.5);
                let prior = if pad_first { gen::pad_record(&pad) } else { gen::txs_record(tk.clone(), &vec![tx.clone()]) };
                let n2 = node.clone();
                let pr = prior.clone();
                let seeded = sim.run_op(async move { n2.store_replicated_in_record(pr).await });
                let mut b: u8 = 63;
                for _ in 0..cx.rng.gen_range(0..3) {
                    b &= !(1 << cx.rng.gen_range(0..6));
                }
                let conds = Conds::from_bits(b);
                let content = if pad_first { *tx.address().xorname() } else { pad.address().xorname() };
                let proof = build_proof(&mut cx.rng, &env, content, 3, conds, sim.stub.as_ref().expect("stub"));
                let upload = if pad_first {
                    gen::record(tk.clone(), try_serialize_record(&(proof, tx.clone()), RecordKind::TransactionWithPayment).expect("ser").to_vec())
                } else {
                    gen::record(pk.clone(), try_serialize_record(&(proof, pad.clone()), RecordKind::ScratchpadWithPayment).expect("ser").to_vec())
                };
                let before = sim.get_local(0, &pk);
                let n2 = node.clone();
                let res = sim.run_op(async move { n2.validate_and_store_record(upload).await });
                cx.eval();
                cx.count("cross-kind-uploads");
                if let (Some(Ok(())), Some(before), Some(res)) = (seeded, before, res) {
                    let after = sim.get_local(0, &pk);
                    if after.as_ref().map(|r| &r.value) != Some(&before.value) && !conds.holds() {
                        cx.count("cross-kind-uploads:invalid-payment");
                        cx.violation(
                            format!("stored-without-valid-payment:over-held-record-of-another-kind:{}", conds.label()),
                            format!("a {} upload whose payment fails ({}) replaced the {} the node held under the same key (result {res:?})", if pad_first { "transaction" } else { "scratchpad" }, conds.label(), if pad_first { "scratchpad" } else { "transaction set" }),
                            json!({"held": if pad_first { "scratchpad" } else { "transactions" }, "conditions": format!("{conds:?}")}),
                        );
                    }
                }
            }
        }
        // ---- one proof presented twice: what made the payment acceptable must hold at the moment of *each* presentation.
        //      First with content the node turns down after the payment check (a scratchpad not signed by its owner), so
        //      nothing is stored; then a payee leaves the routing table (or the quote runs out); then the same proof with
        //      acceptable content
        if cx.rng.gen_bool(0.35) {
            let owner = gen::bls_sk(&mut cx.rng);
            let good = gen::pad(&owner, cx.rng.gen_range(1..100), &gen::bytes_r(&mut cx.rng, 1, 60), 0);
            let mut raw = gen::RawPad::from_pad(&good);
            raw.sign(&gen::bls_sk(&mut cx.rng));
            let bad = raw.to_pad();
            let key = gen::pad_key(&good);
            let by_time = cx.index % 40 == 17;
            let stub = sim.stub.as_ref().expect("stub");
            let mut proof = build_proof(&mut cx.rng, &env, good.address().xorname(), 3, Conds::all(), stub);
            if by_time {
                // every quote re-issued with three seconds left to run
                let ts = SystemTime::now() - Duration::from_secs(3597);
                for (enc, q) in proof.peer_quotes.iter_mut() {
                    let pid = enc.to_peer_id().expect("peer id");
                    let kp = if pid == PeerId::from(env.node_kp.public()) { &env.node_kp } else { env.close.iter().find(|k| PeerId::from(k.public()) == pid).expect("payee key") };
                    *q = gen::quote_for(kp, q.content, ts, &mut cx.rng);
                    stub.set_paid(q.hash().0, 1_000, true);
                }
            }
            let first = gen::record(key.clone(), try_serialize_record(&(proof.clone(), bad), RecordKind::ScratchpadWithPayment).expect("ser").to_vec());
            let second = gen::record(key.clone(), try_serialize_record(&(proof.clone(), good), RecordKind::ScratchpadWithPayment).expect("ser").to_vec());
            let n2 = node.clone();
            let r1 = sim.run_op(async move { n2.validate_and_store_record(first).await });
            let stored1 = sim.get_local(0, &key).is_some() || sim.has_key(0, &key);
            cx.eval();
            if stored1 {
                cx.violation("scratchpad-not-signed-by-its-owner-stored", format!("first presentation: {r1:?}"), json!({"history": "proof presented twice"}));
            } else {
                let what = if by_time {
                    std::thread::sleep(Duration::from_secs(4));
                    "quote-expired-since-the-first-presentation"
                } else {
                    let me = PeerId::from(env.node_kp.public());
                    let leaver = proof.peer_quotes.iter().filter_map(|(e, _)| e.to_peer_id().ok()).find(|p| *p != me).expect("another payee");
                    let _g = sim.rt.enter();
                    sim.nodes[0].drv.verif_remove_peer(leaver);
                    "payee-left-the-routing-table-since-the-first-presentation"
                };
                sim.collect();
                let n2 = node.clone();
                let r2 = sim.run_op(async move { n2.validate_and_store_record(second).await });
                cx.eval();
                cx.count(&format!("proof-presented-twice:{what}"));
                let stored2 = sim.get_local(0, &key).is_some() || sim.has_key(0, &key);
                if stored2 || matches!(r2, Some(Ok(()))) {
                    cx.violation(format!("stored-without-valid-payment:{what}"), format!("the proof was acceptable when first presented (content refused: {r1:?}); presented again after that, the upload was {} (result {r2:?})", if stored2 { "stored" } else { "accepted" }), json!({"history": ["paid proof + scratchpad not signed by its owner", what, "same proof + valid scratchpad"]}));
                }
            }
        }
        // ---- a confirmed payment of an EARLIER upload lends nothing to a later one: upload 1 is fully paid and stored; the
        //      proof of upload 2 (another address) carries this node's fresh quote, which nobody paid, next to another
        //      payee's quote taken from upload 1, which the contract did confirm
        if cx.rng.gen_bool(0.35) {
            let stub = sim.stub.as_ref().expect("stub");
            let c1 = gen::chunk(&mut cx.rng, 300);
            let c2 = gen::chunk(&mut cx.rng, 300);
            let proof1 = build_proof(&mut cx.rng, &env, *c1.name(), 3, Conds::all(), stub);
            let mut proof2 = build_proof(&mut cx.rng, &env, *c2.name(), 3, Conds::all(), stub);
            let me = PeerId::from(env.node_kp.public());
            // nobody paid for upload 2 ...
            for (_, q) in proof2.peer_quotes.iter() {
                stub.set_paid(q.hash().0, 1_000, false);
            }
            // ... and one of its other payees' entries is replaced by a payee's confirmed quote from upload 1
            let donor = proof1.peer_quotes.iter().find(|(e, _)| e.to_peer_id().map(|p| p != me).unwrap_or(false)).cloned();
            let slot = proof2.peer_quotes.iter().position(|(e, _)| e.to_peer_id().map(|p| p != me).unwrap_or(false));
            if let (Some(donor), Some(slot)) = (donor, slot) {
                proof2.peer_quotes.retain(|(e, _)| e.to_peer_id().ok() != donor.0.to_peer_id().ok());
                let slot = slot.min(proof2.peer_quotes.len());
                proof2.peer_quotes.insert(slot, donor);
                let k1 = NetworkAddress::from_chunk_address(*c1.address()).to_record_key();
                let k2 = NetworkAddress::from_chunk_address(*c2.address()).to_record_key();
                let r1rec = gen::record(k1.clone(), try_serialize_record(&(proof1, c1.clone()), RecordKind::ChunkWithPayment).expect("ser").to_vec());
                let r2rec = gen::record(k2.clone(), try_serialize_record(&(proof2, c2.clone()), RecordKind::ChunkWithPayment).expect("ser").to_vec());
                let n2 = node.clone();
                let r1 = sim.run_op(async move { n2.validate_and_store_record(r1rec).await });
                let stored1 = sim.get_local(0, &k1).is_some() || sim.has_key(0, &k1);
                let n2 = node.clone();
                let r2 = sim.run_op(async move { n2.validate_and_store_record(r2rec).await });
                let stored2 = sim.get_local(0, &k2).is_some() || sim.has_key(0, &k2);
                cx.eval();
                if stored1 && matches!(r1, Some(Ok(()))) {
                    cx.count("uploads:own-quote-unpaid-next-to-a-quote-confirmed-for-an-earlier-upload");
                    if stored2 || matches!(r2, Some(Ok(()))) {
                        cx.violation("stored-without-valid-payment:quote-confirmed-for-an-earlier-upload-reused", format!("upload 2 carries this node's unpaid quote next to another payee's quote that was confirmed for upload 1; it was {} (result {r2:?})", if stored2 { "stored" } else { "accepted" }), json!({"history": ["paid upload 1 stored", "upload 2: own quote unpaid + payee quote of upload 1"]}));
                    }
                } else {
                    cx.count("uploads:earlier-paid-upload-not-stored(history-not-judged)");
                }
            }
        }
        // ---- unpaid uploads never create a record
        for kind in KINDS {
            let item = make_item(&mut cx.rng, kind);
            let n2 = node.clone();
            let rec = item.plain_record.clone();
            let res = sim.run_op(async move { n2.validate_and_store_record(rec).await });
            cx.eval();
            cx.count("unpaid-uploads");
            if let Some(res) = res {
                let stored = sim.get_local(0, &item.key).is_some() || sim.has_key(0, &item.key);
                if stored || res.is_ok() {
                    cx.violation(format!("unpaid-upload-created-record:{kind:?}"), format!("an unpaid {kind:?} upload at an address not held returned {res:?}, stored={stored}"), json!({"kind": format!("{kind:?}")}));
                }
            }
        }
        if cx.index < 2 {
            cx.sample(json!({"kinds": ["Chunk", "Register", "Scratchpad", "Transaction"], "systematic_combination": format!("{:?}", Conds::from_bits((cx.index % 64) as u8)), "schedule_head": sim.schedule.iter().take(16).cloned().collect::<Vec<_>>()}));
        }
        drop(sim);
        let _ = std::fs::remove_dir_all(&root);
    }
}
