//! C04 — every accepted record's address is derived from its own content or owner.

use crate::c03::{build_proof, make_item, node_sim, Conds, Item, Kind};
use crate::common::*;
use crate::gen;
use ant_networking::NetworkEvent;
use ant_protocol::storage::{try_serialize_record, RecordKind, Transaction};
use libp2p::kad::store::RecordStore;
use libp2p::kad::{Record, RecordKey};
use rand::{seq::SliceRandom, Rng};
use serde_json::json;
use std::collections::BTreeMap;

pub struct C04;

const KINDS: [Kind; 4] = [Kind::Chunk, Kind::Register, Kind::Scratchpad, Kind::Transaction];

fn store_image(sim: &mut crate::sim::Sim, keys: &[RecordKey]) -> BTreeMap<Vec<u8>, Vec<u8>> {
    let mut m = BTreeMap::new();
    for a in sim.all_addresses(0).keys() {
        let k = a.to_record_key();
        if let Some(r) = sim.get_local(0, &k) {
            m.insert(k.to_vec(), r.value);
        } else {
            m.insert(k.to_vec(), b"<listed-but-unreadable>".to_vec());
        }
    }
    for k in keys {
        if !m.contains_key(&k.to_vec()) {
            if let Some(r) = sim.get_local(0, k) {
                m.insert(k.to_vec(), r.value);
            }
        }
    }
    m
}

impl Check for C04 {
    fn id(&self) -> &'static str {
        "C04"
    }
    fn rule(&self) -> String {
        "each case: a real node (driver, store, Node validation, vault stub saying paid) pre-populated with 4-8 victim records of all kinds; then ~24 deliveries over the three node paths (client upload with a valid payment, unpaid update, replication) x four kinds, each presented under its correct key, under the key of another held record, under a random key, or under the key its data would have as another kind; \
         plus registers whose embedded address differs from the key, scratchpads naming another owner, transaction vectors mixing owners; and raw kad RecordStore::put of the same records, of oversized values (max_value_bytes and +-1), of 0-2 byte values, unknown kind tags and valid headers with garbage bodies. \
         Judged after everything settled: under a mismatched key the call returns Err and the complete store image (every held key, byte for byte) is unchanged; under the correct key nothing but that key may change; after a raw put the key is not readable before validation, oversized values get ValueTooLarge, unparseable ones produce no UnverifiedRecord event, others exactly one carrying the same bytes. \
         Non-trivial: every delivery with a mismatched key; distinct = (path, kind, key variant, case)."
            .into()
    }
    fn assumptions(&self) -> Vec<String> {
        vec![
            "key_of(content): chunk = hash of its bytes; register = hash(meta ‖ owner) of the signed base register; scratchpad / transaction = hash of the owner key".into(),
            "for a correctly keyed delivery acceptance itself is not judged here (C03/C07 do), only that nothing else changes".into(),
        ]
    }
    fn cases(&self, tier: Tier) -> u64 {
        tier.pick(576, 4_000)
    }
    fn min_nontrivial(&self, tier: Tier) -> u64 {
        tier.pick(2_400, 15_000)
    }
    fn shard_budget(&self, tier: Tier) -> std::time::Duration {
        tier.pick(std::time::Duration::from_secs(200), std::time::Duration::from_secs(1500))
    }
    fn required_counters(&self, _tier: Tier) -> Vec<&'static str> {
        vec!["path:client-paid", "path:unpaid-update", "path:replication", "raw-puts", "raw-put:oversized", "variant:victim-key"]
    }
    fn lane_cases(&self, tier: Tier) -> u64 {
        tier.pick(6, 48)
    }
    fn run_case(&self, cx: &mut Cx) {
        if cx.index >= LANE_BASE {
            return crate::realcases::c04_case(cx);
        }
        let root = scratch_dir("c04");
        let (mut sim, env) = node_sim(cx, &root, 0);
        sim.stub.as_ref().expect("stub").set_default(Some(1_000));
        let node = sim.nodes[0].node.clone().expect("node layer");
        // ---- victims
        let mut victims: Vec<Item> = vec![];
        for _ in 0..cx.rng.gen_range(4..=8) {
            let it = { let k = *KINDS.choose(&mut cx.rng).expect("nonempty"); make_item(&mut cx.rng, k) };
            let (n2, rec) = (node.clone(), it.plain_record.clone());
            if sim.run_op(async move { n2.store_replicated_in_record(rec).await }).is_some() {
                victims.push(it);
            }
        }
        let victim_keys: Vec<RecordKey> = victims.iter().map(|v| v.key.clone()).collect();
        // ---- deliveries
        for _ in 0..24 {
            let kind = *KINDS.choose(&mut cx.rng).expect("nonempty");
            // sometimes the content is a new version of a held mutable record (so that unpaid updates are admissible)
            let item = make_item(&mut cx.rng, kind);
            let path = cx.rng.gen_range(0..3);
            let (variant, presented_key): (&str, RecordKey) = match cx.rng.gen_range(0..5) {
                0 | 1 => ("correct-key", item.key.clone()),
                2 => ("victim-key", victim_keys.choose(&mut cx.rng).cloned().unwrap_or(item.key.clone())),
                3 => ("random-key", RecordKey::from(gen::bytes(&mut cx.rng, 32))),
                _ => {
                    // the key this content would have as another kind: e.g. a chunk's bytes hashed as if they were an owner key
                    let other = { let k = *KINDS.choose(&mut cx.rng).expect("nonempty"); make_item(&mut cx.rng, k) };
                    ("other-items-key", other.key)
                }
            };
            let mismatched = presented_key != item.key;
            let mut record = match path {
                0 => {
                    let proof = build_proof(&mut cx.rng, &env, item.content, 3, Conds::all(), sim.stub.as_ref().expect("stub"));
                    (item.paid_record)(&proof)
                }
                _ => item.plain_record.clone(),
            };
            record.key = presented_key.clone();
            let path_label = ["client-paid", "unpaid-update", "replication"][path];
            // for the unpaid path the target must exist to be admissible at all: present the content of a held mutable victim
            // under a foreign key in a share of the cases
            if path == 1 && cx.rng.gen_bool(0.6) {
                if let Some(v) = victims.iter().filter(|v| v.plain_record.value.get(1) == Some(&3) || v.plain_record.value.get(1) == Some(&5)).collect::<Vec<_>>().choose(&mut cx.rng) {
                    record = v.plain_record.clone();
                    if variant != "correct-key" {
                        record.key = presented_key.clone();
                    }
                    // (content is the held victim itself: key_of(content) = victim key)
                    let content_key = v.key.clone();
                    let before = store_image(&mut sim, &victim_keys);
                    let (n2, rec) = (node.clone(), record.clone());
                    let res = sim.run_op(async move { n2.validate_and_store_record(rec).await });
                    let after = store_image(&mut sim, &victim_keys);
                    cx.eval();
                    cx.count("path:unpaid-update");
                    cx.count(&format!("variant:{variant}"));
                    let mism = record.key != content_key;
                    if mism {
                        cx.nontrivial(&("unpaid-held", variant, cx.index, hex(record.key.as_ref())));
                        judge_mismatch(cx, "unpaid-update-of-held-record", &format!("{:?}", res), res.as_ref().map(|r| r.is_ok()).unwrap_or(false), &before, &after, variant);
                    }
                    continue;
                }
            }
            let before = store_image(&mut sim, &victim_keys);
            let (n2, rec) = (node.clone(), record.clone());
            let res = if path == 2 { sim.run_op(async move { n2.store_replicated_in_record(rec).await }) } else { sim.run_op(async move { n2.validate_and_store_record(rec).await }) };
            let mut probe = victim_keys.clone();
            probe.push(presented_key.clone());
            probe.push(item.key.clone());
            let after = store_image(&mut sim, &probe);
            cx.eval();
            cx.count(&format!("path:{path_label}"));
            cx.count(&format!("variant:{variant}"));
            let Some(res) = res else {
                cx.inconclusive("delivery did not complete");
                continue;
            };
            if mismatched {
                cx.nontrivial(&(path_label, format!("{kind:?}"), variant, cx.index, hex(presented_key.as_ref())));
                judge_mismatch(cx, &format!("{path_label}:{kind:?}"), &format!("{res:?}"), res.is_ok(), &before, &after, variant);
            } else {
                // correct key: nothing but that key may change
                for (k, v) in &before {
                    if *k != item.key.to_vec() && after.get(k) != Some(v) {
                        cx.violation("correctly-keyed-delivery-changed-other-record", format!("{path_label} of a {kind:?} under its correct key changed another held record"), json!({"path": path_label}));
                    }
                }
                for k in after.keys() {
                    if !before.contains_key(k) && *k != item.key.to_vec() {
                        cx.violation("correctly-keyed-delivery-created-other-key", format!("{path_label} of a {kind:?} created a record under a key that is not derived from its content"), json!({"path": path_label}));
                    }
                }
            }
        }
        // ---- a chunk and its same-length sibling: the genuine chunk is delivered (and parsed) first, then bytes differing in
        // one place - hence of another address - are presented under the genuine chunk's key, several times, over both paths
        for round in 0..2 {
            let g = make_item(&mut cx.rng, Kind::Chunk);
            let (n2, rec) = (node.clone(), g.plain_record.clone());
            let _ = sim.run_op(async move { n2.store_replicated_in_record(rec).await });
            for attempt in 0..3 {
                let mut forged = g.plain_record.clone();
                let l = forged.value.len();
                if l < 8 {
                    continue;
                }
                let i = cx.rng.gen_range(l / 2..l);
                forged.value[i] ^= 1 << cx.rng.gen_range(0..8);
                let path = (round + attempt) % 2;
                if path == 0 {
                    // the same bytes as a paid upload: a valid proof for the genuine address
                    let Ok(c) = ant_protocol::storage::try_deserialize_record::<ant_protocol::storage::Chunk>(&forged) else { continue };
                    let proof = build_proof(&mut cx.rng, &env, g.content, 3, Conds::all(), sim.stub.as_ref().expect("stub"));
                    let Ok(v) = ant_protocol::storage::try_serialize_record(&(proof, c), RecordKind::ChunkWithPayment) else { continue };
                    forged.value = v.to_vec();
                }
                // the genuine chunk is read once more right before (a replication round, a client read): parse + drop
                let _ = sim.get_local(0, &g.key);
                let _ = ant_protocol::storage::try_deserialize_record::<ant_protocol::storage::Chunk>(&g.plain_record);
                let mut probe = victim_keys.clone();
                probe.push(g.key.clone());
                let before = store_image(&mut sim, &probe);
                let (n2, rec) = (node.clone(), forged.clone());
                let res = if path == 1 { sim.run_op(async move { n2.store_replicated_in_record(rec).await }) } else { sim.run_op(async move { n2.validate_and_store_record(rec).await }) };
                let after = store_image(&mut sim, &probe);
                cx.eval();
                cx.count("variant:same-length-sibling-under-the-genuine-key");
                if let Some(res) = res {
                    judge_mismatch(cx, &format!("{}:Chunk", ["client-paid", "replication"][path]), &format!("{res:?}"), res.is_ok(), &before, &after, "same-length-sibling-under-the-genuine-key");
                }
            }
        }
        // ---- transaction vectors mixing owners (replication path)
        {
            let (o1, o2) = (gen::bls_sk(&mut cx.rng), gen::bls_sk(&mut cx.rng));
            let txs: Vec<Transaction> = vec![gen::transaction(&mut cx.rng, &o1), gen::transaction(&mut cx.rng, &o2), gen::transaction(&mut cx.rng, &o1)];
            let key = gen::tx_key(&o1.public_key());
            let rec = gen::txs_record(key.clone(), &txs);
            let before = store_image(&mut sim, &victim_keys);
            let n2 = node.clone();
            let _ = sim.run_op(async move { n2.store_replicated_in_record(rec).await });
            cx.eval();
            cx.count("mixed-owner-transaction-vectors");
            if let Some(r) = sim.get_local(0, &key) {
                let stored: Vec<Transaction> = ant_protocol::storage::try_deserialize_record(&r).unwrap_or_default();
                if stored.iter().any(|t| t.owner != o1.public_key()) {
                    cx.violation("foreign-owner-transaction-stored", "a transaction of another owner was stored under this owner's key".to_string(), json!({}));
                }
            }
            let k2 = gen::tx_key(&o2.public_key());
            if sim.get_local(0, &k2).is_some() && !before.contains_key(&k2.to_vec()) {
                cx.violation("correctly-keyed-delivery-created-other-key", "a transaction vector delivered under one owner's key created a record under another owner's key".to_string(), json!({}));
            }
        }
        // ---- raw kad puts: never readable before validation; oversized / unparseable refused
        sim.auto_events = false;
        let max = ant_networking::MAX_PACKET_SIZE;
        for _ in 0..10 {
            let item = { let k = *KINDS.choose(&mut cx.rng).expect("nonempty"); make_item(&mut cx.rng, k) };
            let (label, rec): (&str, Record) = match cx.rng.gen_range(0..9) {
                0 => ("valid", item.plain_record.clone()),
                1 | 2 => {
                    let n = *[max - 1, max, max + 1].choose(&mut cx.rng).expect("nonempty");
                    // every kind tag, including the ones that carry a payment
                    let kind = *[RecordKind::Chunk, RecordKind::ChunkWithPayment, RecordKind::Register, RecordKind::RegisterWithPayment, RecordKind::Scratchpad, RecordKind::ScratchpadWithPayment, RecordKind::Transaction, RecordKind::TransactionWithPayment].choose(&mut cx.rng).expect("nonempty");
                    cx.count(&format!("raw-put:oversized:{kind:?}"));
                    let mut v = crate::c01::header(kind);
                    v.resize(n, 7u8);
                    ("oversized", gen::record(RecordKey::from(gen::bytes(&mut cx.rng, 32)), v))
                }
                3 => ("tiny", gen::record(item.key.clone(), gen::bytes_r(&mut cx.rng, 0, 2))),
                4 => ("unknown-kind-tag", gen::record(item.key.clone(), vec![0x91, cx.rng.gen_range(8..0x7f), 0xc4, 1, 0])),
                5 => {
                    let mut v = crate::c01::header(*[RecordKind::Chunk, RecordKind::Register, RecordKind::Scratchpad, RecordKind::Transaction].choose(&mut cx.rng).expect("nonempty"));
                    v.extend(gen::bytes_r(&mut cx.rng, 1, 60));
                    ("garbage-body", gen::record(item.key.clone(), v))
                }
                6 => {
                    let proof = build_proof(&mut cx.rng, &env, item.content, 3, Conds::all(), sim.stub.as_ref().expect("stub"));
                    ("valid-with-payment", (item.paid_record)(&proof))
                }
                7 => ("valid", item.plain_record.clone()),
                _ => {
                    let mut r = item.plain_record.clone();
                    r.key = RecordKey::from(gen::bytes(&mut cx.rng, 32));
                    ("valid-under-random-key", r)
                }
            };
            let key = rec.key.clone();
            let was_held = sim.has_key(0, &key);
            let len = rec.value.len();
            let bytes = rec.value.clone();
            sim.nodes[0].kept_events.clear();
            sim.nodes[0].event_q.clear();
            let res = {
                let _g = sim.rt.enter();
                sim.nodes[0].drv.verif_store_mut().expect("store").put(rec)
            };
            let readable_now = sim.get_local(0, &key).is_some();
            sim.yield_rounds(8);
            sim.collect();
            let events: Vec<Vec<u8>> = sim.nodes[0].event_q.drain(..).filter_map(|e| if let NetworkEvent::UnverifiedRecord(r) = e { Some(r.value) } else { None }).collect();
            cx.eval();
            cx.count("raw-puts");
            cx.count(&format!("raw-put:{label}"));
            cx.nontrivial(&("raw", label, cx.index, hex(key.as_ref())));
            let w = json!({"label": label, "len": len, "result": format!("{res:?}"), "events": events.len()});
            if readable_now && !was_held {
                cx.violation("unvalidated-record-readable", format!("a {label} record handed to the kad store is readable before validation"), w.clone());
            }
            if len >= max {
                if !matches!(res, Err(libp2p::kad::store::Error::ValueTooLarge)) || !events.is_empty() {
                    cx.violation("oversized-record-not-refused", format!("a record of {len} bytes (limit {max}) got {res:?} and {} validation events", events.len()), w.clone());
                }
            } else if label == "tiny" || label == "unknown-kind-tag" {
                if !events.is_empty() {
                    cx.violation("unparseable-record-forwarded", format!("a {label} record was forwarded for validation"), w.clone());
                }
            } else if (label == "valid" || label == "valid-with-payment" || label == "valid-under-random-key" || label == "garbage-body" || (label == "oversized" && len < max)) && !was_held && (events.len() != 1 || events[0] != bytes) {
                cx.violation("valid-record-not-forwarded-once", format!("a {label} record produced {} validation events (expected exactly one with the same bytes)", events.len()), w.clone());
            }
        }
        // ---- a raw kad put of OTHER bytes under the key of a held chunk that has left the read cache: whatever the
        //      store answers, readers keep getting the validated chunk
        {
            // shrink the cache to one entry and push the victims out of it with a fresh record
            if let Some(st) = sim.nodes[0].drv.verif_store_mut() {
                let snap = st.verif_snapshot();
                st.verif_set_limits(snap.max_records, 1);
            }
            let filler = make_item(&mut cx.rng, Kind::Chunk);
            {
                let _g = sim.rt.enter();
                let _ = sim.nodes[0].drv.verif_handle_local_cmd(ant_networking::verif::LocalSwarmCmd::PutLocalRecord { record: filler.plain_record.clone() });
            }
            let mut d = || true;
            sim.settle(&mut d);
            for v in victims.iter().filter(|v| v.plain_record.value.get(1) == Some(&1)) {
                let Some(held) = sim.get_local(0, &v.key) else { continue };
                // reading put it back into the one-entry cache: push it out again
                let filler2 = make_item(&mut cx.rng, Kind::Chunk);
                {
                    let _g = sim.rt.enter();
                    let _ = sim.nodes[0].drv.verif_handle_local_cmd(ant_networking::verif::LocalSwarmCmd::PutLocalRecord { record: filler2.plain_record.clone() });
                }
                sim.settle(&mut d);
                let forged = { let len = cx.rng.gen_range(1..200); gen::chunk_record(&gen::chunk(&mut cx.rng, len)).value };
                let res = {
                    let _g = sim.rt.enter();
                    sim.nodes[0].drv.verif_store_mut().expect("store").put(gen::record(v.key.clone(), forged.clone()))
                };
                cx.eval();
                cx.count("raw-put:other-bytes-under-a-held-chunk-key");
                let now = sim.get_local(0, &v.key);
                if now.as_ref().map(|r| &r.value) != Some(&held.value) {
                    cx.violation(
                        "unvalidated-bytes-served-under-a-held-chunk-key",
                        format!("after a raw put ({res:?}) of {} other bytes under the key of a held chunk, get returns {:?} bytes instead of the {} validated ones", forged.len(), now.map(|r| r.value.len()), held.value.len()),
                        json!({"result": format!("{res:?}")}),
                    );
                }
                sim.nodes[0].event_q.clear();
            }
        }
        if cx.index < 2 {
            cx.sample(json!({"victims": victims.len(), "deliveries": 24, "raw_puts": 10, "schedule_head": sim.schedule.iter().take(10).cloned().collect::<Vec<_>>()}));
        }
        drop(sim);
        let _ = std::fs::remove_dir_all(&root);
    }
}

fn judge_mismatch(cx: &mut Cx, what: &str, res_txt: &str, ok: bool, before: &BTreeMap<Vec<u8>, Vec<u8>>, after: &BTreeMap<Vec<u8>, Vec<u8>>, variant: &str) {
    let w = json!({"delivery": what, "key_variant": variant, "result": res_txt.chars().take(160).collect::<String>()});
    if ok {
        cx.violation(format!("mismatched-key-accepted:{}", what.split(':').next().unwrap_or(what)), format!("{what} presented under a key that its content does not determine ({variant}) returned Ok"), w.clone());
    }
    if before != after {
        let changed: Vec<String> = after.iter().filter(|(k, v)| before.get(*k) != Some(*v)).map(|(k, _)| short_hex(k)).collect();
        let gone: Vec<String> = before.keys().filter(|k| !after.contains_key(*k)).map(|k| short_hex(k)).collect();
        cx.violation(
            format!("mismatched-key-changed-store:{}", what.split(':').next().unwrap_or(what)),
            format!("{what} presented under a mismatched key ({variant}) changed the store: new/changed {changed:?}, removed {gone:?}"),
            w,
        );
    }
}
