//! C18 — bootstrap cache stays bounded, well-formed and atomically persisted.

use crate::common::*;
use ant_bootstrap::{BootstrapAddr, BootstrapAddresses, BootstrapCacheConfig, BootstrapCacheStore};
use libp2p::{multiaddr::Protocol, Multiaddr, PeerId};
use rand::{rngs::StdRng, seq::SliceRandom, Rng, SeedableRng};
use serde_json::{json, Value};
use std::collections::{BTreeMap, BTreeSet};
use std::path::{Path, PathBuf};
use std::time::{Duration, SystemTime};

pub struct C18;

fn peer(rng: &mut impl Rng) -> PeerId {
    PeerId::from(crate::c13::keypair(rng).public())
}

/// Is this exactly ip4 + (udp[+quic-v1] | tcp[+ws]) + p2p ?  (written from the statement)
fn well_formed(a: &Multiaddr) -> bool {
    let p: Vec<Protocol> = a.iter().collect();
    if p.len() < 3 || !matches!(p[0], Protocol::Ip4(_)) || !matches!(p[p.len() - 1], Protocol::P2p(_)) {
        return false;
    }
    match (&p[1], p.len()) {
        (Protocol::Udp(_), 3) | (Protocol::Tcp(_), 3) => true,
        (Protocol::Udp(_), 4) => matches!(p[2], Protocol::QuicV1),
        (Protocol::Tcp(_), 4) => matches!(p[2], Protocol::Ws(_)),
        _ => false,
    }
}

fn random_addr(rng: &mut impl Rng, peers: &[PeerId]) -> (Multiaddr, &'static str) {
    let p = *peers.choose(rng).expect("peers");
    let ip = std::net::Ipv4Addr::new(rng.gen_range(1..224), rng.gen(), rng.gen(), rng.gen_range(1..255));
    let port: u16 = rng.gen_range(1..5) * 1000; // few ports so the same address recurs
    let ip = if rng.gen_bool(0.6) { std::net::Ipv4Addr::new(10, 0, 0, rng.gen_range(1..6)) } else { ip };
    let base = Multiaddr::empty().with(Protocol::Ip4(ip));
    match rng.gen_range(0..12) {
        0 | 1 | 2 => (base.with(Protocol::Udp(port)).with(Protocol::QuicV1).with(Protocol::P2p(p)), "udp-quic"),
        3 => (base.with(Protocol::Tcp(port)).with(Protocol::P2p(p)), "tcp"),
        4 => (base.with(Protocol::Tcp(port)).with(Protocol::Ws("/".into())).with(Protocol::P2p(p)), "tcp-ws"),
        5 => (base.with(Protocol::Udp(port)).with(Protocol::P2p(p)), "udp"),
        6 => (base.with(Protocol::Udp(port)).with(Protocol::QuicV1), "no-peer-id"),
        7 => {
            let relay = *peers.choose(rng).expect("peers");
            (base.with(Protocol::Udp(port)).with(Protocol::QuicV1).with(Protocol::P2p(relay)).with(Protocol::P2pCircuit).with(Protocol::P2p(p)), "relayed")
        }
        8 => (Multiaddr::empty().with(Protocol::P2p(p)).with(Protocol::Ip4(ip)).with(Protocol::Udp(port)).with(Protocol::QuicV1), "peer-id-first"),
        9 => (base.with(Protocol::Tcp(port)).with(Protocol::Udp(port)).with(Protocol::QuicV1).with(Protocol::P2p(p)), "tcp-and-udp"),
        10 => (Multiaddr::empty().with(Protocol::Ip6(std::net::Ipv6Addr::LOCALHOST)).with(Protocol::Udp(port)).with(Protocol::QuicV1).with(Protocol::P2p(p)), "ip6"),
        _ => (Multiaddr::empty().with(Protocol::Dns("example.org".into())).with(Protocol::Tcp(port)).with(Protocol::P2p(p)), "dns"),
    }
}

fn peer_of(a: &Multiaddr) -> Option<PeerId> {
    a.iter().filter_map(|p| if let Protocol::P2p(id) = p { Some(id) } else { None }).last()
}

/// (peer, addr) -> (success, failure, last_seen secs) read from the raw JSON file, independent of CacheData
fn read_file_entries(path: &Path) -> Result<BTreeMap<(String, String), (u64, u64, u64)>, String> {
    let txt = std::fs::read_to_string(path).map_err(|e| format!("read: {e}"))?;
    let v: Value = serde_json::from_str(&txt).map_err(|e| format!("json: {e}"))?;
    let mut out = BTreeMap::new();
    let peers = v.get("peers").and_then(|p| p.as_object()).ok_or("no peers object")?;
    for (pid, addrs) in peers {
        for a in addrs.as_array().ok_or("addrs not array")? {
            let addr = a.get("addr").and_then(|x| x.as_str()).ok_or("addr")?.to_string();
            let s = a.get("success_count").and_then(|x| x.as_u64()).ok_or("success_count")?;
            let f = a.get("failure_count").and_then(|x| x.as_u64()).ok_or("failure_count")?;
            let ls = a.get("last_seen").and_then(|x| x.get("secs_since_epoch")).and_then(|x| x.as_u64()).ok_or("last_seen")?;
            out.insert((pid.clone(), addr), (s, f, ls));
        }
    }
    Ok(out)
}

fn now_secs() -> u64 {
    SystemTime::now().duration_since(SystemTime::UNIX_EPOCH).expect("epoch").as_secs()
}

struct Hist<'a, 'b> {
    cx: &'a mut Cx<'b>,
    log: Vec<Value>,
}

impl Hist<'_, '_> {
    fn op(&mut self, v: Value) {
        self.cx.eval();
        self.log.push(v);
    }
    fn viol(&mut self, sig: &str, detail: String) {
        let n = self.log.len();
        let tail = self.log[n.saturating_sub(20)..].to_vec();
        self.cx.violation(sig, detail, json!({"history_tail": tail}));
    }
}

fn check_bounds_and_form(h: &mut Hist, store: &BootstrapCacheStore, cfg: &BootstrapCacheConfig, after: &str, check_form: bool) {
    let mut per_peer: BTreeMap<String, usize> = BTreeMap::new();
    for a in store.get_all_addrs() {
        if check_form && !well_formed(&a.addr) {
            h.viol("malformed-address-in-cache", format!("after {after}: cache holds {} which is not ip4+(udp[/quic]|tcp[/ws])+p2p", a.addr));
        }
        *per_peer.entry(peer_of(&a.addr).map(|p| p.to_string()).unwrap_or_default()).or_default() += 1;
    }
    if store.peer_count() > cfg.max_peers {
        h.viol("too-many-peers", format!("after {after}: {} peers > max_peers {}", store.peer_count(), cfg.max_peers));
    }
    for (p, n) in per_peer {
        if n > cfg.max_addrs_per_peer {
            h.viol("too-many-addrs-per-peer", format!("after {after}: peer {p} has {n} addrs > {}", cfg.max_addrs_per_peer));
        }
    }
}

fn history_case(cx: &mut Cx) {
    let dir = scratch_dir("c18");
    let path = dir.join("cache.json");
    let max_peers = cx.rng.gen_range(1..=8);
    let max_addrs = cx.rng.gen_range(1..=4);
    let cfg = BootstrapCacheConfig::empty()
        .with_cache_path(&path)
        .with_max_peers(max_peers)
        .with_addrs_per_peer(max_addrs)
        .with_addr_expiry_duration(Duration::from_secs(*[3600u64, 86_400, 60].choose(&mut cx.rng).expect("nonempty")));
    let npeers = cx.rng.gen_range(2..=12);
    let peers: Vec<PeerId> = (0..npeers).map(|_| peer(&mut cx.rng)).collect();
    let mut stores: Vec<BootstrapCacheStore> = (0..2).map(|_| BootstrapCacheStore::new(cfg.clone()).expect("store")).collect();
    let mut h = Hist { cx, log: vec![] };
    let mut added: Vec<Multiaddr> = vec![];
    let steps = h.cx.rng.gen_range(20..=80);
    let mut shapes = BTreeSet::new();
    let (mut flushed, mut overflowed_bounds) = (false, false);
    for _ in 0..steps {
        let si = h.cx.rng.gen_range(0..2);
        match h.cx.rng.gen_range(0..100) {
            0..=49 => {
                let (a, shape) = random_addr(&mut h.cx.rng, &peers);
                shapes.insert(shape);
                h.op(json!({"store": si, "add_addr": a.to_string(), "shape": shape}));
                h.cx.count(&format!("shape:{shape}"));
                if catch(|| stores[si].add_addr(a.clone())).is_err() {
                    h.viol("panic", format!("add_addr({a}) panicked: {}", crate::last_panic()));
                    continue;
                }
                added.push(a);
                if stores[si].peer_count() == max_peers {
                    overflowed_bounds = true;
                }
                check_bounds_and_form(&mut h, &stores[si], &cfg, "add_addr", true);
            }
            50..=64 => {
                if let Some(a) = added.choose(&mut h.cx.rng).cloned() {
                    // status updates use the stored (normal) form when there is one
                    let target = stores[si].get_all_addrs().map(|b| b.addr.clone()).find(|x| peer_of(x) == peer_of(&a)).unwrap_or(a);
                    let ok = h.cx.rng.gen_bool(0.4);
                    let times = h.cx.rng.gen_range(1..4);
                    h.op(json!({"store": si, "update_addr_status": target.to_string(), "success": ok, "times": times}));
                    for _ in 0..times {
                        stores[si].update_addr_status(&target, ok);
                    }
                }
            }
            65..=69 => {
                let first = stores[si].get_all_addrs().map(|b| b.addr.clone()).next();
                if let Some(a) = first {
                    h.op(json!({"store": si, "remove_addr": a.to_string()}));
                    stores[si].remove_addr(&a);
                }
            }
            70..=79 => {
                h.op(json!({"store": si, "perform_cleanup": true}));
                stores[si].perform_cleanup();
                check_bounds_and_form(&mut h, &stores[si], &cfg, "perform_cleanup", true);
                let unreliable: Vec<String> = stores[si].get_all_addrs().filter(|a| a.failure_count > a.success_count).map(|a| a.addr.to_string()).collect();
                if !unreliable.is_empty() {
                    h.viol("unreliable-address-after-cleanup", format!("after perform_cleanup: {unreliable:?} have more failures than successes"));
                }
            }
            _ => {
                // sync with the file and flush
                let with_cleanup = h.cx.rng.gen_bool(0.5);
                let mem_before: BTreeSet<(String, String)> = stores[si]
                    .get_all_addrs()
                    .filter_map(|a| peer_of(&a.addr).map(|p| (p.to_string(), a.addr.to_string())))
                    .collect();
                // what the file contributes: its content as the real loader (which cleans) sees it
                let file_before: BTreeSet<(String, String)> = match BootstrapCacheStore::load_cache_data(&cfg) {
                    Ok(d) => d.peers.iter().flat_map(|(p, a)| a.0.iter().map(move |x| (p.to_string(), x.addr.to_string()))).collect(),
                    Err(_) => BTreeSet::new(),
                };
                // raw timestamps of the file's entries: one that is about to expire may legitimately be gone when the
                // flush reads the file again a moment later (wall-clock time passes between the two loads)
                let raw_before = read_file_entries(&path).unwrap_or_default();
                h.op(json!({"store": si, "sync_and_flush_to_disk": with_cleanup, "mem": mem_before.len(), "file": file_before.len()}));
                match catch(|| stores[si].sync_and_flush_to_disk(with_cleanup)) {
                    Err(p) => {
                        h.viol("panic", format!("sync_and_flush_to_disk panicked: {p} {}", crate::last_panic()));
                        continue;
                    }
                    Ok(Err(e)) => {
                        h.viol("flush-failed", format!("sync_and_flush_to_disk returned {e:?}"));
                        continue;
                    }
                    Ok(Ok(())) => {}
                }
                flushed = true;
                let saved = match read_file_entries(&path) {
                    Ok(s) => s,
                    Err(e) => {
                        h.viol("saved-file-unreadable", format!("file written by sync_and_flush_to_disk is not the expected JSON: {e}"));
                        continue;
                    }
                };
                if !with_cleanup {
                    // merge never loses anything known to either side
                    for k in mem_before.union(&file_before) {
                        let near_expiry = !mem_before.contains(k) && raw_before.get(k).map(|(_, _, ls)| now_secs().saturating_sub(*ls) + 5 >= cfg.addr_expiry_duration.as_secs()).unwrap_or(false);
                        if near_expiry {
                            h.cx.count("not-judged:file-entry-about-to-expire");
                            continue;
                        }
                        // a file that already exceeds the limits (written without clean-up) is cut down by the loader, and
                        // which of several equally old peers / addresses it drops is not determined: two loads may differ
                        let raw_peers: BTreeSet<&String> = raw_before.keys().map(|x| &x.0).collect();
                        let raw_over_limits = raw_peers.len() > max_peers || raw_peers.iter().any(|p| raw_before.keys().filter(|x| &x.0 == *p).count() > max_addrs);
                        if !mem_before.contains(k) && raw_over_limits {
                            h.cx.count("not-judged:file-over-limits-is-cut-by-the-loader");
                            continue;
                        }
                        if !saved.contains_key(k) {
                            h.viol("merge-lost-entry", format!("{k:?} was known before the merge (memory: {}, file: {}) but is missing from the merged file", mem_before.contains(k), file_before.contains(k)));
                        }
                    }
                } else {
                    let peers_in_file: BTreeSet<&String> = saved.keys().map(|k| &k.0).collect();
                    if peers_in_file.len() > max_peers {
                        h.viol("too-many-peers", format!("file written with clean-up holds {} peers > {max_peers}", peers_in_file.len()));
                    }
                }
                for (k, (s, f, _)) in &saved {
                    if with_cleanup && f > s {
                        h.viol("unreliable-address-after-cleanup", format!("{k:?} saved with clean-up although failures {f} > successes {s}"));
                    }
                    if !k.1.parse::<Multiaddr>().map(|a| well_formed(&a)).unwrap_or(false) {
                        h.viol("malformed-address-in-cache", format!("file holds {k:?} which is not ip4+(udp[/quic]|tcp[/ws])+p2p"));
                    }
                }
                // save -> load: same peers and addresses apart from what clean-up removes
                match catch(|| BootstrapCacheStore::load_cache_data(&cfg)) {
                    Err(p) => h.viol("panic", format!("load_cache_data panicked: {p} {}", crate::last_panic())),
                    Ok(Err(e)) => h.viol("saved-file-does-not-load", format!("file written by sync_and_flush_to_disk fails to load: {e:?}")),
                    Ok(Ok(loaded)) => {
                        let lset: BTreeMap<(String, String), (u64, u64)> = loaded
                            .peers
                            .iter()
                            .flat_map(|(p, a)| a.0.iter().map(move |x| ((p.to_string(), x.addr.to_string()), (x.success_count as u64, x.failure_count as u64))))
                            .collect();
                        for (k, (s, f)) in &lset {
                            match saved.get(k) {
                                None => h.viol("load-invented-entry", format!("{k:?} loaded but was not saved")),
                                Some((ss, sf, _)) if ss != s || sf != f => h.viol("load-changed-entry", format!("{k:?} saved with ({ss},{sf}) loaded as ({s},{f})")),
                                _ => {}
                            }
                        }
                        let loaded_peers: BTreeSet<&String> = lset.keys().map(|k| &k.0).collect();
                        for (k, (s, f, ls)) in &saved {
                            if lset.contains_key(k) {
                                continue;
                            }
                            let age = now_secs().saturating_sub(*ls);
                            let expired_or_unreliable = f > s || age + 2 >= cfg.addr_expiry_duration.as_secs() || *ls > now_secs();
                            let peer_truncated = lset.keys().filter(|x| x.0 == k.0).count() >= max_addrs;
                            let peers_truncated = !loaded_peers.contains(&k.0) && loaded_peers.len() >= max_peers;
                            if !(expired_or_unreliable || peer_truncated || peers_truncated) {
                                h.viol("load-lost-entry", format!("{k:?} (s={s}, f={f}, age={age}s) was saved, is not removable by clean-up, yet is missing after load"));
                            }
                        }
                        if loaded.peers.len() > max_peers || loaded.peers.values().any(|a| a.0.len() > max_addrs) {
                            h.viol("too-many-peers", format!("load_cache_data returned {} peers / more than {max_addrs} addrs", loaded.peers.len()));
                        }
                    }
                }
            }
        }
    }
    if flushed && shapes.len() >= 5 && overflowed_bounds {
        let hh = h64(&serde_json::to_string(&h.log).unwrap_or_default());
        h.cx.nontrivial(&hh);
    }
    if h.cx.index < 2 {
        let head: Vec<Value> = h.log.iter().take(8).cloned().collect();
        h.cx.sample(json!({"kind": "history", "max_peers": max_peers, "max_addrs_per_peer": max_addrs, "ops": h.log.len(), "first_ops": head}));
    }
    drop(h);
    cache_data_case(cx, &dir);
    corrupt_file_case(cx, &dir);
    peers_args_case(cx, &dir);
    let _ = std::fs::remove_dir_all(&dir);
}

/// A store that has been running for longer than the expiry: what it learns now and saves must load back (the age of
/// the store, or of the file, says nothing about the age of the addresses in it).
fn long_running_store_case(cx: &mut Cx) {
    let dir = scratch_dir("c18l");
    let path = dir.join("cache.json");
    let expiry = 2u64;
    let cfg = BootstrapCacheConfig::empty().with_cache_path(&path).with_max_peers(20).with_addrs_per_peer(4).with_addr_expiry_duration(Duration::from_secs(expiry));
    let mut store = match BootstrapCacheStore::new(cfg.clone()) {
        Ok(s) => s,
        Err(e) => {
            cx.inconclusive(format!("store: {e:?}"));
            return;
        }
    };
    // what is on disk when the store first saves: nothing, a corrupt file, or an old cache whose entries have expired
    let prior = cx.rng.gen_range(0..3);
    let peers: Vec<PeerId> = (0..6).map(|_| peer(&mut cx.rng)).collect();
    if prior == 2 {
        let mut old = BootstrapCacheStore::new(cfg.clone()).expect("store");
        for _ in 0..3 {
            let (a, _) = random_addr(&mut cx.rng, &peers);
            old.add_addr(a);
        }
        let _ = old.sync_and_flush_to_disk(false);
    } else if prior == 1 {
        let _ = std::fs::write(&path, b"{ not a cache file");
    }
    std::thread::sleep(Duration::from_millis(expiry * 1000 + 400));
    let fresh_peers: Vec<PeerId> = (0..cx.rng.gen_range(1..=4)).map(|_| peer(&mut cx.rng)).collect();
    let mut fresh: Vec<Multiaddr> = vec![];
    for p in &fresh_peers {
        let a: Multiaddr = format!("/ip4/10.{}.{}.{}/udp/{}/quic-v1/p2p/{p}", cx.rng.gen_range(0..255), cx.rng.gen_range(0..255), cx.rng.gen_range(1..255), cx.rng.gen_range(1024..65000)).parse().expect("addr");
        store.add_addr(a.clone());
        fresh.push(a);
    }
    let with_cleanup = cx.rng.gen_bool(0.5);
    let t_save = std::time::Instant::now();
    let saved = catch(|| store.sync_and_flush_to_disk(with_cleanup));
    cx.eval();
    cx.count("long-running-store-saves");
    let prior_txt = ["nothing", "corrupt file", "old cache, all expired"][prior];
    let w = json!({"expiry_s": expiry, "on_disk_before_the_save": prior_txt, "fresh_addresses": fresh.iter().map(|a| a.to_string()).collect::<Vec<_>>(), "cleanup_on_save": with_cleanup});
    match saved {
        Err(p) => cx.violation("panic", format!("sync_and_flush_to_disk panicked: {p} {}", crate::last_panic()), w.clone()),
        Ok(Err(e)) => cx.violation("save-failed", format!("{e:?}"), w.clone()),
        Ok(Ok(())) => match catch(|| BootstrapCacheStore::load_cache_data(&cfg)) {
            Err(p) => cx.violation("panic", format!("load_cache_data panicked: {p} {}", crate::last_panic()), w.clone()),
            Ok(Err(e)) => cx.violation("saved-file-does-not-load", format!("{e:?}"), w.clone()),
            Ok(Ok(data)) => {
                // judged only if the whole save + load stayed well inside the expiry of the fresh addresses
                if t_save.elapsed() < Duration::from_millis(900) {
                    let loaded: BTreeSet<String> = data.peers.values().flat_map(|b| b.0.iter().map(|x| x.addr.to_string())).collect();
                    for a in &fresh {
                        if !loaded.contains(&a.to_string()) {
                            cx.violation("fresh-address-lost-by-save-and-load", format!("{a} was added {}ms before the save by a store older than the expiry; it is not in what loads back ({} addresses)", t_save.elapsed().as_millis(), loaded.len()), w.clone());
                        }
                    }
                    cx.nontrivial(&("long-running", cx.index, prior, with_cleanup));
                } else {
                    cx.count("long-running-store-saves-too-slow-to-judge");
                }
            }
        },
    }
    let _ = std::fs::remove_dir_all(&dir);
}

/// CacheData-level: clean-up (expiry, reliability, limits) and merge, with arbitrary timestamps.
fn cache_data_case(cx: &mut Cx, dir: &Path) {
    let path = dir.join("seed.json");
    // a valid empty cache file gives us a CacheData value to populate (the type itself is not nameable)
    let empty = json!({"peers": {}, "last_updated": {"secs_since_epoch": now_secs(), "nanos_since_epoch": 0}, "network_version": "x"});
    std::fs::write(&path, empty.to_string()).expect("write seed");
    let max_peers = cx.rng.gen_range(1..=6);
    let max_addrs = cx.rng.gen_range(1..=3);
    let expiry = *[10u64, 3600, 86_400].choose(&mut cx.rng).expect("nonempty");
    let cfg = BootstrapCacheConfig::empty().with_cache_path(&path).with_max_peers(max_peers).with_addrs_per_peer(max_addrs).with_addr_expiry_duration(Duration::from_secs(expiry));
    let Ok(base) = BootstrapCacheStore::load_cache_data(&cfg) else {
        cx.inconclusive("cannot load an empty valid cache file (sanity control)");
        return;
    };
    let npeers = cx.rng.gen_range(1..=9);
    let peers: Vec<PeerId> = (0..npeers).map(|_| peer(&mut cx.rng)).collect();
    let mk = |rng: &mut StdRng| {
        let mut d = base.clone();
        // one data set in four was stamped in bulk: every address carries the same time, to the nanosecond (a cache file
        // written by a tool, or merged data): peers that tie on their last-seen time are still peers to be counted
        let bulk: Option<SystemTime> = if rng.gen_bool(0.25) { Some(SystemTime::now() - Duration::from_millis(rng.gen_range(0..(expiry * 400)))) } else { None };
        for p in &peers {
            if rng.gen_bool(0.3) {
                continue;
            }
            let n = rng.gen_range(1..=5);
            let mut v = vec![];
            for i in 0..n {
                let a = Multiaddr::empty().with(Protocol::Ip4(std::net::Ipv4Addr::new(10, 0, 0, i as u8 + 1))).with(Protocol::Udp(1000 + rng.gen_range(0..3))).with(Protocol::QuicV1).with(Protocol::P2p(*p));
                if v.iter().any(|b: &BootstrapAddr| b.addr == a) {
                    continue;
                }
                let mut b = BootstrapAddr::new(a);
                b.success_count = rng.gen_range(0..5);
                b.failure_count = rng.gen_range(0..5);
                if rng.gen_bool(0.05) {
                    b.success_count = u32::MAX - rng.gen_range(0..2);
                    b.failure_count = u32::MAX - rng.gen_range(0..3);
                }
                let age = match rng.gen_range(0..6) {
                    0 => expiry + rng.gen_range(2..100),
                    1 => expiry.saturating_sub(rng.gen_range(3..8)),
                    2 => 0,
                    _ => rng.gen_range(0..expiry.max(2) - 1) / 2,
                };
                b.last_seen = if rng.gen_bool(0.04) { SystemTime::now() + Duration::from_secs(rng.gen_range(5..5000)) } else { SystemTime::now() - Duration::from_secs(age) };
                if rng.gen_bool(0.12) {
                    // expired by a fraction of a second only
                    b.last_seen = SystemTime::now() - Duration::from_secs(expiry) - Duration::from_millis(rng.gen_range(150..850));
                }
                if let Some(t) = bulk {
                    b.last_seen = t;
                }
                v.push(b);
            }
            if !v.is_empty() {
                d.peers.insert(*p, BootstrapAddresses(v));
            }
        }
        d
    };
    let mut rng2 = StdRng::seed_from_u64(cx.rng.gen());
    let a = mk(&mut rng2);
    let b = mk(&mut rng2);
    let set = |d: &BTreeMap<String, Vec<BootstrapAddr>>| -> BTreeSet<(String, String)> { d.iter().flat_map(|(p, v)| v.iter().map(move |x| (p.clone(), x.addr.to_string()))).collect() };
    let view = |peers: &std::collections::HashMap<PeerId, BootstrapAddresses>| -> BTreeMap<String, Vec<BootstrapAddr>> { peers.iter().map(|(p, v)| (p.to_string(), v.0.clone())).collect() };
    // merge
    let (va, vb) = (view(&a.peers), view(&b.peers));
    let mut merged = a.clone();
    cx.eval();
    if catch(|| merged.sync(&b)).is_err() {
        cx.violation("panic", format!("CacheData::sync panicked: {}", crate::last_panic()), json!({}));
        return;
    }
    let vm = view(&merged.peers);
    let sm = set(&vm);
    for k in set(&va).union(&set(&vb)) {
        if !sm.contains(k) {
            cx.violation("merge-lost-entry", format!("CacheData::sync lost {k:?} (in a: {}, in b: {})", set(&va).contains(k), set(&vb).contains(k)), json!({"a": set(&va).len(), "b": set(&vb).len()}));
        }
    }
    cx.count("cachedata-merges");
    // clean-up
    let mut cleaned = merged.clone();
    cx.eval();
    let t_before_cleanup = SystemTime::now();
    if catch(|| cleaned.perform_cleanup(&cfg)).is_err() {
        cx.violation("panic", format!("CacheData::perform_cleanup panicked: {}", crate::last_panic()), json!({"expiry_s": expiry}));
        return;
    }
    let vc = view(&cleaned.peers);
    if vc.len() > max_peers {
        cx.violation("too-many-peers", format!("after clean-up {} peers > {max_peers}", vc.len()), json!({}));
    }
    let now = SystemTime::now();
    let mut saw_expired = false;
    for (p, addrs) in &vc {
        if addrs.len() > max_addrs {
            cx.violation("too-many-addrs-per-peer", format!("after clean-up peer {p} has {} addrs > {max_addrs}", addrs.len()), json!({}));
        }
        for x in addrs {
            if x.failure_count > x.success_count {
                cx.violation("unreliable-address-after-cleanup", format!("{} kept with failures {} > successes {}", x.addr, x.failure_count, x.success_count), json!({}));
            }
            // an address that had already outlived the expiry when the clean-up started (no margin needed: its age
            // only grows until the clean-up looks at it)
            match t_before_cleanup.duration_since(x.last_seen) {
                Ok(age) if age >= Duration::from_secs(expiry) => cx.violation("expired-address-after-cleanup", format!("{} kept although last seen {:.3}s before the clean-up started (expiry {expiry}s)", x.addr, age.as_secs_f64()), json!({})),
                _ => {}
            }
        }
    }
    for addrs in vm.values() {
        for x in addrs {
            if now.duration_since(x.last_seen).map(|a| a.as_secs() > expiry + 1).unwrap_or(false) {
                saw_expired = true;
            }
        }
    }
    if saw_expired {
        cx.count("cachedata-cleanups-with-expired-entries");
        cx.nontrivial(&("cleanup", cx.index, expiry, max_peers));
    }
}

/// A store built the way the node binary builds it (`--bootstrap-cache-dir` taking precedence over the path in the
/// config): what it flushes must be what a store built the same way loads afterwards.
fn peers_args_case(cx: &mut Cx, dir: &Path) {
    let custom = dir.join(format!("custom-{}", cx.rng.gen::<u32>()));
    let other = dir.join("configured-elsewhere").join("cache.json");
    let _ = std::fs::create_dir_all(&custom);
    let args = ant_bootstrap::PeersArgs { bootstrap_cache_dir: Some(custom.clone()), ..Default::default() };
    let cfg = BootstrapCacheConfig::empty().with_cache_path(&other).with_max_peers(8).with_addrs_per_peer(3);
    let build = || catch(|| BootstrapCacheStore::new_from_peers_args(&args, Some(cfg.clone())));
    cx.eval();
    cx.count("peers-args-stores");
    let mut store = match build() {
        Ok(Ok(s)) => s,
        Ok(Err(_)) => return,
        Err(p) => {
            cx.violation("panic", format!("new_from_peers_args panicked: {p}"), json!({}));
            return;
        }
    };
    // "`PeersArgs::bootstrap_cache_dir` will take precedence over the path provided inside `config`"
    if store.config().cache_file_path.parent() != Some(custom.as_path()) {
        cx.violation(
            "bootstrap-cache-dir-not-honoured",
            format!("a store built with --bootstrap-cache-dir {custom:?} and a configuration naming {other:?} uses the cache file {:?}", store.config().cache_file_path),
            json!({}),
        );
    }
    let pid = PeerId::random();
    let addr: Multiaddr = format!("/ip4/10.1.2.3/udp/{}/quic-v1/p2p/{pid}", cx.rng.gen_range(1000..60000)).parse().expect("multiaddr");
    store.add_addr(addr.clone());
    store.update_addr_status(&addr, true);
    if !matches!(catch(|| store.sync_and_flush_to_disk(cx.rng.gen())), Ok(Ok(()))) {
        cx.violation("flush-failed", "sync_and_flush_to_disk of a store built from PeersArgs failed".to_string(), json!({}));
        return;
    }
    // a second process started with the same arguments
    let again = match build() {
        Ok(Ok(s)) => s,
        _ => return,
    };
    let loaded = BootstrapCacheStore::load_cache_data(again.config());
    let found = loaded.as_ref().map(|d| d.peers.values().any(|a| a.0.iter().any(|x| x.addr == addr))).unwrap_or(false);
    if !found {
        cx.violation(
            "flush-not-written-where-the-store-loads-from",
            format!("an address flushed by a store built with --bootstrap-cache-dir {custom:?} is not in the file a store built the same way loads ({:?}; load ok: {})", again.config().cache_file_path, loaded.is_ok()),
            json!({"configured_path_exists": other.exists()}),
        );
    }
}

fn corrupt_file_case(cx: &mut Cx, dir: &Path) {
    let path = dir.join("corrupt.json");
    let cfg = BootstrapCacheConfig::empty().with_cache_path(&path).with_max_peers(5).with_addrs_per_peer(2);
    // a valid file to derive corruptions from
    let mut store = BootstrapCacheStore::new(cfg.clone()).expect("store");
    let peers: Vec<PeerId> = (0..4).map(|_| peer(&mut cx.rng)).collect();
    for _ in 0..6 {
        let (a, _) = random_addr(&mut cx.rng, &peers);
        store.add_addr(a);
    }
    let _ = store.sync_and_flush_to_disk(false);
    let valid = std::fs::read(&path).unwrap_or_default();
    for _ in 0..6 {
        let (label, bytes): (&str, Vec<u8>) = match cx.rng.gen_range(0..9) {
            0 => ("truncated", valid[..cx.rng.gen_range(0..valid.len().max(1))].to_vec()),
            1 => {
                let mut v = valid.clone();
                for _ in 0..cx.rng.gen_range(1..6) {
                    if !v.is_empty() {
                        let i = cx.rng.gen_range(0..v.len());
                        v[i] ^= 1 << cx.rng.gen_range(0..8);
                    }
                }
                ("bit-flips", v)
            }
            2 => ("random-bytes", (0..cx.rng.gen_range(0..400)).map(|_| cx.rng.gen()).collect()),
            3 => ("foreign-json", br#"{"nodes":[{"id":1}],"version":3}"#.to_vec()),
            4 => ("empty", vec![]),
            5 | 6 => {
                // valid shape, hostile numbers
                let mut v: Value = serde_json::from_slice(&valid).unwrap_or(json!({}));
                let nums: [u64; 8] = [0, 1, u32::MAX as u64, u32::MAX as u64 + 1, i64::MAX as u64 - cx.rng.gen_range(0..90_000), i64::MAX as u64, u64::MAX - 1, u64::MAX];
                if let Some(peers) = v.get_mut("peers").and_then(|p| p.as_object_mut()) {
                    for addrs in peers.values_mut() {
                        for a in addrs.as_array_mut().into_iter().flatten() {
                            match cx.rng.gen_range(0..5) {
                                0 => a["last_seen"]["secs_since_epoch"] = json!(nums[cx.rng.gen_range(0..8)]),
                                1 => a["last_seen"]["nanos_since_epoch"] = json!(nums[cx.rng.gen_range(0..8)]),
                                2 => a["success_count"] = json!(nums[cx.rng.gen_range(0..4)]),
                                3 => {
                                    a["failure_count"] = json!(nums[cx.rng.gen_range(1..3)]);
                                    a["success_count"] = json!(nums[cx.rng.gen_range(1..3)]);
                                }
                                _ => {}
                            }
                        }
                    }
                }
                ("hostile-numbers", v.to_string().into_bytes())
            }
            7 => {
                let mut v: Value = serde_json::from_slice(&valid).unwrap_or(json!({}));
                if let Some(peers) = v.get_mut("peers").and_then(|p| p.as_object_mut()) {
                    for addrs in peers.values_mut() {
                        for a in addrs.as_array_mut().into_iter().flatten() {
                            a["addr"] = json!(["/ip4/999.1.1.1/udp/1", "", "not a multiaddr", "/p2p/xyz", "/ip4/1.2.3.4/udp/70000/quic-v1"].choose(&mut cx.rng).expect("nonempty"));
                        }
                    }
                }
                ("bad-multiaddrs", v.to_string().into_bytes())
            }
            _ => {
                let mut v: Value = serde_json::from_slice(&valid).unwrap_or(json!({}));
                if let Some(peers) = v.get_mut("peers").and_then(|p| p.as_object_mut()) {
                    let vals: Vec<Value> = peers.values().cloned().collect();
                    peers.clear();
                    for (i, val) in vals.into_iter().enumerate() {
                        peers.insert(format!("notapeer{i}"), val);
                    }
                }
                ("bad-peer-ids", v.to_string().into_bytes())
            }
        };
        std::fs::write(&path, &bytes).expect("write corrupt file");
        cx.eval();
        cx.count(&format!("corrupt:{label}"));
        cx.nontrivial(&("corrupt", label, h64(&bytes)));
        if catch(|| BootstrapCacheStore::load_cache_data(&cfg)).is_err() {
            cx.violation(format!("panic-on-corrupt-file:{label}"), format!("load_cache_data panicked on a {label} file: {}", crate::last_panic()), json!({"file": String::from_utf8_lossy(&bytes).chars().take(600).collect::<String>()}));
            continue;
        }
        // a process that flushes over a corrupt file ignores it and leaves a loadable file
        let mut s2 = BootstrapCacheStore::new(cfg.clone()).expect("store");
        let (a, _) = random_addr(&mut cx.rng, &peers);
        s2.add_addr(a);
        match catch(|| s2.sync_and_flush_to_disk(true)) {
            Err(_) => cx.violation(format!("panic-on-corrupt-file:{label}"), format!("sync_and_flush_to_disk panicked over a {label} file: {}", crate::last_panic()), json!({"file": String::from_utf8_lossy(&bytes).chars().take(600).collect::<String>()})),
            Ok(Err(e)) => cx.violation("flush-failed", format!("sync_and_flush_to_disk over a {label} file returned {e:?}"), json!({})),
            Ok(Ok(())) => {
                if !matches!(catch(|| BootstrapCacheStore::load_cache_data(&cfg)), Ok(Ok(_))) {
                    cx.violation("saved-file-does-not-load", format!("after flushing over a {label} file the cache file does not load"), json!({}));
                }
            }
        }
    }
}

/// several processes flush to one file while this process reloads it as fast as it can
fn stress_case(cx: &mut Cx) {
    let dir = scratch_dir("c18s");
    let path = dir.join("shared_cache.json");
    let writers = cx.tier.pick(4, 10);
    let millis = cx.tier.pick(1200u64, 4000);
    let exe = std::env::current_exe().expect("exe");
    let mut kids = vec![];
    // every other stress run: the writers are threads of THIS process (several stores of one process flushing to one file:
    // a node and the client code it embeds, or concurrent tasks of one node), the rest are separate processes
    let in_process = (cx.index / 25) % 2 == 1;
    let mut threads: Vec<std::thread::JoinHandle<(u64, u64)>> = vec![];
    if in_process {
        cx.count("stress-runs-with-in-process-writers");
        for w in 0..writers {
            let (p2, seed) = (path.clone(), cx.seed.wrapping_add(cx.index * 100 + w as u64));
            threads.push(std::thread::spawn(move || writer_loop(&p2, seed, millis)));
        }
    }
    for w in 0..(if in_process { 0 } else { writers }) {
        let k = std::process::Command::new(&exe)
            .args(["C18", "--aux", &format!("writer:{}:{}:{}", path.display(), cx.seed.wrapping_add(cx.index * 100 + w as u64), millis)])
            .stdout(std::process::Stdio::null())
            .stderr(std::process::Stdio::piped())
            .spawn()
            .expect("spawn writer");
        kids.push(k);
    }
    let cfg = BootstrapCacheConfig::empty().with_cache_path(&path).with_max_peers(20).with_addrs_per_peer(3);
    let start = std::time::Instant::now();
    let (mut loads, mut missing, mut distinct_contents) = (0u64, 0u64, BTreeSet::new());
    while start.elapsed() < Duration::from_millis(millis + 200) {
        // classify "file not there yet" apart from "file there but does not load"
        let raw = std::fs::read(&path);
        match BootstrapCacheStore::load_cache_data(&cfg) {
            Ok(d) => {
                loads += 1;
                if let Ok(r) = &raw {
                    distinct_contents.insert(h64(r));
                }
                for addrs in d.peers.values() {
                    for a in &addrs.0 {
                        if !well_formed(&a.addr) {
                            cx.violation("malformed-address-in-cache", format!("shared file holds {}", a.addr), json!({}));
                        }
                    }
                }
            }
            Err(e) => {
                if path.exists() && raw.is_ok() {
                    // re-check: the file may have appeared between the two calls
                    let again = std::fs::read(&path).unwrap_or_default();
                    if serde_json::from_slice::<Value>(&again).is_err() || serde_json::from_slice::<Value>(raw.as_ref().expect("ok")).is_err() {
                        cx.violation(
                            "concurrent-writers-left-unloadable-file",
                            format!("load_cache_data failed ({e:?}) while {writers} {} were flushing; file content was not complete JSON ({} bytes)", if in_process { "threads of one process" } else { "processes" }, raw.as_ref().map(|r| r.len()).unwrap_or(0)),
                            json!({"content_head": String::from_utf8_lossy(raw.as_ref().expect("ok")).chars().take(200).collect::<String>()}),
                        );
                        break;
                    }
                } else {
                    missing += 1;
                }
            }
        }
        cx.eval();
    }
    let mut writes = 0u64;
    for t in threads {
        if let Ok((w, errs)) = t.join() {
            writes += w;
            cx.count_n("writer-flush-errors", errs);
        }
    }
    for k in kids {
        let out = k.wait_with_output();
        if let Ok(o) = out {
            let err = String::from_utf8_lossy(&o.stderr);
            for l in err.lines() {
                if let Some(n) = l.strip_prefix("writes=") {
                    writes += n.trim().parse::<u64>().unwrap_or(0);
                }
                if l.starts_with("writer-error") {
                    cx.count("writer-flush-errors");
                }
            }
        }
    }
    cx.count_n("stress-loads-ok", loads);
    cx.count_n("stress-loads-file-missing", missing);
    cx.count_n("stress-writes", writes);
    cx.count_n("stress-distinct-file-contents-seen", distinct_contents.len() as u64);
    if !matches!(BootstrapCacheStore::load_cache_data(&cfg), Ok(_)) && path.exists() {
        cx.violation("concurrent-writers-left-unloadable-file", "after all writers stopped the shared file does not load".to_string(), json!({}));
    }
    if loads > 100 && writes > 20 && distinct_contents.len() > 5 {
        cx.nontrivial(&("stress", cx.index, loads));
    } else {
        cx.count("stress-runs-with-little-contention");
    }
    if cx.report.samples.len() < 3 {
        cx.sample(json!({"kind": "multi-process-stress", "writers": writers, "millis": millis, "loads_ok": loads, "writes": writes, "distinct_file_contents_seen": distinct_contents.len()}));
    }
    let _ = std::fs::remove_dir_all(&dir);
}


/// Is strace usable here (ptrace permitted, fault injection supported)? Probed once per process.
fn strace_available() -> bool {
    static OK: std::sync::OnceLock<bool> = std::sync::OnceLock::new();
    *OK.get_or_init(|| {
        std::process::Command::new("strace")
            .args(["-o", "/dev/null", "-e", "trace=rmdir", "-e", "inject=rmdir:error=EIO:when=65535", "true"])
            .stdout(std::process::Stdio::null())
            .stderr(std::process::Stdio::null())
            .status()
            .map(|s| s.success())
            .unwrap_or(false)
    })
}

const FAULT_SYSCALLS: &str = "openat,mkdir,fchmod,write,fsync,fdatasync,rename,renameat,renameat2,link,linkat,unlink,unlinkat,ftruncate,rmdir,read,close";

/// **Syscall-fault lane** (strace as the fault injector, the real flush in a child process): one flush is first traced
/// unfaulted to learn which system calls the write side makes, then re-run once per (system call, fault) placement with
/// that call failing (ENOSPC / EIO / EACCES / EINTR) or the process killed on entering it. "Replaced atomically": whatever
/// the fault, the cache file still loads afterwards and holds every entry it held before; a flush that reported success
/// holds the new entries as well. Faults are placed on the write side only (a failing *read* of the old file makes the
/// code overwrite it by design - not judged).
fn syscall_fault_case(cx: &mut Cx) {
    if !strace_available() {
        cx.count("syscall-fault:lane-unavailable(strace)");
        return;
    }
    let dir = scratch_dir("c18f");
    let path = dir.join("cache.json");
    let exe = std::env::current_exe().expect("exe");
    let (seed0, index0) = (cx.seed, cx.index);
    let mut rng = StdRng::seed_from_u64(h64(&(seed0, index0, "syscall-fault")));
    let start_empty = rng.gen_bool(0.25);
    let with_cleanup = rng.gen_bool(0.5);
    let mut serial = 0u64;
    // runs the child; returns (strace log, child stderr)
    let run = |inject: Option<String>, serial: &mut u64| -> (String, String) {
        *serial += 1;
        let log = dir.join(format!("trace-{serial}.txt"));
        let mut c = std::process::Command::new("strace");
        c.arg("-o").arg(&log).args(["-e", &format!("trace={FAULT_SYSCALLS}")]);
        if let Some(i) = &inject {
            c.args(["-e", &format!("inject={i}")]);
        }
        c.arg(&exe).args(["C18", "--aux", &format!("flushonce:{}:{}:{}", path.display(), seed0.wrapping_add(index0 * 1000 + *serial), with_cleanup as u8)]);
        let out = c.stdout(std::process::Stdio::null()).stderr(std::process::Stdio::piped()).output();
        let err = out.map(|o| String::from_utf8_lossy(&o.stderr).to_string()).unwrap_or_default();
        let t = std::fs::read_to_string(&log).unwrap_or_default();
        let _ = std::fs::remove_file(&log);
        (t, err)
    };
    if !start_empty {
        for _ in 0..2 {
            let (_, err) = run(None, &mut serial);
            if !err.contains("flush=ok") {
                cx.count("syscall-fault:setup-flush-failed");
                let _ = std::fs::remove_dir_all(&dir);
                return;
            }
        }
    }
    // the unfaulted trace: write-side calls between the marker (rmdir of a path that does not exist) and the report on stderr
    let (trace, err0) = run(None, &mut serial);
    if !err0.contains("flush=ok") && !err0.contains("flush=err") {
        // the child never got as far as flushing (strace or the harness binary could not be started): a harness problem,
        // not an observation about the code under test
        cx.count("syscall-fault:child-did-not-run(not-judged)");
        let _ = std::fs::remove_dir_all(&dir);
        return;
    }
    if !err0.contains("flush=ok") {
        cx.violation("flush-failed-without-any-fault", format!("an undisturbed flush in a fresh process failed: {}", err0.chars().take(200).collect::<String>()), json!({}));
        let _ = std::fs::remove_dir_all(&dir);
        return;
    }
    let mut ordinal: BTreeMap<String, u64> = BTreeMap::new();
    let mut placements: Vec<(String, u64, String)> = vec![];
    let mut in_phase = false;
    for line in trace.lines() {
        let Some(name) = line.split('(').next().map(|s| s.trim().to_string()) else { continue };
        if name.is_empty() || name.contains(' ') || name.starts_with('+') || name.starts_with('-') {
            continue;
        }
        *ordinal.entry(name.clone()).or_default() += 1;
        if name == "rmdir" && line.contains("verif-c18-marker") {
            in_phase = true;
            continue;
        }
        if name == "write" && line.starts_with("write(2,") {
            in_phase = false;
        }
        if !in_phase || name == "read" || name == "close" {
            continue;
        }
        // the read side: opening the cache file itself read-only
        if name == "openat" && line.contains("cache.json\"") && line.contains("O_RDONLY") && !line.contains("O_DIRECTORY") {
            continue;
        }
        placements.push((name.clone(), ordinal[&name], line.chars().take(90).collect()));
    }
    if placements.len() < 2 {
        cx.count("syscall-fault:too-few-write-side-calls-seen");
        let _ = std::fs::remove_dir_all(&dir);
        return;
    }
    cx.count_n("syscall-fault:write-side-calls-in-one-flush", placements.len() as u64);
    let mut judged = 0u64;
    let mut kinds_seen: BTreeSet<String> = BTreeSet::new();
    for (name, n, line) in &placements {
        let mut faults: Vec<String> = vec!["signal=KILL".into()];
        for e in ["ENOSPC", "EIO", "EACCES"] {
            if rng.gen_bool(0.5) {
                faults.push(format!("error={e}"));
            }
        }
        if name == "write" {
            faults.push("error=EINTR".into());
        }
        for f in faults {
            let before = read_file_entries(&path);
            let existed = path.exists();
            let (t, err) = run(Some(format!("{name}:{f}:when={n}")), &mut serial);
            let hit = t.contains("(INJECTED)") || t.contains("killed by SIGKILL");
            if !hit {
                cx.count("syscall-fault:placement-not-reached");
                continue;
            }
            cx.eval();
            judged += 1;
            cx.count(&format!("syscall-fault:{}:{}", name, f.replace("signal=", "").replace("error=", "")));
            kinds_seen.insert(format!("{name}:{f}"));
            let reported_ok = err.contains("flush=ok");
            if reported_ok {
                cx.count("syscall-fault:flush-reported-ok-despite-fault");
            } else if err.contains("flush=err") {
                cx.count("syscall-fault:flush-reported-error");
            }
            let what = format!("{f} at {name} #{n} ({line})");
            let cfg = BootstrapCacheConfig::empty().with_cache_path(&path).with_max_peers(5000).with_addrs_per_peer(50);
            if existed || path.exists() {
                if existed && !path.exists() {
                    cx.violation(&format!("fault-during-flush-removed-cache-file:{}", f.split('=').next().unwrap_or("")), format!("the cache file existed before the flush and is gone after {what}"), json!({"fault": what}));
                    break;
                }
                let after = read_file_entries(&path);
                let loaded = BootstrapCacheStore::load_cache_data(&cfg);
                match (&after, &loaded) {
                    (Ok(a), Ok(_)) => {
                        if let Ok(b) = &before {
                            let lost: Vec<_> = b.keys().filter(|k| !a.contains_key(*k)).collect();
                            if !lost.is_empty() && !with_cleanup {
                                cx.violation(&format!("fault-during-flush-lost-entries:{}", f.split('=').next().unwrap_or("")), format!("{} of {} entries of the file are gone after {what}", lost.len(), b.len()), json!({"fault": what, "lost": format!("{:?}", lost.iter().take(3).collect::<Vec<_>>())}));
                            } else if a.len() < b.len() / 2 && b.len() >= 4 {
                                // with clean-up nothing is old enough to be cleaned (all entries are seconds old), limits are far away
                                cx.violation(&format!("fault-during-flush-lost-entries:{}", f.split('=').next().unwrap_or("")), format!("{} entries before, {} after {what}", b.len(), a.len()), json!({"fault": what}));
                            }
                        }
                        if err.contains("second=ok") {
                            cx.count("syscall-fault:failed-flush-followed-by-a-successful-one");
                            for l in err.lines() {
                                if let Some(added) = l.strip_prefix("added=").or_else(|| l.strip_prefix("added2=")) {
                                    if !a.keys().any(|(_, ad)| ad == added.trim()) {
                                        cx.violation("entries-of-a-failed-flush-lost-by-the-next-successful-flush", format!("the flush failed under {what}; the same store then added one more address and flushed successfully, but {added} (added before the {} flush) is not in the file", if l.starts_with("added2") { "second" } else { "failed" }), json!({"fault": what}));
                                    }
                                }
                            }
                        }
                        if reported_ok {
                            for l in err.lines() {
                                if let Some(added) = l.strip_prefix("added=") {
                                    if !a.keys().any(|(_, ad)| ad == added.trim()) {
                                        cx.violation("flush-reported-ok-but-entry-not-in-file", format!("the flush returned Ok under {what} but {added} is not in the file"), json!({"fault": what}));
                                    }
                                }
                            }
                        }
                    }
                    _ => {
                        let raw = std::fs::read(&path).unwrap_or_default();
                        cx.violation(
                            &format!("fault-during-flush-left-unloadable-file:{}", f.split('=').next().unwrap_or("")),
                            format!("after {what} the cache file ({} bytes) does not load: json {:?}, load_cache_data {:?}", raw.len(), after.as_ref().err(), loaded.as_ref().err().map(|e| format!("{e:?}"))),
                            json!({"fault": what, "existed_before": existed, "content_head": String::from_utf8_lossy(&raw).chars().take(120).collect::<String>()}),
                        );
                        break;
                    }
                }
            } else {
                cx.count("syscall-fault:no-file-before-none-after");
            }
        }
    }
    cx.count_n("syscall-fault:faulted-flushes-judged", judged);
    // and an undisturbed flush still works afterwards (left-over temporary files must not stand in the way)
    let (_, err) = run(None, &mut serial);
    if err.contains("flush=err") {
        cx.violation("flush-fails-after-earlier-faults", format!("an undisturbed flush after the faulted ones failed: {}", err.chars().take(200).collect::<String>()), json!({}));
    }
    if judged >= 4 && kinds_seen.len() >= 3 {
        cx.nontrivial(&("syscall-fault", cx.index, judged));
    }
    if cx.report.samples.len() < 4 {
        cx.sample(json!({"kind": "syscall-fault-lane", "start_empty": start_empty, "with_cleanup": with_cleanup, "write_side_calls": placements.iter().map(|p| format!("{}#{}", p.0, p.1)).collect::<Vec<_>>(), "faulted_flushes_judged": judged}));
    }
    let _ = std::fs::remove_dir_all(&dir);
}

/// `vcheck C18 --aux writer:<path>:<seed>:<millis>` | `flushonce:<path>:<seed>:<cleanup>`
pub fn aux_main(spec: &str) -> i32 {
    let parts: Vec<&str> = spec.splitn(4, ':').collect();
    if parts.len() == 4 && parts[0] == "flushonce" {
        return flush_once(Path::new(parts[1]), parts[2].parse().unwrap_or(0), parts[3] == "1");
    }
    if parts.len() != 4 || parts[0] != "writer" {
        return 2;
    }
    let path = PathBuf::from(parts[1]);
    let seed: u64 = parts[2].parse().unwrap_or(0);
    let millis: u64 = parts[3].parse().unwrap_or(1000);
    let (writes, errors) = writer_loop(&path, seed, millis);
    for _ in 0..errors {
        eprintln!("writer-error");
    }
    eprintln!("writes={writes}");
    0
}

/// child of the syscall-fault lane: one store, a few well-formed additions, the marker, one flush, the report on stderr
fn flush_once(path: &Path, seed: u64, with_cleanup: bool) -> i32 {
    let mut rng = StdRng::seed_from_u64(seed);
    let cfg = BootstrapCacheConfig::empty().with_cache_path(path).with_max_peers(5000).with_addrs_per_peer(50);
    let Ok(mut store) = BootstrapCacheStore::new(cfg) else {
        eprintln!("flush=err(new)");
        return 0;
    };
    let mut added = vec![];
    for _ in 0..rng.gen_range(1..5) {
        let p = peer(&mut rng);
        let a = Multiaddr::empty()
            .with(Protocol::Ip4(std::net::Ipv4Addr::new(10, rng.gen(), rng.gen(), rng.gen_range(1..255))))
            .with(Protocol::Udp(rng.gen_range(1024..65000)))
            .with(Protocol::QuicV1)
            .with(Protocol::P2p(p));
        store.add_addr(a.clone());
        added.push(a.to_string());
    }
    let _ = std::fs::remove_dir("/verif-c18-marker-that-does-not-exist");
    let r = store.sync_and_flush_to_disk(with_cleanup);
    let mut out = String::new();
    match r {
        Ok(()) => out.push_str("flush=ok\n"),
        Err(e) => {
            out.push_str(&format!("flush=err({e:?})\n"));
            // the fault is over (one injection per process): the same store learns one more address and flushes again
            let p = peer(&mut rng);
            let a = Multiaddr::empty().with(Protocol::Ip4(std::net::Ipv4Addr::new(10, 9, rng.gen(), rng.gen_range(1..255)))).with(Protocol::Udp(rng.gen_range(1024..65000))).with(Protocol::QuicV1).with(Protocol::P2p(p));
            store.add_addr(a.clone());
            match store.sync_and_flush_to_disk(with_cleanup) {
                Ok(()) => out.push_str(&format!("second=ok\nadded2={a}\n")),
                Err(e) => out.push_str(&format!("second=err({e:?})\n")),
            }
        }
    }
    for a in added {
        out.push_str(&format!("added={a}\n"));
    }
    eprint!("{out}");
    0
}

/// one writer: new store, a few additions, flush onto the shared file; repeated for `millis`. Returns (flushes, errors).
fn writer_loop(path: &std::path::Path, seed: u64, millis: u64) -> (u64, u64) {
    let mut rng = StdRng::seed_from_u64(seed);
    let cfg = BootstrapCacheConfig::empty().with_cache_path(path).with_max_peers(20).with_addrs_per_peer(3);
    let peers: Vec<PeerId> = (0..30).map(|_| peer(&mut rng)).collect();
    let start = std::time::Instant::now();
    let (mut writes, mut errors) = (0u64, 0u64);
    while start.elapsed() < Duration::from_millis(millis) {
        let Ok(mut store) = BootstrapCacheStore::new(cfg.clone()) else { return (writes, errors + 1) };
        for _ in 0..rng.gen_range(1..6) {
            let (a, _) = random_addr(&mut rng, &peers);
            store.add_addr(a);
        }
        match store.sync_and_flush_to_disk(rng.gen_bool(0.7)) {
            Ok(()) => writes += 1,
            Err(_) => errors += 1,
        }
    }
    (writes, errors)
}

impl Check for C18 {
    fn id(&self) -> &'static str {
        "C18"
    }
    fn rule(&self) -> String {
        "history cases: 20-80 operations (add_addr over 12 multiaddr shapes incl. relayed / peer-id-first / tcp+udp / ip6 / dns / no peer id, status updates, removals, clean-ups, sync_and_flush with and without clean-up) on two stores sharing one cache file with limits max_peers 1-8 and max_addrs 1-4; after every operation bounds, address form, merge superset, save->load equality modulo clean-up are judged; \
         then one CacheData-level merge + clean-up with arbitrary timestamps/counters (expired, boundary, future-dated, saturated counters) and six corrupt / foreign / hostile-number files (load must not panic; flushing over them must leave a loadable file). \
         Every 25th case is a stress run: 4 (thorough: 10) writers - separate processes, or (every other run) threads of one process - flushing to one file while the case reloads it continuously. \
         Non-trivial: a history that flushed, used >= 5 address shapes and reached the peer limit; a clean-up that faced expired entries; each distinct corrupt file; a stress run with > 100 successful loads, > 20 writes and > 5 distinct file contents observed."
            .into()
    }
    fn assumptions(&self) -> Vec<String> {
        vec![
            "bounds and address form are judged where the code promises them (after add_addr / perform_cleanup / load_cache_data / flush with clean-up), not on the transient state between a raw merge and the next clean-up".into(),
            "the stress run is inherently nondeterministic; its oracle is sound for any interleaving (a load that finds the file must succeed)".into(),
            "expiry is judged with a 1-2 s margin around the boundary".into(),
        ]
    }
    fn hang_cpu_budget(&self, _tier: Tier) -> Option<std::time::Duration> {
        // a case of this check is a few milliseconds of computation; one that has burnt two minutes of CPU time is not coming back
        Some(std::time::Duration::from_secs(120))
    }
    fn cases(&self, tier: Tier) -> u64 {
        tier.pick(1_200, 40_000)
    }
    fn min_nontrivial(&self, tier: Tier) -> u64 {
        tier.pick(1_000, 20_000)
    }
    fn shard_budget(&self, tier: Tier) -> Duration {
        tier.pick(Duration::from_secs(120), Duration::from_secs(1200))
    }
    fn required_counters(&self, _tier: Tier) -> Vec<&'static str> {
        let mut v = vec!["stress-loads-ok", "stress-writes", "cachedata-cleanups-with-expired-entries", "corrupt:hostile-numbers", "shape:relayed"];
        if strace_available() {
            // the syscall-fault lane must have judged something wherever strace can run at all
            v.push("syscall-fault:faulted-flushes-judged");
        }
        v
    }
    fn run_case(&self, cx: &mut Cx) {
        if cx.index % 100 == 33 {
            syscall_fault_case(cx);
        } else if cx.index % 25 == 24 {
            stress_case(cx);
        } else if cx.index % 50 == 7 {
            long_running_store_case(cx);
        } else {
            history_case(cx);
        }
    }
}
