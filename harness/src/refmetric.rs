//! Reference XOR metric, computed independently of libp2p:
//! d(a, b) = BE256( SHA256(bytes(a)) XOR SHA256(bytes(b)) ).

use ant_evm::U256;
use sha2::{Digest, Sha256};

pub type D32 = [u8; 32];

pub fn sha(bytes: &[u8]) -> D32 {
    let mut h = Sha256::new();
    h.update(bytes);
    h.finalize().into()
}

pub fn ref_distance(a: &[u8], b: &[u8]) -> D32 {
    let (ha, hb) = (sha(a), sha(b));
    let mut out = [0u8; 32];
    for i in 0..32 {
        out[i] = ha[i] ^ hb[i];
    }
    out
}

pub fn to_u256(d: &D32) -> U256 {
    U256::from_be_bytes::<32>(*d)
}

pub fn from_u256(u: &U256) -> D32 {
    u.to_be_bytes::<32>()
}

/// d + 1 / d - 1 on big-endian arrays (saturating)
pub fn inc(d: &D32) -> D32 {
    let mut o = *d;
    for i in (0..32).rev() {
        if o[i] == 0xff {
            o[i] = 0;
        } else {
            o[i] += 1;
            return o;
        }
    }
    [0xff; 32]
}

pub fn dec(d: &D32) -> D32 {
    let mut o = *d;
    for i in (0..32).rev() {
        if o[i] == 0 {
            o[i] = 0xff;
        } else {
            o[i] -= 1;
            return o;
        }
    }
    [0; 32]
}
