//! C12 — record and message encodings round-trip and stay wire-stable.

use crate::common::*;
use crate::gen;
use ant_evm::ProofOfPayment;
use ant_protocol::messages::{ChunkProof, Cmd, CmdResponse, Query, QueryResponse, Request, Response};
use ant_protocol::storage::{
    try_deserialize_record, try_serialize_record, Chunk, ChunkAddress, RecordHeader, RecordKind, RecordType,
    Scratchpad, Transaction,
};
use ant_protocol::NetworkAddress;
use ant_registers::{Permissions, RegisterAddress, SignedRegister};
use bytes::Bytes;
use libp2p::kad::RecordKey;
use rand::{rngs::StdRng, seq::SliceRandom, Rng, SeedableRng};
use serde_json::{json, Value};
use std::collections::{BTreeMap, BTreeSet};
use std::time::{Duration, SystemTime};
use xor_name::XorName;

pub struct C12;

/// the wire tags of the pinned tree (golden; an independently built node uses exactly these)
const TAGS: [(RecordKind, u8); 8] = [
    (RecordKind::ChunkWithPayment, 0),
    (RecordKind::Chunk, 1),
    (RecordKind::Transaction, 2),
    (RecordKind::Register, 3),
    (RecordKind::RegisterWithPayment, 4),
    (RecordKind::Scratchpad, 5),
    (RecordKind::ScratchpadWithPayment, 6),
    (RecordKind::TransactionWithPayment, 7),
];

fn rec(value: Vec<u8>) -> libp2p::kad::Record {
    gen::record(RecordKey::from(vec![1u8; 32]), value)
}

fn cbor_enc<T: serde::Serialize>(v: &T) -> Vec<u8> {
    cbor4ii::serde::to_vec(Vec::new(), v).expect("cbor encode")
}

/// Every decoder the node/client applies to bytes from the network; must return, never panic.
fn run_decoders(bytes: &[u8]) {
    // the key of a record from the network is as hostile as its value: lengths 0, 1, 2, 3, 33, 64 next to the usual 32
    let klen = [32usize, 32, 0, 1, 2, 3, 33, 64][(h64(bytes) % 8) as usize];
    let kb: Vec<u8> = crate::refmetric::sha(bytes).iter().cycle().take(klen).cloned().collect();
    let r = gen::record(RecordKey::from(kb), bytes.to_vec());
    let _ = RecordHeader::from_record(&r);
    let _ = RecordHeader::try_deserialize(bytes);
    // the helper must fail exactly when the header does not decode, and otherwise tell whether the kind is Chunk
    let helper = RecordHeader::is_record_of_type_chunk(&r);
    match (RecordHeader::from_record(&r), helper) {
        (Ok(h), Ok(b)) => assert_eq!(b, h.kind == RecordKind::Chunk, "is_record_of_type_chunk disagrees with the decoded kind"),
        (Err(_), Err(_)) => {}
        (a, b) => panic!("is_record_of_type_chunk {:?} while the header decodes to {:?}", b.map_err(|_| "Err"), a.map(|h| h.kind).map_err(|_| "Err")),
    }
    let _ = try_deserialize_record::<Chunk>(&r);
    let _ = try_deserialize_record::<(ProofOfPayment, Chunk)>(&r);
    let _ = try_deserialize_record::<Scratchpad>(&r);
    let _ = try_deserialize_record::<(ProofOfPayment, Scratchpad)>(&r);
    let _ = try_deserialize_record::<Vec<Transaction>>(&r);
    let _ = try_deserialize_record::<(ProofOfPayment, Transaction)>(&r);
    let _ = try_deserialize_record::<SignedRegister>(&r);
    let _ = try_deserialize_record::<(ProofOfPayment, SignedRegister)>(&r);
    let _ = ant_networking::get_transactions_from_record(&r);
    let _ = rmp_serde::from_slice::<Request>(bytes);
    let _ = rmp_serde::from_slice::<Response>(bytes);
    let _ = rmp_serde::from_slice::<NetworkAddress>(bytes);
    let _ = cbor4ii::serde::from_slice::<Request>(bytes);
    let _ = cbor4ii::serde::from_slice::<Response>(bytes);
}

fn random_address(rng: &mut impl Rng) -> NetworkAddress {
    match rng.gen_range(0..6) {
        0 => NetworkAddress::from_peer(libp2p::PeerId::from(gen::ed_keypair(rng).public())),
        1 => NetworkAddress::from_chunk_address(ChunkAddress::new(XorName(rng.gen()))),
        2 => NetworkAddress::from_transaction_address(ant_protocol::storage::TransactionAddress::new(XorName(rng.gen()))),
        3 => NetworkAddress::from_register_address(ant_registers::RegisterAddress::new(XorName(rng.gen()), gen::bls_sk(rng).public_key())),
        4 => NetworkAddress::from_record_key(&RecordKey::from(gen::bytes(rng, 32))),
        _ => NetworkAddress::from_scratchpad_address(ant_protocol::storage::ScratchpadAddress::new(gen::bls_sk(rng).public_key())),
    }
}

fn random_record_type(rng: &mut impl Rng) -> RecordType {
    match rng.gen_range(0..3) {
        0 => RecordType::Chunk,
        1 => RecordType::Scratchpad,
        _ => RecordType::NonChunk(XorName(rng.gen())),
    }
}

fn random_request(rng: &mut impl Rng) -> Request {
    match rng.gen_range(0..8) {
        0 => Request::Cmd(Cmd::Replicate { holder: random_address(rng), keys: (0..rng.gen_range(0..6)).map(|_| (random_address(rng), random_record_type(rng))).collect() }),
        1 => Request::Cmd(Cmd::PeerConsideredAsBad { detected_by: random_address(rng), bad_peer: random_address(rng), bad_behaviour: "ReplicationFailure".into() }),
        2 => Request::Query(Query::GetStoreQuote { key: random_address(rng), nonce: if rng.gen() { Some(rng.gen()) } else { None }, difficulty: rng.gen_range(0..100) }),
        3 => Request::Query(Query::GetReplicatedRecord { requester: random_address(rng), key: random_address(rng) }),
        4 => Request::Query(Query::GetRegisterRecord { requester: random_address(rng), key: random_address(rng) }),
        5 => Request::Query(Query::GetChunkExistenceProof { key: random_address(rng), nonce: rng.gen(), difficulty: rng.gen_range(0..100) }),
        6 => Request::Query(Query::CheckNodeInProblem(random_address(rng))),
        _ => Request::Query(Query::GetClosestPeers { key: random_address(rng), num_of_peers: if rng.gen() { Some(rng.gen_range(0..50)) } else { None }, range: if rng.gen() { Some(rng.gen()) } else { None }, sign_result: rng.gen() }),
    }
}

fn random_response(rng: &mut impl Rng) -> Response {
    random_response_with(rng, false)
}

/// `wide`: draw errors from every variant of the protocol error type (the committed golden corpus was generated
/// with the narrow set and must keep its random sequence)
fn random_response_with(rng: &mut impl Rng, wide: bool) -> Response {
    use ant_protocol::error::Error as PErr;
    let err = |rng: &mut dyn rand::RngCore| -> PErr { if wide { err_wide(rng) } else { err_narrow(rng) } };
    fn err_narrow(mut rng: &mut dyn rand::RngCore) -> PErr {
        let rng = &mut rng;
        match rng.gen_range(0..4) {
            0 => PErr::GetStoreQuoteFailed,
            1 => PErr::QuoteGenerationFailed,
            2 => PErr::ChunkDoesNotExist(random_address(rng)),
            _ => PErr::RecordHeaderParsingFailed,
        }
    }
    fn err_wide(mut rng: &mut dyn rand::RngCore) -> PErr {
        let rng = &mut rng;
        // every variant of the protocol error type (all of them travel inside responses)
        match rng.gen_range(0..16) {
            0 => PErr::GetStoreQuoteFailed,
            1 => PErr::QuoteGenerationFailed,
            2 => PErr::ChunkDoesNotExist(random_address(rng)),
            3 => PErr::RecordHeaderParsingFailed,
            4 => PErr::RecordParsingFailed,
            5 | 6 => {
                let n = *[0usize, 1, 23, 24, 31, 32, 33, 64, 300].choose(rng).expect("nonempty");
                let key = libp2p::kad::RecordKey::from(gen::bytes(rng, n));
                PErr::RecordExists(ant_protocol::PrettyPrintRecordKey::from(&key).into_owned())
            }
            7 => PErr::ReplicatedRecordNotFound { holder: Box::new(random_address(rng)), key: Box::new(random_address(rng)) },
            8 => PErr::RegisterRecordNotFound { holder: Box::new(random_address(rng)), key: Box::new(random_address(rng)) },
            9 => PErr::RegisterNotFound(Box::new(RegisterAddress::new(XorName(rng.gen()), gen::bls_sk(rng).public_key()))),
            10 => PErr::RegisterAlreadyClaimed(gen::bls_sk(rng).public_key()),
            11 => PErr::ScratchpadHexDeserializeFailed,
            12 => PErr::ScratchpadCipherTextFailed,
            13 => PErr::ScratchpadCipherTextInvalid,
            14 => PErr::UserDataDirectoryNotObtainable,
            _ => PErr::CouldNotObtainDataDir,
        }
    }
    match rng.gen_range(0..8) {
        0 => Response::Cmd(CmdResponse::Replicate(if rng.gen() { Ok(()) } else { Err(err(rng)) })),
        1 => Response::Cmd(CmdResponse::PeerConsideredAsBad(Ok(()))),
        2 => {
            let kp = gen::ed_keypair(rng);
            let q = gen::quote_for(&kp, XorName(rng.gen()), SystemTime::UNIX_EPOCH + Duration::from_secs(rng.gen_range(1..2_000_000_000)), rng);
            Response::Query(QueryResponse::GetStoreQuote {
                quote: if rng.gen_bool(0.7) { Ok(q) } else { Err(err(rng)) },
                peer_address: random_address(rng),
                storage_proofs: (0..rng.gen_range(0..3)).map(|_| (random_address(rng), if rng.gen() { Ok(ChunkProof::new(&gen::bytes(rng, 20), rng.gen())) } else { Err(err(rng)) })).collect(),
            })
        }
        3 => Response::Query(QueryResponse::CheckNodeInProblem { reporter_address: random_address(rng), target_address: random_address(rng), is_in_trouble: rng.gen() }),
        4 => Response::Query(QueryResponse::GetReplicatedRecord(if rng.gen_bool(0.7) { Ok((random_address(rng), Bytes::from(gen::bytes_r(rng, 0, 199)))) } else { Err(err(rng)) })),
        5 => Response::Query(QueryResponse::GetRegisterRecord(if rng.gen_bool(0.7) { Ok((random_address(rng), Bytes::from(gen::bytes_r(rng, 0, 199)))) } else { Err(err(rng)) })),
        6 => Response::Query(QueryResponse::GetChunkExistenceProof((0..rng.gen_range(0..3)).map(|_| (random_address(rng), Ok(ChunkProof::new(&gen::bytes(rng, 20), rng.gen())))).collect())),
        _ => Response::Query(QueryResponse::GetClosestPeers {
            target: random_address(rng),
            peers: (0..rng.gen_range(0..4)).map(|_| (random_address(rng), vec!["/ip4/10.0.0.1/udp/1200/quic-v1".parse().expect("multiaddr")])).collect(),
            signature: if rng.gen() { Some(gen::bytes(rng, 64)) } else { None },
        }),
    }
}

fn random_register(rng: &mut impl Rng) -> SignedRegister {
    let owner = gen::bls_sk(rng);
    let writer = gen::bls_sk(rng);
    let perms = match rng.gen_range(0..3) {
        0 => Permissions::new_anyone_can_write(),
        1 => Permissions::new_with([writer.public_key()]),
        _ => Permissions::default(),
    };
    let mut reg = gen::register(&owner, XorName(rng.gen()), perms);
    let addr = *reg.address();
    let mut heads: BTreeSet<[u8; 32]> = BTreeSet::new();
    for _ in 0..rng.gen_range(0..5) {
        let op = gen::reg_op(addr, gen::bytes_r(rng, 0, 63), if rng.gen() { heads.clone() } else { BTreeSet::new() }, &owner);
        let raw = gen::RawOp::from_op(&op);
        heads = [raw.crdt_op.hash()].into_iter().collect();
        let _ = reg.add_op(op);
    }
    reg
}

fn random_proof(rng: &mut impl Rng, content: XorName) -> ProofOfPayment {
    let kps: Vec<_> = (0..rng.gen_range(1..4)).map(|_| gen::ed_keypair(rng)).collect();
    let refs: Vec<&libp2p::identity::Keypair> = kps.iter().collect();
    gen::proof_for(content, &refs, rng)
}

/// Deterministic corpus for the golden vectors: name -> (rmp/record bytes, cbor bytes for messages)
fn golden_corpus() -> BTreeMap<String, (Vec<u8>, Option<Vec<u8>>)> {
    let mut rng = StdRng::seed_from_u64(0x12_C0FFEE);
    let mut out = BTreeMap::new();
    let t0 = SystemTime::UNIX_EPOCH + Duration::from_secs(1_700_000_000);
    let owner = gen::bls_sk(&mut rng);
    let kp = gen::ed_keypair(&mut rng);
    let chunk = Chunk::new(Bytes::from_static(b"golden chunk content for wire stability"));
    let proof = ProofOfPayment {
        peer_quotes: vec![(ant_evm::EncodedPeerId::from(libp2p::PeerId::from(kp.public())), gen::quote_for(&kp, *chunk.name(), t0, &mut rng))],
    };
    out.insert("record/chunk".into(), (try_serialize_record(&chunk, RecordKind::Chunk).expect("ser").to_vec(), None));
    out.insert("record/chunk_with_payment".into(), (try_serialize_record(&(proof.clone(), chunk.clone()), RecordKind::ChunkWithPayment).expect("ser").to_vec(), None));
    let pad = gen::pad(&owner, 7, b"golden scratchpad payload", 42);
    out.insert("record/scratchpad".into(), (try_serialize_record(&pad, RecordKind::Scratchpad).expect("ser").to_vec(), None));
    out.insert("record/scratchpad_with_payment".into(), (try_serialize_record(&(proof.clone(), pad.clone()), RecordKind::ScratchpadWithPayment).expect("ser").to_vec(), None));
    let tx = Transaction::new(owner.public_key(), vec![gen::bls_sk(&mut rng).public_key()], [7u8; 32], vec![(gen::bls_sk(&mut rng).public_key(), [9u8; 32])], &owner);
    out.insert("record/transaction".into(), (try_serialize_record(&vec![tx.clone()], RecordKind::Transaction).expect("ser").to_vec(), None));
    out.insert("record/transaction_with_payment".into(), (try_serialize_record(&(proof.clone(), tx.clone()), RecordKind::TransactionWithPayment).expect("ser").to_vec(), None));
    let mut reg = gen::register(&owner, XorName([3u8; 32]), Permissions::new_with([gen::bls_sk(&mut rng).public_key()]));
    let addr = *reg.address();
    let op = gen::reg_op(addr, b"golden entry".to_vec(), BTreeSet::new(), &owner);
    reg.add_op(op).expect("add op");
    out.insert("record/register".into(), (try_serialize_record(&reg, RecordKind::Register).expect("ser").to_vec(), None));
    out.insert("record/register_with_payment".into(), (try_serialize_record(&(proof, reg.clone()), RecordKind::RegisterWithPayment).expect("ser").to_vec(), None));
    for i in 0..24 {
        let r = random_request(&mut rng);
        out.insert(format!("request/{i:02}"), (rmp_serde::to_vec(&r).expect("rmp"), Some(cbor_enc(&r))));
        let s = random_response(&mut rng);
        out.insert(format!("response/{i:02}"), (rmp_serde::to_vec(&s).expect("rmp"), Some(cbor_enc(&s))));
    }
    for i in 0..12 {
        let a = random_address(&mut rng);
        out.insert(format!("address/{i:02}"), (rmp_serde::to_vec(&a).expect("rmp"), Some(cbor_enc(&a))));
    }
    // responses carrying every variant of the protocol error type (own random sequence, appended later)
    let mut rng2 = StdRng::seed_from_u64(0x12_E4404);
    let mut i = 0;
    while i < 48 {
        let s = random_response_with(&mut rng2, true);
        // (formatting is the harness' own convenience here; a formatter that panics must not take the check down)
        if !catch(|| format!("{s:?}")).map(|t| t.contains("Err(")).unwrap_or(true) {
            continue;
        }
        out.insert(format!("response/e{i:02}"), (rmp_serde::to_vec(&s).expect("rmp"), Some(cbor_enc(&s))));
        i += 1;
    }
    out
}

const GOLDEN_PATH: &str = "/verif/golden/wire_v1.json";

/// `vcheck C12 --aux gen-golden` : (re)generate the golden vectors from the current tree
pub fn aux_main(spec: &str) -> i32 {
    if spec != "gen-golden" {
        return 2;
    }
    let corpus = golden_corpus();
    let v: BTreeMap<String, Value> = corpus.into_iter().map(|(k, (a, b))| (k, json!({"rmp": hex(&a), "cbor": b.map(|b| hex(&b))}))).collect();
    let _ = std::fs::create_dir_all("/verif/golden");
    std::fs::write(GOLDEN_PATH, serde_json::to_vec_pretty(&v).expect("json")).expect("write golden");
    println!("wrote {GOLDEN_PATH} ({} vectors)", v.len());
    0
}

fn check_golden(cx: &mut Cx) {
    let Ok(bytes) = std::fs::read(GOLDEN_PATH) else {
        cx.inconclusive(format!("golden vectors {GOLDEN_PATH} missing"));
        return;
    };
    let golden: BTreeMap<String, Value> = serde_json::from_slice(&bytes).unwrap_or_default();
    let now = golden_corpus();
    for (name, (rmp, cbor)) in &now {
        cx.eval();
        cx.count("golden-vectors");
        let g = golden.get(name);
        let g_rmp = g.and_then(|g| g["rmp"].as_str()).unwrap_or("");
        if hex(rmp) != g_rmp {
            cx.violation(format!("wire-encoding-changed:{}", name.split('/').next().unwrap_or("")), format!("{name}: current encoding differs from the golden vector of the pinned tree"), json!({"name": name, "golden": g_rmp, "current": hex(rmp)}));
        }
        if let Some(c) = cbor {
            let g_cbor = g.and_then(|g| g["cbor"].as_str()).unwrap_or("");
            if hex(c) != g_cbor {
                cx.violation(format!("wire-encoding-changed:{}-cbor", name.split('/').next().unwrap_or("")), format!("{name}: current CBOR encoding differs from the golden vector"), json!({"name": name, "golden": g_cbor, "current": hex(c)}));
            }
        }
    }
    // golden bytes (as an independently built peer would send them) must decode, and re-encode identically
    for (name, g) in &golden {
        cx.eval();
        let Some(b) = g["rmp"].as_str().and_then(|h| hex::decode(h).ok()) else { continue };
        let ok = match name.split('/').next().unwrap_or("") {
            "record" => {
                let r = rec(b.clone());
                let hdr = RecordHeader::from_record(&r);
                match (name.as_str(), hdr) {
                    ("record/chunk", Ok(h)) => h.kind == RecordKind::Chunk && try_deserialize_record::<Chunk>(&r).map(|v| try_serialize_record(&v, h.kind).map(|x| x.to_vec() == b).unwrap_or(false)).unwrap_or(false),
                    ("record/chunk_with_payment", Ok(h)) => h.kind == RecordKind::ChunkWithPayment && try_deserialize_record::<(ProofOfPayment, Chunk)>(&r).map(|v| try_serialize_record(&v, h.kind).map(|x| x.to_vec() == b).unwrap_or(false)).unwrap_or(false),
                    ("record/scratchpad", Ok(h)) => h.kind == RecordKind::Scratchpad && try_deserialize_record::<Scratchpad>(&r).map(|v| v.is_valid() && try_serialize_record(&v, h.kind).map(|x| x.to_vec() == b).unwrap_or(false)).unwrap_or(false),
                    ("record/scratchpad_with_payment", Ok(h)) => h.kind == RecordKind::ScratchpadWithPayment && try_deserialize_record::<(ProofOfPayment, Scratchpad)>(&r).map(|v| try_serialize_record(&v, h.kind).map(|x| x.to_vec() == b).unwrap_or(false)).unwrap_or(false),
                    ("record/transaction", Ok(h)) => h.kind == RecordKind::Transaction && try_deserialize_record::<Vec<Transaction>>(&r).map(|v| v.iter().all(|t| t.verify()) && try_serialize_record(&v, h.kind).map(|x| x.to_vec() == b).unwrap_or(false)).unwrap_or(false),
                    ("record/transaction_with_payment", Ok(h)) => h.kind == RecordKind::TransactionWithPayment && try_deserialize_record::<(ProofOfPayment, Transaction)>(&r).map(|v| try_serialize_record(&v, h.kind).map(|x| x.to_vec() == b).unwrap_or(false)).unwrap_or(false),
                    ("record/register", Ok(h)) => h.kind == RecordKind::Register && try_deserialize_record::<SignedRegister>(&r).map(|v| v.verify().is_ok() && try_serialize_record(&v, h.kind).map(|x| x.to_vec() == b).unwrap_or(false)).unwrap_or(false),
                    ("record/register_with_payment", Ok(h)) => h.kind == RecordKind::RegisterWithPayment && try_deserialize_record::<(ProofOfPayment, SignedRegister)>(&r).map(|v| try_serialize_record(&v, h.kind).map(|x| x.to_vec() == b).unwrap_or(false)).unwrap_or(false),
                    _ => false,
                }
            }
            "request" => rmp_serde::from_slice::<Request>(&b).map(|v| rmp_serde::to_vec(&v).map(|x| x == b).unwrap_or(false)).unwrap_or(false)
                && g["cbor"].as_str().and_then(|h| hex::decode(h).ok()).map(|c| cbor4ii::serde::from_slice::<Request>(&c).map(|v| cbor_enc(&v) == c).unwrap_or(false)).unwrap_or(false),
            "response" => rmp_serde::from_slice::<Response>(&b).map(|v| rmp_serde::to_vec(&v).map(|x| x == b).unwrap_or(false)).unwrap_or(false)
                && g["cbor"].as_str().and_then(|h| hex::decode(h).ok()).map(|c| cbor4ii::serde::from_slice::<Response>(&c).map(|v| cbor_enc(&v) == c).unwrap_or(false)).unwrap_or(false),
            "address" => rmp_serde::from_slice::<NetworkAddress>(&b).map(|v| rmp_serde::to_vec(&v).map(|x| x == b).unwrap_or(false)).unwrap_or(false),
            _ => true,
        };
        if !ok {
            cx.violation(format!("golden-bytes-not-decodable:{}", name.split('/').next().unwrap_or("")), format!("{name}: bytes encoded by the pinned tree no longer decode to the same value"), json!({"name": name}));
        }
    }
}

fn check_tags(cx: &mut Cx) {
    cx.eval();
    if RecordHeader::SIZE != 2 {
        cx.violation("header-size-changed", format!("RecordHeader::SIZE is {} (pinned: 2)", RecordHeader::SIZE), json!({}));
    }
    for (kind, tag) in TAGS {
        cx.eval();
        cx.count("tags-judged");
        let enc = RecordHeader { kind }.try_serialize().map(|b| b.to_vec());
        if enc.as_ref().ok() != Some(&vec![0x91, tag]) {
            cx.violation("kind-tag-changed", format!("{kind} encodes its header as {:?}, pinned wire form is [0x91, {tag}]", enc.map(|e| hex(&e))), json!({"kind": kind.to_string(), "pinned_tag": tag}));
        }
        // bytes written literally, as an independent peer would
        let literal = vec![0x91, tag, 0xc4, 0x00];
        match RecordHeader::from_record(&rec(literal)) {
            Ok(h) if h.kind == kind => {}
            other => cx.violation("kind-tag-changed", format!("literal header [0x91, {tag}] decodes as {:?}, pinned meaning is {kind}", other.map(|h| h.kind.to_string())), json!({"kind": kind.to_string(), "pinned_tag": tag})),
        }
    }
    for tag in 8u8..=255 {
        cx.eval();
        let bytes: Vec<u8> = if tag < 0x80 { vec![0x91, tag, 0xc0] } else { vec![0x91, 0xcc, tag] };
        if let Ok(h) = RecordHeader::from_record(&rec(bytes)) {
            cx.violation("unknown-kind-accepted", format!("unknown kind tag {tag} decodes as {}", h.kind), json!({"tag": tag}));
        }
    }
}

macro_rules! roundtrip {
    ($cx:expr, $val:expr, $kind:expr, $ty:ty, $label:expr) => {{
        let v = $val;
        $cx.eval();
        $cx.count(&format!("roundtrip:{}", $label));
        match try_serialize_record(&v, $kind) {
            Err(e) => {
                $cx.violation("encode-failed", format!("{}: {e:?}", $label), json!({}));
                vec![]
            }
            Ok(b) => {
                let r = rec(b.to_vec());
                $cx.nontrivial(&("rt", $label, h64(&b.to_vec())));
                match RecordHeader::from_record(&r) {
                    Ok(h) if h.kind == $kind => {}
                    other => $cx.violation("roundtrip-kind", format!("{}: encoded with kind {} but header decodes as {:?}", $label, $kind, other.map(|h| h.kind.to_string())), json!({})),
                }
                if b.len() < 2 || b[0] != 0x91 {
                    $cx.violation("prefix-not-fixed", format!("{}: encoded record does not start with the 2-byte header", $label), json!({"head": hex(&b[..b.len().min(4)])}));
                }
                match try_deserialize_record::<$ty>(&r) {
                    Ok(back) if back == v => {}
                    Ok(_) => $cx.violation("roundtrip-value", format!("{}: decode(encode(v)) != v", $label), json!({"bytes": hex(&b[..b.len().min(300)])})),
                    Err(e) => $cx.violation("roundtrip-value", format!("{}: decode(encode(v)) failed: {e:?}", $label), json!({"bytes": hex(&b[..b.len().min(300)])})),
                }
                b.to_vec()
            }
        }
    }};
}

impl Check for C12 {
    fn id(&self) -> &'static str {
        "C12"
    }
    fn rule(&self) -> String {
        "case 0: exhaustive tag table (8 kinds: encoded header == [0x91, tag], literal bytes decode to the kind; all 248 unknown tags rejected) and the golden corpus (8 record kinds incl. payment proofs, 24 requests, 24 responses, 12 addresses in MessagePack and CBOR: current encoding == committed golden, golden decodes and re-encodes identically). \
         other cases: random values of every record kind with and without ProofOfPayment round-tripped through try_serialize_record/try_deserialize_record (kind, fixed prefix, equality), chunk address recomputed from decoded bytes (incl. crafted inputs), random Request/Response round-trips in both codecs, \
         one case in 16 first runs 4-8 threads that encode and decode chunks (up to 200 kB), scratchpads and requests at the same time (header, kind and value judged per thread); \
         then ~250 hostile byte strings per case (every prefix of short encodings, sampled prefixes of long ones, bit flips, random bytes, unknown tags, huge length prefixes) through 17 decoders which must return Ok/Err. \
         distinct_nontrivial counts distinct encoded values and distinct hostile inputs. A shard process dying (abort / stack overflow / OOM) while decoding is reported as a violation with the case index."
            .into()
    }
    fn assumptions(&self) -> Vec<String> {
        vec![
            "golden vectors in /verif/golden/wire_v1.json were generated from the pinned tree (vcheck C12 --aux gen-golden) and are trusted as the wire form independently built nodes use".into(),
            "equality of decoded values uses the types' own PartialEq".into(),
        ]
    }
    fn hang_cpu_budget(&self, _tier: Tier) -> Option<std::time::Duration> {
        // a case of this check is a few milliseconds of computation; one that has burnt two minutes of CPU time is not coming back
        Some(std::time::Duration::from_secs(120))
    }
    fn cases(&self, tier: Tier) -> u64 {
        tier.pick(3_200, 30_000)
    }
    fn min_nontrivial(&self, tier: Tier) -> u64 {
        tier.pick(200_000, 1_000_000)
    }
    fn crash_is_violation(&self) -> bool {
        true
    }
    fn exhaustive(&self, _tier: Tier) -> bool {
        false
    }
    fn required_counters(&self, _tier: Tier) -> Vec<&'static str> {
        vec!["failed-serialisations-before-roundtrips", "tags-judged", "golden-vectors", "hostile-inputs", "roundtrip:register_with_payment", "log-events-formatted", "concurrent-roundtrips"]
    }
    fn miri_lane(&self, tier: Tier) -> Option<(Vec<&'static str>, usize, usize)> {
        if tier == Tier::Thorough { Some((vec!["record", "message", "address"], 12, 400)) } else { None }
    }
    fn run_case(&self, cx: &mut Cx) {
        // odd cases run with logging enabled, as the shipped binaries do (arguments of log statements are evaluated)
        let logging = cx.index % 2 == 1;
        crate::logsink::set(logging);
        let ev0 = crate::logsink::events();
        self.run_case_inner(cx);
        if logging {
            cx.count("cases-with-logging-enabled");
            cx.count_n("log-events-formatted", crate::logsink::events() - ev0);
        }
        crate::logsink::set(false);
    }
}

/// Several threads encode and decode at the same time (a node serialises records on many worker threads at once):
/// every encoding must carry its header and decode to its value whatever the other threads are doing.
fn concurrent_roundtrips(cx: &mut Cx) {
    let threads = cx.rng.gen_range(4..=8);
    let iters = cx.rng.gen_range(60..=160);
    let seeds: Vec<u64> = (0..threads).map(|_| cx.rng.gen()).collect();
    let handles: Vec<std::thread::JoinHandle<(u64, Vec<(String, String)>)>> = seeds
        .into_iter()
        .map(|seed| {
            std::thread::spawn(move || {
                let mut rng = rand::rngs::StdRng::seed_from_u64(seed);
                let mut faults: Vec<(String, String)> = vec![];
                let mut done = 0u64;
                let owner = gen::bls_sk(&mut rng);
                for _ in 0..iters {
                    let size = *[0usize, 40, 3_000, 60_000, 200_000].choose(&mut rng).expect("nonempty");
                    let chunk = gen::chunk(&mut rng, size);
                    let r = catch(|| {
                        let b = try_serialize_record(&chunk, RecordKind::Chunk).map_err(|e| format!("encode failed: {e:?}"))?;
                        if b.len() < 2 || b[0] != 0x91 {
                            return Err(format!("encoded chunk of {size} bytes starts with {} instead of the 2-byte header", hex(&b[..b.len().min(4)])));
                        }
                        match RecordHeader::from_record(&rec(b.to_vec())) {
                            Ok(h) if h.kind == RecordKind::Chunk => {}
                            other => return Err(format!("header of an encoded chunk decodes as {:?}", other.map(|h| h.kind.to_string()))),
                        }
                        match try_deserialize_record::<Chunk>(&rec(b.to_vec())) {
                            Ok(back) if back == chunk => Ok(()),
                            Ok(_) => Err("decode(encode(chunk)) != chunk".to_string()),
                            Err(e) => Err(format!("decode(encode(chunk)) failed: {e:?}")),
                        }
                    });
                    match r {
                        Ok(Ok(())) => {}
                        Ok(Err(e)) => faults.push(("concurrent-roundtrip:chunk".into(), e)),
                        Err(p) => faults.push(("concurrent-roundtrip:panic".into(), p)),
                    }
                    let n = rng.gen_range(0..300);
                    let pad = gen::pad(&owner, rng.gen(), &gen::bytes(&mut rng, n), rng.gen());
                    let r = catch(|| {
                        let b = try_serialize_record(&pad, RecordKind::Scratchpad).map_err(|e| format!("encode failed: {e:?}"))?;
                        if b.len() < 2 || b[0] != 0x91 {
                            return Err(format!("encoded scratchpad starts with {}", hex(&b[..b.len().min(4)])));
                        }
                        match RecordHeader::from_record(&rec(b.to_vec())) {
                            Ok(h) if h.kind == RecordKind::Scratchpad => {}
                            other => return Err(format!("header decodes as {:?}", other.map(|h| h.kind.to_string()))),
                        }
                        match try_deserialize_record::<Scratchpad>(&rec(b.to_vec())) {
                            Ok(back) if back == pad => Ok(()),
                            Ok(_) => Err("decode(encode(pad)) != pad".to_string()),
                            Err(e) => Err(format!("decode(encode(pad)) failed: {e:?}")),
                        }
                    });
                    match r {
                        Ok(Ok(())) => {}
                        Ok(Err(e)) => faults.push(("concurrent-roundtrip:scratchpad".into(), e)),
                        Err(p) => faults.push(("concurrent-roundtrip:panic".into(), p)),
                    }
                    let req = random_request(&mut rng);
                    let r = catch(|| match rmp_serde::to_vec(&req).map_err(|e| e.to_string()).and_then(|b| rmp_serde::from_slice::<Request>(&b).map_err(|e| e.to_string())) {
                        Ok(back) if back == req => Ok(()),
                        Ok(_) => Err("decode(encode(request)) != request".to_string()),
                        Err(e) => Err(e),
                    });
                    match r {
                        Ok(Ok(())) => {}
                        Ok(Err(e)) => faults.push(("concurrent-roundtrip:request".into(), e)),
                        Err(p) => faults.push(("concurrent-roundtrip:panic".into(), p)),
                    }
                    done += 3;
                    if faults.len() > 20 {
                        break;
                    }
                }
                (done, faults)
            })
        })
        .collect();
    for h in handles {
        match h.join() {
            Ok((done, faults)) => {
                cx.count_n("concurrent-roundtrips", done);
                for _ in 0..done {
                    cx.eval();
                }
                for (sig, detail) in faults.into_iter().take(3) {
                    cx.violation(sig, detail, json!({"threads": threads, "iterations": iters}));
                }
            }
            Err(_) => cx.violation("concurrent-roundtrip:panic", "an encoding thread died".to_string(), json!({"threads": threads})),
        }
    }
    cx.count("cases-with-concurrent-encoders");
}

impl C12 {
    fn run_case_inner(&self, cx: &mut Cx) {
        if cx.index % 16 == 5 {
            concurrent_roundtrips(cx);
        }
        if cx.index == 0 {
            check_tags(cx);
            check_golden(cx);
            cx.sample(json!({"kind": "tag-table", "tags": TAGS.iter().map(|(k, t)| format!("{k}={t}")).collect::<Vec<_>>()}));
        }
        let mut encodings: Vec<Vec<u8>> = vec![];
        // a serialisation that fails (a proof whose quote is dated before the unix epoch cannot be encoded) must not
        // influence what is encoded afterwards on this thread
        if cx.rng.gen_bool(0.5) {
            let kp = gen::ed_keypair(&mut cx.rng);
            let mut bad = gen::proof_for(XorName(cx.rng.gen()), &[&kp], &mut cx.rng);
            for (_, q) in bad.peer_quotes.iter_mut() {
                q.timestamp = SystemTime::UNIX_EPOCH - Duration::from_secs(cx.rng.gen_range(1..1_000_000));
            }
            let c = gen::chunk(&mut cx.rng, 40);
            let kind = *[RecordKind::ChunkWithPayment, RecordKind::ScratchpadWithPayment, RecordKind::Chunk].choose(&mut cx.rng).expect("nonempty");
            match catch(|| try_serialize_record(&(bad, c), kind)) {
                Ok(Err(_)) => cx.count("failed-serialisations-before-roundtrips"),
                Ok(Ok(_)) => cx.count("pre-epoch-proof-serialised"),
                Err(p) => cx.violation("encoder-panic", format!("try_serialize_record panicked on a pre-epoch quote timestamp: {p}"), json!({})),
            }
        }
        // (b) round trips
        let csize = *[0usize, 1, 2, 31, 32, 33, 255, 256, 1000, 65_535, 65_536, 70_000].choose(&mut cx.rng).expect("nonempty");
        let chunk = gen::chunk(&mut cx.rng, csize);
        let proof = random_proof(&mut cx.rng, *chunk.name());
        encodings.push(roundtrip!(cx, chunk.clone(), RecordKind::Chunk, Chunk, "chunk"));
        encodings.push(roundtrip!(cx, (proof.clone(), chunk.clone()), RecordKind::ChunkWithPayment, (ProofOfPayment, Chunk), "chunk_with_payment"));
        let owner = gen::bls_sk(&mut cx.rng);
        let n = cx.rng.gen_range(0..400);
        let counter = cx.rng.gen_range(0..u64::MAX);
        let data = gen::bytes(&mut cx.rng, n);
        // every shape a scratchpad value can take: signed with a payload, and (one case in four) as created - never
        // signed, no payload - or unsigned with a payload
        let (pad, unsigned) = match cx.rng.gen_range(0..8) {
            0 => (Scratchpad::new(owner.public_key(), cx.rng.gen()), true),
            _ => (gen::pad(&owner, counter, &data, cx.rng.gen()), false),
        };
        if unsigned {
            cx.count("roundtrip:unsigned-scratchpads");
        }
        encodings.push(roundtrip!(cx, pad.clone(), RecordKind::Scratchpad, Scratchpad, "scratchpad"));
        encodings.push(roundtrip!(cx, (proof.clone(), pad.clone()), RecordKind::ScratchpadWithPayment, (ProofOfPayment, Scratchpad), "scratchpad_with_payment"));
        let txs: Vec<Transaction> = (0..cx.rng.gen_range(1..4)).map(|_| gen::transaction(&mut cx.rng, &owner)).collect();
        encodings.push(roundtrip!(cx, txs.clone(), RecordKind::Transaction, Vec<Transaction>, "transaction"));
        encodings.push(roundtrip!(cx, (proof.clone(), txs[0].clone()), RecordKind::TransactionWithPayment, (ProofOfPayment, Transaction), "transaction_with_payment"));
        let reg = random_register(&mut cx.rng);
        encodings.push(roundtrip!(cx, reg.clone(), RecordKind::Register, SignedRegister, "register"));
        encodings.push(roundtrip!(cx, (proof.clone(), reg.clone()), RecordKind::RegisterWithPayment, (ProofOfPayment, SignedRegister), "register_with_payment"));
        if cx.index < 2 {
            cx.sample(json!({"kind": "roundtrip", "chunk_len": csize, "pad_counter": counter, "txs": txs.len(), "register_ops": reg.ops().len(), "chunk_record_head": hex(&encodings[0][..encodings[0].len().min(24)])}));
        }
        // (c) a decoded chunk's address is always the hash of its bytes
        for _ in 0..4 {
            let crafted: Vec<u8> = match cx.rng.gen_range(0..3) {
                0 => {
                    // a struct-like [address, value] array where an attacker hopes the address is trusted
                    let other = XorName(cx.rng.gen());
                    let mut b = vec![0x91, 1];
                    b.extend(rmp_serde::to_vec(&(ChunkAddress::new(other), Bytes::from(gen::bytes(&mut cx.rng, 10)))).expect("enc"));
                    b
                }
                1 => encodings[0].clone(),
                _ => {
                    let mut b = encodings[0].clone();
                    if b.len() > 5 {
                        let i = cx.rng.gen_range(4..b.len());
                        b[i] ^= 0x55;
                    }
                    b
                }
            };
            cx.eval();
            if let Ok(c) = try_deserialize_record::<Chunk>(&rec(crafted.clone())) {
                cx.count("chunk-address-judged");
                if *c.name() != XorName::from_content(c.value()) {
                    cx.violation("chunk-address-not-recomputed", "decoded chunk's address is not the hash of its value".to_string(), json!({"bytes": hex(&crafted[..crafted.len().min(200)])}));
                }
            }
        }
        // messages
        for _ in 0..6 {
            let r = random_request(&mut cx.rng);
            let s = random_response_with(&mut cx.rng, true);
            cx.evals(2);
            cx.count("roundtrip:messages");
            let (rb, sb) = (rmp_serde::to_vec(&r).expect("rmp"), rmp_serde::to_vec(&s).expect("rmp"));
            let (rc, sc) = (cbor_enc(&r), cbor_enc(&s));
            cx.nontrivial(&("msg", h64(&rb), h64(&sb)));
            if rmp_serde::from_slice::<Request>(&rb).ok().as_ref() != Some(&r) || cbor4ii::serde::from_slice::<Request>(&rc).ok().as_ref() != Some(&r) {
                cx.violation("roundtrip-message", format!("request does not round-trip: {r:?}"), json!({"rmp": hex(&rb)}));
            }
            if rmp_serde::from_slice::<Response>(&sb).ok().as_ref() != Some(&s) || cbor4ii::serde::from_slice::<Response>(&sc).ok().as_ref() != Some(&s) {
                cx.violation("roundtrip-message", format!("response does not round-trip: {s:?}"), json!({"rmp": hex(&sb)}));
            }
            encodings.push(rb);
            encodings.push(rc);
            encodings.push(sb);
        }
        // (e) hostile bytes
        let mut hostile: Vec<Vec<u8>> = vec![];
        for e in &encodings {
            if e.len() <= 40 {
                for i in 0..e.len() {
                    hostile.push(e[..i].to_vec());
                }
            } else {
                for i in [0usize, 1, 2, 3, 4, 5, e.len() / 2, e.len() - 1] {
                    hostile.push(e[..i].to_vec());
                }
                for _ in 0..3 {
                    hostile.push(e[..cx.rng.gen_range(0..e.len())].to_vec());
                }
            }
            for _ in 0..4 {
                let mut m = e.clone();
                for _ in 0..cx.rng.gen_range(1..4) {
                    let i = cx.rng.gen_range(0..m.len());
                    m[i] ^= 1 << cx.rng.gen_range(0..8);
                }
                hostile.push(m);
            }
        }
        for _ in 0..20 {
            let n = cx.rng.gen_range(0..64);
            hostile.push(gen::bytes(&mut cx.rng, n));
        }
        for tag in [8u8, 9, 0x7f, 0xc0, 0xff] {
            hostile.push(vec![0x91, tag, 0xc4, 0x01, 0x00]);
        }
        // huge length prefixes after a valid header: bin32 / array32 / map32 / str32 claiming 4 GiB
        for kind_tag in 0u8..8 {
            for lead in [0xc6u8, 0xdd, 0xdf, 0xdb] {
                let mut b = vec![0x91, kind_tag, lead, 0xff, 0xff, 0xff, 0xff];
                b.extend(gen::bytes(&mut cx.rng, 8));
                hostile.push(b.clone());
                // nested: array of 1 whose element claims 4 GiB
                hostile.push([vec![0x91, kind_tag, 0x92, 0x91, lead, 0xff, 0xff, 0xff, 0xfe], gen::bytes(&mut cx.rng, 4)].concat());
            }
        }
        for hbytes in hostile {
            cx.eval();
            cx.count("hostile-inputs");
            cx.nontrivial(&("h", h64(&hbytes)));
            if let Err(p) = catch(|| run_decoders(&hbytes)) {
                cx.violation("decoder-panic", format!("a decoder panicked on {} hostile bytes: {p} {}", hbytes.len(), crate::last_panic()), json!({"bytes": hex(&hbytes[..hbytes.len().min(400)])}));
            }
        }
    }
}
