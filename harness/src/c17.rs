//! C17 — parsers of untrusted text and bytes never crash (and round-trip where a formatter exists).
//!
//! Built with overflow-checks + debug-assertions so that an arithmetic overflow or an out-of-range
//! slice in a parser becomes an observable panic; each target runs under catch_unwind inside a
//! shard process, and an abnormal shard death is itself reported as a violation.

use crate::common::*;
use crate::gen;
use ant_evm::AttoTokens;
use ant_node_manager::add_services::config::PortRange;
use ant_node_manager::helpers::{get_start_port_if_applicable, increment_port_option};
use ant_protocol::storage::{ScratchpadAddress};
use ant_registers::RegisterAddress;
use ant_service_management::NodeRegistry;
use autonomi::client::address::{addr_to_str, str_to_addr};
use autonomi::client::data::DataMapChunk;
use rand::{seq::SliceRandom, Rng};
use serde_json::{json, Value};
use std::str::FromStr;
use xor_name::XorName;

pub struct C17;

/// same container format as ant-cli's encrypt_private_key, but for arbitrary plaintext bytes
fn encrypt_bytes(plaintext: &[u8], password: &str, salt: [u8; 8], nonce: [u8; 12]) -> String {
    use ring::aead::{BoundKey, Nonce, NonceSequence};
    struct Seq([u8; 12]);
    impl NonceSequence for Seq {
        fn advance(&mut self) -> Result<Nonce, ring::error::Unspecified> {
            Nonce::try_assume_unique_for_key(&self.0)
        }
    }
    let mut key = [0u8; 32];
    ring::pbkdf2::derive(ring::pbkdf2::PBKDF2_HMAC_SHA512, std::num::NonZeroU32::new(100_000).expect("nz"), &salt, password.as_bytes(), &mut key);
    let unbound = ring::aead::UnboundKey::new(&ring::aead::CHACHA20_POLY1305, &key).expect("key");
    let mut sealing = ring::aead::SealingKey::new(unbound, Seq(nonce));
    let mut data = plaintext.to_vec();
    sealing.seal_in_place_append_tag(ring::aead::Aad::from(&[]), &mut data).expect("seal");
    let mut out = salt.to_vec();
    out.extend(nonce);
    out.extend(data);
    hex::encode(out)
}

fn hex_of_len(rng: &mut impl Rng, nbytes: usize) -> String {
    hex::encode(gen::bytes(rng, nbytes))
}

/// a long line of text with multi-byte characters at random byte offsets (a line of an error page returned by a
/// contacts URL, a pasted paragraph): exercises every fixed byte offset a parser or its diagnostics might cut at
fn long_text(rng: &mut impl Rng) -> String {
    let n = rng.gen_range(0..400);
    let dense = rng.gen_bool(0.5);
    (0..n)
        .map(|_| {
            if rng.gen_bool(if dense { 0.3 } else { 0.04 }) {
                *['é', 'ß', '…', '€', '𝔘', '日', '\u{301}'].choose(rng).expect("nonempty")
            } else {
                *[b'a', b'/', b'1', b'<', b' ', b'f', b'0', b'-', b'.', b':'].choose(rng).expect("nonempty") as char
            }
        })
        .collect()
}

fn mutate_str(rng: &mut impl Rng, s: &str) -> String {
    let mut chars: Vec<char> = s.chars().collect();
    match rng.gen_range(0..7) {
        0 => {
            if !chars.is_empty() {
                chars.truncate(rng.gen_range(0..chars.len()));
            }
        }
        1 => {
            if !chars.is_empty() {
                let i = rng.gen_range(0..chars.len());
                chars.remove(i);
            }
        }
        2 => {
            let i = rng.gen_range(0..=chars.len());
            chars.insert(i, *['g', 'Z', ' ', '-', '\n', 'é', '𝔘', '\0', '0'].choose(rng).expect("nonempty"));
        }
        3 => {
            if !chars.is_empty() {
                let i = rng.gen_range(0..chars.len());
                chars[i] = *['x', 'G', 'ß', ' ', 'f', '0'].choose(rng).expect("nonempty");
            }
        }
        4 => {
            let n = rng.gen_range(1..4);
            let extra: String = hex_of_len(rng, n);
            chars.extend(extra.chars());
        }
        5 => chars = chars.iter().map(|c| c.to_ascii_uppercase()).collect(),
        _ => {
            chars.insert(0, '0');
            chars.insert(1, 'x');
        }
    }
    chars.into_iter().collect()
}

struct T<'a, 'b> {
    cx: &'a mut Cx<'b>,
}

impl T<'_, '_> {
    /// run one target on one input; a panic is a violation keyed on the target
    fn run<R>(&mut self, target: &'static str, input_repr: String, f: impl FnOnce() -> R) -> Option<R> {
        self.cx.eval();
        self.cx.count(&format!("target:{target}"));
        self.cx.nontrivial(&(target, &input_repr));
        match catch(f) {
            Ok(r) => Some(r),
            Err(p) => {
                let lp = crate::last_panic();
                // key the finding on the panic site too, so one defect cannot mask another in the same target
                let site = lp.rsplit(" at ").next().unwrap_or("").rsplit('/').next().unwrap_or("").to_string();
                self.cx.violation(
                    format!("panic:{target}@{site}"),
                    format!("{target} panicked on {}: {p} [{lp}]", input_repr.chars().take(160).collect::<String>()),
                    json!({"target": target, "input": input_repr.chars().take(2000).collect::<String>()}),
                );
                None
            }
        }
    }
    fn rt_fail(&mut self, target: &'static str, detail: String) {
        self.cx.violation(format!("roundtrip:{target}"), detail, json!({"target": target}));
    }
}

fn sample_registry_json(rng: &mut impl Rng) -> Value {
    let n = rng.gen_range(0..4);
    let nodes: Vec<Value> = (0..n)
        .map(|i| {
            let status = *["Added", "Running", "Stopped", "Removed"].choose(rng).expect("nonempty");
            json!({
                "antnode_path": format!("/var/antctl/services/antnode{}/antnode", i + 1),
                "auto_restart": rng.gen::<bool>(),
                "connected_peers": match rng.gen_range(0..4) { 0 => json!(null), 1 => json!([]), 2 => json!([libp2p::PeerId::random().to_string()]), _ => json!([libp2p::PeerId::random().to_string(), libp2p::PeerId::random().to_string()]) },
                "data_dir_path": format!("/var/antctl/services/antnode{}", i + 1),
                "evm_network": "ArbitrumOne",
                "home_network": rng.gen::<bool>(),
                "listen_addr": match rng.gen_range(0..3) { 0 => json!(null), 1 => json!([]), _ => json!(["/ip4/127.0.0.1/udp/12000/quic-v1"]) },
                "log_dir_path": format!("/var/log/antnode/antnode{}", i + 1),
                "log_format": null,
                "max_archived_log_files": null,
                "max_log_files": rng.gen_range(0..20),
                "metrics_port": if rng.gen() { json!(null) } else { json!(rng.gen::<u16>()) },
                "owner": if rng.gen() { json!(null) } else { json!("discord_user") },
                "network_id": if rng.gen() { json!(null) } else { json!(rng.gen::<u8>()) },
                "node_ip": if rng.gen() { json!(null) } else { json!("10.0.0.1") },
                "node_port": if rng.gen() { json!(null) } else { json!(rng.gen::<u16>()) },
                "number": i + 1,
                "peer_id": if rng.gen() { json!(null) } else { json!(libp2p::PeerId::random().to_string()) },
                "peers_args": {"first": false, "addrs": [], "network_contacts_url": [], "local": false, "disable_mainnet_contacts": false, "ignore_cache": false, "bootstrap_cache_dir": null},
                "pid": if rng.gen() { json!(null) } else { json!(rng.gen::<u32>()) },
                "rewards_address": "0x03B770D9cD32077cC0bF330c13C114a87643B124",
                "reward_balance": null,
                "rpc_socket_addr": format!("127.0.0.1:{}", rng.gen_range(1024..65535)),
                "service_name": format!("antnode{}", i + 1),
                "status": status,
                "upnp": false,
                "user": "ant",
                "user_mode": false,
                "version": "0.112.6",
            })
        })
        .collect();
    json!({
        "auditor": null, "daemon": null, "faucet": null,
        "environment_variables": if rng.gen() { json!(null) } else { json!([["ANT_LOG", "all"]]) },
        "nat_status": if rng.gen() { json!(null) } else { json!("Public") },
        "nodes": nodes,
        "save_path": "/var/antctl/node_registry.json",
    })
}

/// replace one numeric / string leaf of a JSON document by a hostile value
fn corrupt_json(rng: &mut impl Rng, v: &mut Value, depth: usize) {
    match v {
        Value::Object(m) => {
            if m.is_empty() {
                return;
            }
            let keys: Vec<String> = m.keys().cloned().collect();
            let k = keys.choose(rng).expect("nonempty").clone();
            if rng.gen_bool(0.15) {
                m.remove(&k);
            } else if let Some(x) = m.get_mut(&k) {
                corrupt_json(rng, x, depth + 1);
            }
        }
        Value::Array(a) => {
            if a.is_empty() || rng.gen_bool(0.2) {
                *v = hostile_leaf(rng);
            } else {
                let i = rng.gen_range(0..a.len());
                corrupt_json(rng, &mut a[i], depth + 1);
            }
        }
        _ => *v = hostile_leaf(rng),
    }
}

fn hostile_leaf(rng: &mut impl Rng) -> Value {
    match rng.gen_range(0..12) {
        0 => json!(u64::MAX),
        1 => json!(-1),
        2 => json!(65536),
        3 => json!(4294967296u64),
        4 => json!(1e308),
        5 => json!(""),
        6 => json!("not a peer id"),
        7 => json!("127.0.0.1:99999"),
        8 => json!(null),
        9 => json!([]),
        10 => json!({}),
        _ => json!("\u{0000}\u{ffff}"),
    }
}

impl Check for C17 {
    fn id(&self) -> &'static str {
        "C17"
    }
    fn rule(&self) -> String {
        "each case runs 14 parser targets (RegisterAddress/ScratchpadAddress/DataMapChunk from_hex, str_to_addr, decrypt_private_key (real source of the `ant` binary compiled in), PortRange::parse+validate, increment_port_option, get_start_port_if_applicable, \
         AttoTokens::from_str, craft_valid_multiaddr_from_str, NodeRegistry::from_json/load, BootstrapCacheStore::load_cache_data, RecordHeader::from_record/try_deserialize_record, proof payee decoding) on generated inputs: empty, 1 char, every length around the fixed offsets each parser uses \
         (31/32/33/79/80/81 decoded bytes; 0..=21 and 35/36/37 for the wallet blob), boundary numerics (0, 65535, 0-65535, 65534-65535, counts 0/1/2/65535/65536-1), non-ASCII, very long, mutated valid encodings, JSON with hostile leaves; wallet blobs include authentic ciphertexts of non-UTF-8 and empty plaintexts. \
         Oracle: no panic (overflow-checks on), Ok/Err only, and parse(format(x)) == x where a formatter exists. distinct_nontrivial counts distinct (target, input) pairs."
            .into()
    }
    fn assumptions(&self) -> Vec<String> {
        vec![
            "harness built with overflow-checks and debug-assertions: wrapping arithmetic in a parser is observed as a panic, which the statement counts as a defect ('never panics or overflows')".into(),
            "ant-cli's wallet/encryption.rs is a binary-crate module; it is compiled into the harness from /repo's working tree via #[path]".into(),
        ]
    }
    fn hang_cpu_budget(&self, _tier: Tier) -> Option<std::time::Duration> {
        // a case of this check is a few milliseconds of computation; one that has burnt two minutes of CPU time is not coming back
        Some(std::time::Duration::from_secs(120))
    }
    fn cases(&self, tier: Tier) -> u64 {
        tier.pick(1_000, 40_000)
    }
    fn min_nontrivial(&self, tier: Tier) -> u64 {
        tier.pick(50_000, 1_000_000)
    }
    fn crash_is_violation(&self) -> bool {
        true
    }
    fn required_counters(&self, _tier: Tier) -> Vec<&'static str> {
        vec!["target:RegisterAddress::from_hex", "target:decrypt_private_key", "target:PortRange::validate", "target:NodeRegistry::from_json", "target:increment_port_option", "wallet:authentic-ciphertexts", "log-events-formatted"]
    }
    fn miri_lane(&self, tier: Tier) -> Option<(Vec<&'static str>, usize, usize)> {
        if tier == Tier::Thorough { Some((vec!["record", "address", "amount", "message"], 8, 300)) } else { None }
    }
    fn run_case(&self, cx: &mut Cx) {
        // the shipped binaries run with logging enabled, `cargo test` without: odd cases run under a subscriber that
        // evaluates and formats the arguments of every log statement the parsers reach
        let logging = cx.index % 2 == 1;
        crate::logsink::set(logging);
        let ev0 = crate::logsink::events();
        self.run_case_inner(cx);
        if logging {
            cx.count("cases-with-logging-enabled");
            cx.count_n("log-events-formatted", crate::logsink::events() - ev0);
        }
        crate::logsink::set(false);
    }
}

/// The parsers are pure functions of their input; a node / client calls them from many threads. One case in 32: a set of
/// inputs is parsed on one thread first, then by 4-8 threads at the same time; every thread must get the same answers.
fn concurrent_parsers(cx: &mut Cx) {
    use rand::SeedableRng;
    fn answers(s: &str) -> Vec<String> {
        vec![
            format!("{:?}", RegisterAddress::from_hex(s).map(|a| a.to_hex()).map_err(|_| ())),
            format!("{:?}", ScratchpadAddress::from_hex(s).map(|a| a.to_hex()).map_err(|_| ())),
            format!("{:?}", str_to_addr(s).map(addr_to_str).map_err(|_| ())),
            format!("{:?}", PortRange::parse(s).map_err(|_| ())),
            format!("{:?}", AttoTokens::from_str(s).map(|a| a.to_string()).map_err(|_| ())),
            format!("{:?}", ant_bootstrap::craft_valid_multiaddr_from_str(s, false).map(|m| m.to_string())),
        ]
    }
    let mut inputs: Vec<String> = vec![];
    for _ in 0..40 {
        inputs.push(match cx.rng.gen_range(0..8) {
            0 => {
                let n = *[31usize, 32, 33, 64, 80].choose(&mut cx.rng).expect("nonempty");
                hex(&gen::bytes(&mut cx.rng, n))
            }
            1 => format!("{}-{}", cx.rng.gen_range(0..70_000u32), cx.rng.gen_range(0..70_000u32)),
            2 => format!("{}", cx.rng.gen_range(0..70_000u32)),
            3 => format!("{}.{}", cx.rng.gen_range(0..1_000_000u64), cx.rng.gen_range(0..1_000_000_000u64)),
            4 => format!("/ip4/10.{}.{}.{}/udp/{}/quic-v1/p2p/{}", cx.rng.gen::<u8>(), cx.rng.gen::<u8>(), cx.rng.gen::<u8>(), cx.rng.gen_range(1..65535u32), libp2p::PeerId::random()),
            5 => format!("10.0.0.{}:{}", cx.rng.gen::<u8>(), cx.rng.gen_range(1..65535u32)),
            6 => {
                let h = hex(&gen::bytes(&mut cx.rng, 32));
                mutate_str(&mut cx.rng, &h)
            }
            _ => long_text(&mut cx.rng).chars().take(200).collect(),
        });
    }
    let expected: Vec<Result<Vec<String>, String>> = inputs.iter().map(|s| catch(|| answers(s))).collect();
    let inputs = std::sync::Arc::new(inputs);
    let expected = std::sync::Arc::new(expected);
    let threads = cx.rng.gen_range(4..=8);
    let handles: Vec<std::thread::JoinHandle<Vec<String>>> = (0..threads)
        .map(|_| {
            let (inputs, expected, seed) = (inputs.clone(), expected.clone(), cx.rng.gen::<u64>());
            std::thread::spawn(move || {
                let mut rng = rand::rngs::StdRng::seed_from_u64(seed);
                let mut faults = vec![];
                for _ in 0..400 {
                    let i = rng.gen_range(0..inputs.len());
                    let got = catch(|| answers(&inputs[i]));
                    if got != expected[i] && faults.len() < 3 {
                        faults.push(format!("input {:?}: alone {:?}, among other threads {:?}", inputs[i].chars().take(80).collect::<String>(), expected[i], got));
                    }
                }
                faults
            })
        })
        .collect();
    for h in handles {
        match h.join() {
            Ok(faults) => {
                cx.count_n("concurrent-parses", 400 * 6);
                for f in faults {
                    cx.violation("concurrent:parser-answer-differs-between-threads", f, json!({"threads": threads}));
                }
            }
            Err(_) => cx.violation("concurrent:parser-thread-died", "a parsing thread died".to_string(), json!({"threads": threads})),
        }
    }
}

impl C17 {
    fn run_case_inner(&self, cx: &mut Cx) {
        if cx.index % 32 == 11 {
            concurrent_parsers(cx);
        }
        let mut t = T { cx };
        let rng_len = |t: &mut T| -> usize { *[0usize, 1, 2, 7, 8, 15, 16, 19, 20, 21, 31, 32, 33, 47, 48, 49, 79, 80, 81, 96, 200].choose(&mut t.cx.rng).expect("nonempty") };

        // ---- hex addresses
        for _ in 0..30 {
            let s = match t.cx.rng.gen_range(0..9) {
                0 => String::new(),
                1 => "0".into(),
                2 => "zz".into(),
                8 => long_text(&mut t.cx.rng),
                3 | 4 => {
                    let n = rng_len(&mut t);
                    hex_of_len(&mut t.cx.rng, n)
                }
                5 => {
                    // valid register address, mutated
                    let a = RegisterAddress::new(XorName(t.cx.rng.gen()), gen::bls_sk(&mut t.cx.rng).public_key());
                    mutate_str(&mut t.cx.rng, &a.to_hex())
                }
                6 => {
                    let a = ScratchpadAddress::new(gen::bls_sk(&mut t.cx.rng).public_key());
                    mutate_str(&mut t.cx.rng, &a.to_hex())
                }
                _ => {
                    let n = t.cx.rng.gen_range(0..40);
                    (0..n).map(|_| *['a', 'f', '0', '9', 'g', 'é', ' ', 'F'].choose(&mut t.cx.rng).expect("nonempty")).collect()
                }
            };
            t.run("RegisterAddress::from_hex", s.clone(), || RegisterAddress::from_hex(&s).is_ok());
            t.run("ScratchpadAddress::from_hex", s.clone(), || ScratchpadAddress::from_hex(&s).is_ok());
            t.run("DataMapChunk::from_hex", s.clone(), || DataMapChunk::from_hex(&s).is_ok());
            t.run("str_to_addr", s.clone(), || str_to_addr(&s).is_ok());
        }
        if t.cx.index % 50 == 0 {
            let long = "ab".repeat(512 * 1024);
            t.run("RegisterAddress::from_hex", format!("<{} hex chars>", long.len()), || RegisterAddress::from_hex(&long).is_ok());
            t.run("DataMapChunk::from_hex", format!("<{} hex chars>", long.len()), || DataMapChunk::from_hex(&long).is_ok());
            t.run("str_to_addr", format!("<{} hex chars>", long.len()), || str_to_addr(&long).is_ok());
        }
        // round trips
        {
            let ra = RegisterAddress::new(XorName(t.cx.rng.gen()), gen::bls_sk(&mut t.cx.rng).public_key());
            if t.run("RegisterAddress::from_hex", ra.to_hex(), || RegisterAddress::from_hex(&ra.to_hex()).ok()) != Some(Some(ra)) {
                t.rt_fail("RegisterAddress::from_hex", format!("from_hex(to_hex(x)) != x for {}", ra.to_hex()));
            }
            // a second register of ANOTHER owner under the same (user-chosen) meta, parsed right after the first: what the
            // first parse left behind must not answer for the second
            let rb = RegisterAddress::new(ra.meta(), gen::bls_sk(&mut t.cx.rng).public_key());
            if t.run("RegisterAddress::from_hex", rb.to_hex(), || RegisterAddress::from_hex(&rb.to_hex()).ok()) != Some(Some(rb)) {
                t.rt_fail("RegisterAddress::from_hex", format!("from_hex(to_hex(x)) != x for {} parsed after {} (same meta, other owner)", rb.to_hex(), ra.to_hex()));
            }
            // ... and the same meta followed by bytes that are no public key is still refused
            let bad = format!("{}{}", &ra.to_hex()[..64], "ff".repeat(48));
            if t.run("RegisterAddress::from_hex", bad.clone(), || RegisterAddress::from_hex(&bad).is_ok()) == Some(true) {
                t.rt_fail("RegisterAddress::from_hex", format!("from_hex accepted {bad}: a known meta followed by 48 bytes that are not a BLS public key"));
            }
            let sa = ScratchpadAddress::new(gen::bls_sk(&mut t.cx.rng).public_key());
            if t.run("ScratchpadAddress::from_hex", sa.to_hex(), || ScratchpadAddress::from_hex(&sa.to_hex()).ok()) != Some(Some(sa)) {
                t.rt_fail("ScratchpadAddress::from_hex", format!("from_hex(to_hex(x)) != x for {}", sa.to_hex()));
            }
            let x = XorName(t.cx.rng.gen());
            if t.run("str_to_addr", addr_to_str(x), || str_to_addr(&addr_to_str(x)).ok()) != Some(Some(x)) {
                t.rt_fail("str_to_addr", format!("str_to_addr(addr_to_str(x)) != x for {x:?}"));
            }
            let n = t.cx.rng.gen_range(0..300);
            let dm = DataMapChunk::from(ant_protocol::storage::Chunk::new(bytes::Bytes::from(gen::bytes(&mut t.cx.rng, n))));
            if t.run("DataMapChunk::from_hex", format!("<datamap {n} bytes>"), || DataMapChunk::from_hex(&dm.to_hex()).ok()) != Some(Some(dm.clone())) {
                t.rt_fail("DataMapChunk::from_hex", format!("from_hex(to_hex(x)) != x for a {n}-byte data map"));
            }
        }

        // ---- wallet blob
        for _ in 0..24 {
            // short / boundary lengths never reach the key derivation, so they are cheap
            let n = *[0usize, 1, 2, 3, 7, 8, 9, 11, 12, 19].choose(&mut t.cx.rng).expect("nonempty");
            let h = hex_of_len(&mut t.cx.rng, n);
            let s = if t.cx.rng.gen_bool(0.8) { h } else { mutate_str(&mut t.cx.rng, &h) };
            t.run("decrypt_private_key", s.clone(), || crate::wallet::encryption::decrypt_private_key(&s, "password").is_ok());
        }
        {
            // lengths at and beyond the header (salt 8 + nonce 12), incl. shorter than the 16-byte tag: costs a key derivation each
            let n = *[20usize, 21, 35, 36, 37, 60].choose(&mut t.cx.rng).expect("nonempty");
            let s = hex_of_len(&mut t.cx.rng, n);
            t.run("decrypt_private_key", s.clone(), || crate::wallet::encryption::decrypt_private_key(&s, "password").is_ok());
            // authentic ciphertext of hostile plaintext (what a tampered-with wallet file under the user's own password can hold)
            let plain: Vec<u8> = match t.cx.rng.gen_range(0..4) {
                0 => vec![],
                1 => vec![0xff, 0xfe, 0x80, 0x00],
                2 => gen::bytes_r(&mut t.cx.rng, 1, 70),
                _ => b"0x4c0883a69102937d6231471b5dbb6204fe5129617082792ae468d01a3f362318".to_vec(),
            };
            let blob = encrypt_bytes(&plain, "pw", t.cx.rng.gen(), t.cx.rng.gen());
            t.cx.count("wallet:authentic-ciphertexts");
            let res = t.run("decrypt_private_key", format!("<authentic ciphertext of plaintext {}>", hex(&plain)), || crate::wallet::encryption::decrypt_private_key(&blob, "pw").ok());
            if let (Some(got), Ok(expected)) = (res, String::from_utf8(plain.clone())) {
                if got.as_deref() != Some(expected.as_str()) {
                    t.rt_fail("decrypt_private_key", format!("decrypt(encrypt(x)) != x for plaintext {}", hex(&plain)));
                }
            }
        }

        // ---- ports
        let port_strings: Vec<String> = {
            let mut v: Vec<String> = ["", "0", "65535", "65536", "-1", "0-65535", "65534-65535", "65535-65535", "1-0", "1-2-3", "a-b", "12000-12010", " 80", "80 ", "+80", "0x50", "１２", "1-", "-", "99999999999999999999-1"].iter().map(|s| s.to_string()).collect();
            for _ in 0..6 {
                let a: u32 = t.cx.rng.gen_range(0..70_000);
                let b: u32 = t.cx.rng.gen_range(0..70_000);
                v.push(format!("{a}-{b}"));
                v.push(format!("{a}"));
            }
            v
        };
        for s in port_strings {
            let parsed = t.run("PortRange::parse", s.clone(), || PortRange::parse(&s).ok());
            if let Some(Some(range)) = parsed {
                for count in [0u16, 1, 2, 11, 65535] {
                    let r2 = range.clone();
                    t.run("PortRange::validate", format!("{s} count={count}"), move || r2.validate(count).is_ok());
                }
                // the consumer of an accepted port option: compare every port of it with the recorded ones
                let r4 = range.clone();
                t.run("check_port_availability", s.clone(), move || ant_node_manager::helpers::check_port_availability(&r4, &[]).is_ok());
                let r3 = range.clone();
                let start = t.run("get_start_port_if_applicable", s.clone(), move || get_start_port_if_applicable(Some(r3)));
                // what add_node does: walk the range by repeated increments
                if let Some(Some(start)) = start {
                    let end = match range {
                        PortRange::Single(p) => p,
                        PortRange::Range(_, e) => e,
                    };
                    let mut p = Some(end.max(start));
                    for _ in 0..2 {
                        let cur = p;
                        p = t.run("increment_port_option", format!("{cur:?}"), move || increment_port_option(cur)).flatten();
                    }
                }
            }
        }
        for p in [None, Some(0u16), Some(65534), Some(65535)] {
            t.run("increment_port_option", format!("{p:?}"), move || increment_port_option(p));
        }
        t.run("get_start_port_if_applicable", "None".into(), || get_start_port_if_applicable(None));

        // ---- amounts and multiaddrs
        for _ in 0..20 {
            let s: String = match t.cx.rng.gen_range(0..5) {
                0 => String::new(),
                1 => "9".repeat(t.cx.rng.gen_range(1..200)),
                2 => format!("{}.{}", "1".repeat(t.cx.rng.gen_range(0..80)), "3".repeat(t.cx.rng.gen_range(0..40))),
                3 => mutate_str(&mut t.cx.rng, "115792089237316195423570985008687907853269984665640564039457.584007913129639935"),
                _ => {
                    let n = t.cx.rng.gen_range(0..12);
                    (0..n).map(|_| *['1', '.', '-', 'e', ' ', '٣', '_', 'x'].choose(&mut t.cx.rng).expect("nonempty")).collect()
                }
            };
            t.run("AttoTokens::from_str", s.clone(), || AttoTokens::from_str(&s).is_ok());
        }
        for _ in 0..20 {
            let valid = "/ip4/127.0.0.1/udp/12000/quic-v1/p2p/12D3KooWRBhwfeP2Y4TCx1SM6s9rUoHhR5STiGwxBhgFRcw3UERE";
            let s: String = match t.cx.rng.gen_range(0..8) {
                0 => String::new(),
                1 => "/".into(),
                2 => mutate_str(&mut t.cx.rng, valid),
                6 => long_text(&mut t.cx.rng),
                7 => format!("{valid}{}", long_text(&mut t.cx.rng)),
                3 => format!("/ip4/{}.1.1.1/udp/{}/quic-v1", t.cx.rng.gen_range(0..300), t.cx.rng.gen_range(0..70000)),
                4 => "/p2p/".to_string() + &"1".repeat(t.cx.rng.gen_range(0..80)),
                _ => valid.replace("udp", ["tcp", "ws", "dns", "p2p-circuit", "ip6"].choose(&mut t.cx.rng).expect("nonempty")),
            };
            for ignore in [false, true] {
                let out = t.run("craft_valid_multiaddr_from_str", s.clone(), || ant_bootstrap::craft_valid_multiaddr_from_str(&s, ignore));
                // round trip: the crafted address, printed and parsed again, is unchanged
                if let Some(Some(a)) = out {
                    let printed = a.to_string();
                    let again = t.run("craft_valid_multiaddr_from_str", printed.clone(), || ant_bootstrap::craft_valid_multiaddr_from_str(&printed, ignore));
                    if again != Some(Some(a.clone())) {
                        t.rt_fail("craft_valid_multiaddr_from_str", format!("craft(print(craft(x))) != craft(x) for {s}"));
                    }
                }
            }
        }

        // ---- registry files
        {
            let good = sample_registry_json(&mut t.cx.rng);
            let txt = good.to_string();
            let parsed = t.run("NodeRegistry::from_json", format!("<valid registry, {} nodes>", good["nodes"].as_array().map(|a| a.len()).unwrap_or(0)), || NodeRegistry::from_json(&txt).ok());
            match parsed {
                Some(Some(reg)) => {
                    // formatter exists (save): what it writes must load back to the same registry
                    let dir = scratch_dir("c17");
                    let mut reg2 = reg.clone();
                    reg2.save_path = dir.join("registry.json");
                    let saved = t.run("NodeRegistry::save", "<valid registry>".into(), || reg2.save().is_ok());
                    if saved == Some(true) {
                        let p = reg2.save_path.clone();
                        let loaded = t.run("NodeRegistry::load", "<saved registry>".into(), || NodeRegistry::load(&p).ok());
                        // compared through Debug as well: the JSON comparison alone would go through the serialiser under test twice
                        let same = loaded.flatten().map(|l| serde_json::to_value(&l).ok() == serde_json::to_value(&reg2).ok() && format!("{l:?}") == format!("{reg2:?}")).unwrap_or(false);
                        if !same {
                            t.rt_fail("NodeRegistry::load", "load(save(registry)) != registry".into());
                        }
                        // hostile files through load()
                        for _ in 0..4 {
                            let mut bad = good.clone();
                            for _ in 0..t.cx.rng.gen_range(1..4) {
                                corrupt_json(&mut t.cx.rng, &mut bad, 0);
                            }
                            let mut bytes = bad.to_string().into_bytes();
                            if t.cx.rng.gen_bool(0.3) {
                                bytes.truncate(t.cx.rng.gen_range(0..bytes.len().max(1)));
                            }
                            if t.cx.rng.gen_bool(0.2) {
                                bytes = gen::bytes_r(&mut t.cx.rng, 0, 200);
                            }
                            std::fs::write(&p, &bytes).expect("write registry");
                            t.run("NodeRegistry::load", format!("<hostile registry file: {}>", String::from_utf8_lossy(&bytes).chars().take(300).collect::<String>()), || NodeRegistry::load(&p).is_ok());
                        }
                    }
                    let _ = std::fs::remove_dir_all(&dir);
                }
                Some(None) => t.cx.inconclusive("generated valid registry JSON does not parse (generator out of date)"),
                None => {}
            }
            for _ in 0..8 {
                let mut bad = good.clone();
                for _ in 0..t.cx.rng.gen_range(1..4) {
                    corrupt_json(&mut t.cx.rng, &mut bad, 0);
                }
                let s = if t.cx.rng.gen_bool(0.3) { mutate_str(&mut t.cx.rng, &bad.to_string()) } else { bad.to_string() };
                t.run("NodeRegistry::from_json", s.clone(), || NodeRegistry::from_json(&s).is_ok());
            }
        }

        // ---- bootstrap cache files (histories and stress live in C18)
        {
            let dir = scratch_dir("c17c");
            let path = dir.join("cache.json");
            let cfg = ant_bootstrap::BootstrapCacheConfig::empty().with_cache_path(&path).with_max_peers(3).with_addrs_per_peer(1);
            let nums: [u64; 10] = [0, 1, u32::MAX as u64, u32::MAX as u64 + 1, i64::MAX as u64 - 86_401, i64::MAX as u64 - t.cx.rng.gen_range(0..86_400), i64::MAX as u64, i64::MAX as u64 + 1, u64::MAX - 1, u64::MAX];
            for _ in 0..6 {
                // up to five peers more than the reader's limit of three (a file written under another configuration)
                let peers: serde_json::Map<String, Value> = (0..t.cx.rng.gen_range(1..9))
                    .map(|_| {
                        let p = libp2p::PeerId::random();
                        let addrs: Vec<Value> = (0..t.cx.rng.gen_range(1..4))
                            .map(|i| {
                                // mostly well-formed files with extreme but representable numbers (so that they load and
                                // reach clean-up and merging), some with unrepresentable ones
                                let now_s = std::time::SystemTime::now().duration_since(std::time::UNIX_EPOCH).map(|d| d.as_secs()).unwrap_or(0);
                                let count = |t: &mut T| -> u64 { if t.cx.rng.gen_bool(0.06) { nums[t.cx.rng.gen_range(0..4)] } else { *[0u64, 1, 3, 10, u32::MAX as u64 - 3, u32::MAX as u64 - 1, u32::MAX as u64].choose(&mut t.cx.rng).expect("nonempty") } };
                                let secs = if t.cx.rng.gen_bool(0.15) { nums[t.cx.rng.gen_range(0..10)] } else { *[now_s - 100, now_s, now_s + 1000, u32::MAX as u64].choose(&mut t.cx.rng).expect("nonempty") };
                                let nanos = if t.cx.rng.gen_bool(0.06) { nums[t.cx.rng.gen_range(0..4)] } else { *[0u64, 1, 999_999_999].choose(&mut t.cx.rng).expect("nonempty") };
                                let (sc, fc) = (count(&mut t), count(&mut t));
                                json!({"addr": format!("/ip4/10.0.0.{}/udp/1200/quic-v1/p2p/{p}", i + 1),
                                    "success_count": sc, "failure_count": fc,
                                    "last_seen": {"secs_since_epoch": secs, "nanos_since_epoch": nanos}})
                            })
                            .collect();
                        (p.to_string(), Value::Array(addrs))
                    })
                    .collect();
                let doc = json!({"peers": peers, "last_updated": {"secs_since_epoch": nums[t.cx.rng.gen_range(0..10)], "nanos_since_epoch": 0}, "network_version": "1_1.0"});
                let mut txt = doc.to_string();
                if t.cx.rng.gen_bool(0.2) {
                    txt = mutate_str(&mut t.cx.rng, &txt);
                }
                std::fs::write(&path, &txt).expect("write cache file");
                t.run("BootstrapCacheStore::load_cache_data", txt.chars().take(600).collect(), || ant_bootstrap::BootstrapCacheStore::load_cache_data(&cfg).is_ok());
                // ... and the same file read back and merged into a running store that knows one of its addresses
                // (with another last-seen time and a few more successes)
                if let Some((pid, _)) = doc["peers"].as_object().and_then(|o| o.iter().next()) {
                    let addr: Option<libp2p::Multiaddr> = format!("/ip4/10.0.0.1/udp/1200/quic-v1/p2p/{pid}").parse().ok();
                    if let (Some(addr), Ok(mut store)) = (addr, ant_bootstrap::BootstrapCacheStore::new(cfg.clone())) {
                        store.add_addr(addr.clone());
                        for _ in 0..3 {
                            store.update_addr_status(&addr, true);
                        }
                        let cfg2 = cfg.clone();
                        t.run("BootstrapCacheStore::sync_and_flush_to_disk", txt.chars().take(600).collect(), move || {
                            let r = store.sync_and_flush_to_disk(true).is_ok();
                            let _ = ant_bootstrap::BootstrapCacheStore::load_cache_data(&cfg2);
                            r
                        });
                        // the flush rewrote the file: put the hostile one back for the next round
                        let _ = std::fs::write(&path, &txt);
                    }
                }
            }
            let _ = std::fs::remove_dir_all(&dir);
        }

        // ---- record bytes and proofs (deeper coverage lives in C12 / C13)
        for _ in 0..10 {
            let n = *[0usize, 1, 2, 3, 4, 40].choose(&mut t.cx.rng).expect("nonempty");
            let mut b = gen::bytes(&mut t.cx.rng, n);
            if n >= 2 && t.cx.rng.gen_bool(0.7) {
                b[0] = 0x91;
                b[1] = t.cx.rng.gen_range(0..10);
            }
            // the key is stored bytes too: a peer chooses it (0, 1, 2, 3, 33, 64 bytes as well as the usual 32)
            let klen = *[32usize, 32, 0, 1, 2, 3, 33, 64].choose(&mut t.cx.rng).expect("nonempty");
            let r = gen::record(libp2p::kad::RecordKey::from(gen::bytes(&mut t.cx.rng, klen)), b.clone());
            t.run("RecordHeader::from_record", hex(&b), || ant_protocol::storage::RecordHeader::from_record(&r).is_ok());
            t.run("try_deserialize_record", hex(&b), || ant_protocol::storage::try_deserialize_record::<ant_protocol::storage::Chunk>(&r).is_ok());
        }
        {
            let proof = ant_evm::ProofOfPayment { peer_quotes: vec![(crate::c13::bad_encoded_peer_id(&mut t.cx.rng), ant_evm::PaymentQuote::zero())] };
            t.run("ProofOfPayment::payees", "<undecodable payee>".into(), || (proof.payees().len(), proof.verify_for(libp2p::PeerId::random()), proof.quotes_by_peer(&libp2p::PeerId::random()).len()));
        }
        if t.cx.index < 2 {
            t.cx.sample(json!({"kind": "inputs", "examples": ["RegisterAddress::from_hex(\"\")", "decrypt_private_key(<19 hex bytes>)", "PortRange::parse(\"0-65535\").validate(1)", "increment_port_option(Some(65535))", "NodeRegistry::load(<hostile json>)"]}));
        }
    }
}
