//! Payment-vault stub: a minimal blocking HTTP/1.1 JSON-RPC server on 127.0.0.1 (own OS threads)
//! answering `eth_call` for `IPaymentVault.verifyPayment` from a harness-controlled ledger.
//! The node reaches it through `EvmNetwork::new_custom(url, ..)` — no source change.

use alloy::sol_types::SolCall;
use evmlib::common::{Amount, U256};
use evmlib::contract::payment_vault::interface::IPaymentVault;
use std::collections::HashMap;
use std::io::{BufRead, BufReader, Read, Write};
use std::net::{TcpListener, TcpStream};
use std::sync::atomic::{AtomicBool, AtomicU64, Ordering};
use std::sync::{Arc, Mutex};

#[derive(Default)]
pub struct Ledger {
    /// quote hash -> (amount paid, valid)
    pub entries: HashMap<[u8; 32], (u128, bool)>,
    /// answer for hashes that are not in `entries`
    pub default_paid: Option<u128>,
    unavailable: bool,
}

pub struct VaultStub {
    pub url: String,
    pub ledger: Arc<Mutex<Ledger>>,
    pub calls: Arc<AtomicU64>,
    pub outstanding: Arc<AtomicU64>,
    /// quote hashes seen in verifyPayment calls, in order
    pub seen: Arc<Mutex<Vec<Vec<[u8; 32]>>>>,
    stop: Arc<AtomicBool>,
    port: u16,
}

impl VaultStub {
    pub fn start() -> Self {
        let listener = TcpListener::bind("127.0.0.1:0").expect("bind stub");
        let port = listener.local_addr().expect("addr").port();
        let ledger = Arc::new(Mutex::new(Ledger::default()));
        let calls = Arc::new(AtomicU64::new(0));
        let outstanding = Arc::new(AtomicU64::new(0));
        let seen = Arc::new(Mutex::new(vec![]));
        let stop = Arc::new(AtomicBool::new(false));
        {
            let (ledger, calls, outstanding, seen, stop) = (ledger.clone(), calls.clone(), outstanding.clone(), seen.clone(), stop.clone());
            std::thread::spawn(move || {
                for conn in listener.incoming() {
                    if stop.load(Ordering::SeqCst) {
                        break;
                    }
                    let Ok(stream) = conn else { continue };
                    let (ledger, calls, outstanding, seen) = (ledger.clone(), calls.clone(), outstanding.clone(), seen.clone());
                    std::thread::spawn(move || serve(stream, ledger, calls, outstanding, seen));
                }
            });
        }
        VaultStub { url: format!("http://127.0.0.1:{port}/"), ledger, calls, outstanding, seen, stop, port }
    }

    pub fn evm_network(&self) -> evmlib::Network {
        evmlib::Network::new_custom(&self.url, "0x5FbDB2315678afecb367f032d93F642f64180aa3", "0x8464135c8F25Da09e49BC8782676a84730C318bC")
    }

    pub fn set_paid(&self, hash: [u8; 32], amount: u128, valid: bool) {
        self.ledger.lock().expect("ledger").entries.insert(hash, (amount, valid));
    }
    pub fn set_default(&self, paid: Option<u128>) {
        self.ledger.lock().expect("ledger").default_paid = paid;
    }
    /// the endpoint answers every verifyPayment call with a JSON-RPC error (rate limited / node down)
    pub fn set_unavailable(&self, on: bool) {
        self.ledger.lock().expect("ledger").unavailable = on;
    }
}

impl Drop for VaultStub {
    fn drop(&mut self) {
        self.stop.store(true, Ordering::SeqCst);
        // unblock accept()
        let _ = TcpStream::connect(("127.0.0.1", self.port));
    }
}

fn serve(stream: TcpStream, ledger: Arc<Mutex<Ledger>>, calls: Arc<AtomicU64>, outstanding: Arc<AtomicU64>, seen: Arc<Mutex<Vec<Vec<[u8; 32]>>>>) {
    let _ = stream.set_nodelay(true);
    let mut reader = BufReader::new(stream.try_clone().expect("clone stream"));
    let mut stream = stream;
    loop {
        // request line + headers
        let mut content_length = 0usize;
        let mut first = true;
        loop {
            let mut line = String::new();
            match reader.read_line(&mut line) {
                Ok(0) | Err(_) => return,
                Ok(_) => {}
            }
            if first {
                first = false;
                if line.trim().is_empty() {
                    first = true;
                    continue;
                }
            }
            let l = line.trim_end();
            if l.is_empty() {
                break;
            }
            if let Some((k, v)) = l.split_once(':') {
                if k.eq_ignore_ascii_case("content-length") {
                    content_length = v.trim().parse().unwrap_or(0);
                }
            }
        }
        let mut body = vec![0u8; content_length];
        if reader.read_exact(&mut body).is_err() {
            return;
        }
        outstanding.fetch_add(1, Ordering::SeqCst);
        let reply = handle_body(&body, &ledger, &calls, &seen);
        let resp = format!("HTTP/1.1 200 OK\r\ncontent-type: application/json\r\ncontent-length: {}\r\nconnection: keep-alive\r\n\r\n{}", reply.len(), reply);
        let ok = stream.write_all(resp.as_bytes()).and_then(|_| stream.flush()).is_ok();
        outstanding.fetch_sub(1, Ordering::SeqCst);
        if !ok {
            return;
        }
    }
}

fn handle_body(body: &[u8], ledger: &Arc<Mutex<Ledger>>, calls: &Arc<AtomicU64>, seen: &Arc<Mutex<Vec<Vec<[u8; 32]>>>>) -> String {
    let v: serde_json::Value = serde_json::from_slice(body).unwrap_or(serde_json::Value::Null);
    let one = |req: &serde_json::Value| -> serde_json::Value {
        let id = req.get("id").cloned().unwrap_or(serde_json::json!(1));
        let method = req.get("method").and_then(|m| m.as_str()).unwrap_or("");
        let result = match method {
            "eth_call" => {
                let p0 = &req["params"][0];
                let data = p0.get("input").or_else(|| p0.get("data")).and_then(|d| d.as_str()).unwrap_or("0x");
                let bytes = hex::decode(data.trim_start_matches("0x")).unwrap_or_default();
                match IPaymentVault::verifyPaymentCall::abi_decode(&bytes, true) {
                    Ok(call) => {
                        calls.fetch_add(1, Ordering::SeqCst);
                        let l = ledger.lock().expect("ledger");
                        if l.unavailable {
                            return serde_json::json!({"jsonrpc": "2.0", "id": id, "error": {"code": -32005, "message": "rate limited"}});
                        }
                        let hashes: Vec<[u8; 32]> = call._payments.iter().map(|p| p.quoteHash.0).collect();
                        seen.lock().expect("seen").push(hashes.clone());
                        let mut answers: Vec<([u8; 32], u128, bool)> = hashes
                            .iter()
                            .map(|h| match l.entries.get(h) {
                                Some((a, v)) => (*h, *a, *v),
                                None => match l.default_paid {
                                    Some(a) => (*h, a, true),
                                    None => (*h, 0, false),
                                },
                            })
                            .collect();
                        // the contract reports three results: the best-paid three of those presented
                        answers.sort_by(|a, b| b.1.cmp(&a.1));
                        while answers.len() < 3 {
                            answers.push(([0u8; 32], 0, false));
                        }
                        let res: [IPaymentVault::PaymentVerificationResult; 3] = std::array::from_fn(|i| IPaymentVault::PaymentVerificationResult {
                            quoteHash: answers[i].0.into(),
                            amountPaid: Amount::from(answers[i].1),
                            isValid: answers[i].2,
                        });
                        let enc = IPaymentVault::verifyPaymentCall::abi_encode_returns(&(res,));
                        serde_json::json!(format!("0x{}", hex::encode(enc)))
                    }
                    Err(_) => serde_json::json!("0x"),
                }
            }
            "eth_chainId" => serde_json::json!("0x1"),
            "eth_blockNumber" => serde_json::json!("0x1"),
            _ => serde_json::json!("0x0"),
        };
        serde_json::json!({"jsonrpc": "2.0", "id": id, "result": result})
    };
    let _ = U256::ZERO;
    match &v {
        serde_json::Value::Array(a) => serde_json::Value::Array(a.iter().map(one).collect()).to_string(),
        other => one(other).to_string(),
    }
}
