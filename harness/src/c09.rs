//! C09 — records replicate to in-range neighbours and replicas converge.
//!
//! Two or three real nodes (driver + store + real Node layer) are wired together with the harness
//! as transport. Each is first given its own content while partitioned (replication-in and unpaid
//! update paths, so every held version is one the real validation accepted); then rounds of the real
//! periodic replication run (trigger -> Cmd::Replicate -> add_keys -> KeysToFetchForReplication ->
//! GetReplicatedRecord -> handle_query -> store_replicated_in_record) under a seeded scheduler.

use crate::common::*;
use crate::gen;
use crate::refmetric::{ref_distance, to_u256};
use crate::sim::{quic_addr, Policy, Sim};
use ant_protocol::storage::{try_deserialize_record, RecordType, Scratchpad, Transaction};
use ant_protocol::NetworkAddress;
use ant_registers::{Permissions, RegisterOp, SignedRegister};
use libp2p::kad::{Record, RecordKey};
use libp2p::PeerId;
use rand::{seq::SliceRandom, Rng};
use serde_json::json;
use std::collections::{BTreeMap, BTreeSet};
use xor_name::XorName;

pub struct C09;

#[derive(Clone, Copy, Debug, PartialEq, Eq, PartialOrd, Ord)]
pub(crate) enum Kind {
    Chunk,
    Pad,
    Tx,
    Reg,
}

struct KeyCase {
    kind: Kind,
    key: RecordKey,
    /// node -> the deliveries it is seeded with (in order)
    seeds: Vec<Vec<Record>>,
    owner: bls::SecretKey,
    /// registers: the base register (later waves extend what a node holds)
    reg_base: Option<SignedRegister>,
}

/// what a stored value means, per kind
#[derive(Clone, Debug, PartialEq, Eq)]
pub(crate) enum Held {
    None,
    Chunk(Vec<u8>),
    Pad(u64, Vec<u8>),
    Txs(BTreeSet<Transaction>),
    Reg(BTreeSet<RegisterOp>),
    Unreadable,
}

/// a stored transaction record that lists one transaction twice
pub(crate) fn tx_duplicates(rec: &Option<Record>) -> bool {
    match rec {
        Some(r) => match try_deserialize_record::<Vec<Transaction>>(r) {
            Ok(v) => v.iter().collect::<BTreeSet<_>>().len() != v.len(),
            Err(_) => false,
        },
        None => false,
    }
}

pub(crate) fn held(kind: Kind, rec: Option<Record>) -> Held {
    let Some(rec) = rec else { return Held::None };
    match kind {
        Kind::Chunk => Held::Chunk(rec.value),
        Kind::Pad => match try_deserialize_record::<Scratchpad>(&rec) {
            Ok(p) => Held::Pad(p.count(), rec.value),
            Err(_) => Held::Unreadable,
        },
        Kind::Tx => match try_deserialize_record::<Vec<Transaction>>(&rec) {
            Ok(v) => Held::Txs(v.into_iter().collect()),
            Err(_) => Held::Unreadable,
        },
        Kind::Reg => match try_deserialize_record::<SignedRegister>(&rec) {
            Ok(r) => Held::Reg(r.ops().clone()),
            Err(_) => Held::Unreadable,
        },
    }
}

fn in_range(sim: &Sim, node: usize, key: &RecordKey, range: &Option<ant_evm::U256>) -> bool {
    match range {
        None => true,
        Some(r) => to_u256(&ref_distance(&sim.nodes[node].peer.to_bytes(), key.as_ref())) <= *r,
    }
}

impl Check for C09 {
    fn id(&self) -> &'static str {
        "C09"
    }
    fn rule(&self) -> String {
        "each case (3 of 4): 2-3 real nodes that know each other, seeded while partitioned with 3-10 keys (chunks on one node; registers, transaction sets and scratchpads in different versions on several nodes: disjoint / overlapping / nested op sets, different counters, equal), optionally with a responsible range on the receivers; then up to 8 rounds in which every node runs the real periodic replication in random order under a FIFO or random scheduler (same-key order kept), 25 s of fetch-timer ageing between rounds. \
         Judged: (a) every advertisement a node sends lists exactly the (address, type) pairs its store holds, to exactly its replicate candidates; (b) after the rounds every node for which a key is in range holds it: chunks byte-identical to the holder's copy, registers with the union of all operations held anywhere, transaction sets with the union, scratchpads with the highest counter held anywhere; no node ever loses an operation / transaction or regresses a counter. The number of rounds until convergence is recorded. \
         each 4th case: one node with 22-45 routing-table peers receives advertisements of new keys from a holder that is (i) unknown, (ii) known but not among its K closest (reference metric), (iii) among them: fetches may be issued in case (iii) only, and are issued there. \
         Non-trivial: a case with at least two nodes holding different versions of a key, or an out-of-K advertiser; distinct = hash of (seeding plan, schedule)."
            .into()
    }
    fn assumptions(&self) -> Vec<String> {
        vec![
            "the harness is the transport between the real drivers; a fetch that cannot be served falls back to a network get that finds nothing".into(),
            "seeding uses the replication-in and unpaid-update paths (real validation, no payment), under a partition that drops every request".into(),
            "convergence is judged after 8 rounds, well above the 2-3 the exchange needs; nodes have spare capacity (default limits)".into(),
        ]
    }
    fn cases(&self, tier: Tier) -> u64 {
        tier.pick(640, 8_000)
    }
    fn min_nontrivial(&self, tier: Tier) -> u64 {
        tier.pick(300, 4_000)
    }
    fn shard_budget(&self, tier: Tier) -> std::time::Duration {
        tier.pick(std::time::Duration::from_secs(200), std::time::Duration::from_secs(2400))
    }
    fn required_counters(&self, _tier: Tier) -> Vec<&'static str> {
        vec!["kind:Chunk", "kind:Pad", "kind:Tx", "kind:Reg", "advertisements-checked", "divergent-keys:Reg", "divergent-keys:Tx", "divergent-keys:Pad", "advertiser:unknown", "advertiser:known-not-closest", "advertiser:closest", "chunks-replicated", "nodes:3", "ranged-cases", "seeding:direct-put", "seeding:through-validation"]
    }
    fn lane_cases(&self, tier: Tier) -> u64 {
        tier.pick(8, 64)
    }
    fn run_case(&self, cx: &mut Cx) {
        if cx.index >= LANE_BASE {
            return crate::realcases::c09_case(cx);
        }
        if cx.index % 4 == 3 {
            advertiser_case(cx)
        } else {
            convergence_case(cx)
        }
    }
}

fn convergence_case(cx: &mut Cx) {
    let root = scratch_dir("c09");
    let mut sim = Sim::new(cx.rng.gen(), false);
    let random_sched = cx.rng.gen_bool(0.5);
    sim.policy = if random_sched { Policy::Random } else { Policy::Fifo };
    sim.set_gates_controlled(random_sched);
    let n = if cx.rng.gen_bool(0.5) { 2 } else { 3 };
    cx.count(&format!("nodes:{n}"));
    for i in 0..n {
        let kp = gen::ed_keypair(&mut cx.rng);
        sim.add_node(kp, root.join(format!("n{i}")), true);
    }
    for i in 0..n {
        for j in 0..n {
            if i != j {
                let p = sim.nodes[j].peer;
                sim.nodes[i].drv.verif_add_peer(p, quic_addr(31_000 + j as u16));
            }
        }
        // a few more acquaintances that never answer
        let extra: Vec<PeerId> = (0..cx.rng.gen_range(0..3)).map(|_| PeerId::from(gen::ed_keypair(&mut cx.rng).public())).collect();
        sim.add_rt_peers(i, &extra);
    }

    // ---- the plan
    let nkeys = cx.rng.gen_range(3..=10);
    let mut keys: Vec<KeyCase> = vec![];
    for _ in 0..nkeys {
        let kind = *[Kind::Chunk, Kind::Chunk, Kind::Pad, Kind::Tx, Kind::Reg, Kind::Reg].choose(&mut cx.rng).expect("nonempty");
        cx.count(&format!("kind:{kind:?}"));
        let owner = gen::bls_sk(&mut cx.rng);
        let mut seeds: Vec<Vec<Record>> = vec![vec![]; n];
        // which nodes hold something
        let mut holders: Vec<usize> = (0..n).filter(|_| cx.rng.gen_bool(0.6)).collect();
        if holders.is_empty() {
            holders.push(cx.rng.gen_range(0..n));
        }
        let mut reg_base: Option<SignedRegister> = None;
        let key = match kind {
            Kind::Chunk => {
                let len = cx.rng.gen_range(1..400);
                let c = gen::chunk(&mut cx.rng, len);
                let r = gen::chunk_record(&c);
                for h in &holders {
                    seeds[*h].push(r.clone());
                }
                r.key
            }
            Kind::Pad => {
                let mut key = None;
                for h in &holders {
                    for _ in 0..cx.rng.gen_range(1..=2) {
                        let counter = cx.rng.gen_range(0..6u64);
                        let data = gen::bytes_r(&mut cx.rng, 1, 50);
                        let p = gen::pad(&owner, counter, &data, 0);
                        key = Some(gen::pad_key(&p));
                        seeds[*h].push(gen::pad_record(&p));
                    }
                }
                key.expect("holder")
            }
            Kind::Tx => {
                let key = gen::tx_key(&owner.public_key());
                let pool: Vec<Transaction> = (0..4).map(|_| gen::transaction(&mut cx.rng, &owner)).collect();
                for h in &holders {
                    for _ in 0..cx.rng.gen_range(1..=2) {
                        let k = cx.rng.gen_range(1..=3);
                        let v: Vec<Transaction> = pool.choose_multiple(&mut cx.rng, k).cloned().collect();
                        seeds[*h].push(gen::txs_record(key.clone(), &v));
                    }
                }
                key
            }
            Kind::Reg => {
                let writer = gen::bls_sk(&mut cx.rng);
                let base = gen::register(&owner, XorName(cx.rng.gen()), Permissions::new_with([writer.public_key()]));
                let addr = *base.address();
                reg_base = Some(base.clone());
                let pool: Vec<RegisterOp> = (0..6).map(|i| gen::reg_op(addr, vec![i as u8, cx.rng.gen()], BTreeSet::new(), if cx.rng.gen_bool(0.5) { &owner } else { &writer })).collect();
                // nested / overlapping / disjoint subsets
                let shape = cx.rng.gen_range(0..3);
                for (hi, h) in holders.iter().enumerate() {
                    for _ in 0..cx.rng.gen_range(1..=2) {
                        let mut r = base.clone();
                        let chosen: Vec<RegisterOp> = match shape {
                            0 => pool.iter().take(1 + hi * 2).cloned().collect(), // nested
                            1 => pool.iter().skip(hi * 2).take(2).cloned().collect(), // disjoint
                            _ => {
                                let k = cx.rng.gen_range(0..=4);
                                pool.choose_multiple(&mut cx.rng, k).cloned().collect()
                            }
                        };
                        for op in chosen {
                            let _ = r.add_op(op);
                        }
                        seeds[*h].push(gen::reg_record(&r));
                    }
                }
                gen::reg_key(&addr)
            }
        };
        keys.push(KeyCase { kind, key, seeds, owner, reg_base });
    }

    // ---- seed while partitioned
    sim.partitioned = true;
    let mut plan_sig: Vec<(usize, usize, usize)> = vec![];
    // In 40% of the cases the content is placed directly in the stores (what a node does once it HAS accepted a record,
    // i.e. the PutLocalRecord command), one version per holder: the exchange under test is then the only user of
    // the replication-side validation, so a record that path wrongly refuses cannot hide by never being seeded.
    let direct = cx.rng.gen_bool(0.4);
    cx.count(if direct { "seeding:direct-put" } else { "seeding:through-validation" });
    for (ki, kc) in keys.iter().enumerate() {
        for i in 0..n {
            if direct {
                if let Some(rec) = kc.seeds[i].last() {
                    let _g = sim.rt.enter();
                    let _ = sim.nodes[i].drv.verif_handle_local_cmd(ant_networking::verif::LocalSwarmCmd::PutLocalRecord { record: rec.clone() });
                    plan_sig.push((ki, i, rec.value.len()));
                }
                continue;
            }
            for (si, rec) in kc.seeds[i].iter().enumerate() {
                let node = sim.nodes[i].node.clone().expect("node layer");
                let unpaid_update = si > 0 && matches!(kc.kind, Kind::Reg | Kind::Pad) && cx.rng.gen_bool(0.4);
                let r2 = rec.clone();
                let out = sim.run_op(async move {
                    if unpaid_update {
                        node.validate_and_store_record(r2).await
                    } else {
                        node.store_replicated_in_record(r2).await
                    }
                });
                plan_sig.push((ki, i, rec.value.len()));
                if out.is_none() {
                    cx.inconclusive("seeding did not settle");
                    let _ = std::fs::remove_dir_all(&root);
                    return;
                }
            }
        }
    }
    let mut done = || true;
    if !sim.settle(&mut done) {
        cx.inconclusive("seeding did not settle");
        let _ = std::fs::remove_dir_all(&root);
        return;
    }
    for nd in sim.nodes.iter_mut() {
        nd.sent_replicates.clear();
        nd.dropped_requests.clear();
    }
    sim.partitioned = false;

    // ---- ranges
    let ranged = cx.rng.gen_bool(0.3);
    let mut ranges: Vec<Option<ant_evm::U256>> = vec![None; n];
    if ranged {
        cx.count("ranged-cases");
        for i in 0..n {
            if cx.rng.gen_bool(0.7) {
                // a threshold between the key distances
                let mut ds: Vec<ant_evm::U256> = keys.iter().map(|k| to_u256(&ref_distance(&sim.nodes[i].peer.to_bytes(), k.key.as_ref()))).collect();
                ds.sort();
                let r = ds[cx.rng.gen_range(0..ds.len())];
                sim.nodes[i].drv.verif_set_distance_range(r);
                ranges[i] = Some(r);
            }
        }
    }

    // ---- what is held after seeding, and what convergence means
    let snapshot = |sim: &mut Sim, keys: &Vec<KeyCase>| -> Vec<Vec<Held>> { keys.iter().map(|k| (0..n).map(|i| held(k.kind, sim.get_local(i, &k.key))).collect()).collect() };
    // ---- waves: the first exchange, and (one case in four) one or two later ones after new content has appeared on single
    //      nodes - whatever the nodes remember from the earlier exchange (fetch queues, throttles, issue books, version
    //      indexes) must not stand in the way of the later one
    let waves = if cx.rng.gen_bool(0.25) { cx.rng.gen_range(2..=3) } else { 1 };
    for wave in 0..waves {
        let start = snapshot(&mut sim, &keys);
        let mut divergent = false;
        let mut want: Vec<Held> = vec![];
        for (ki, kc) in keys.iter().enumerate() {
            let hs: Vec<&Held> = start[ki].iter().filter(|h| **h != Held::None).collect();
            let distinct: BTreeSet<String> = hs.iter().map(|h| format!("{h:?}")).collect();
            if distinct.len() >= 2 {
                divergent = true;
                cx.count(&format!("divergent-keys:{:?}", kc.kind));
            }
            let w = match kc.kind {
                Kind::Chunk => hs.first().map(|h| (*h).clone()).unwrap_or(Held::None),
                Kind::Pad => hs.iter().filter_map(|h| if let Held::Pad(c, v) = h { Some((*c, v.clone())) } else { None }).max_by_key(|(c, _)| *c).map(|(c, v)| Held::Pad(c, v)).unwrap_or(Held::None),
                Kind::Tx => Held::Txs(hs.iter().flat_map(|h| if let Held::Txs(s) = h { s.iter().cloned().collect::<Vec<_>>() } else { vec![] }).collect()),
                Kind::Reg => Held::Reg(hs.iter().flat_map(|h| if let Held::Reg(s) = h { s.iter().cloned().collect::<Vec<_>>() } else { vec![] }).collect()),
            };
            want.push(w);
        }

        // ---- rounds of the real periodic replication
        let rounds = 8;
        let mut converged_at: Option<usize> = None;
        let mut prev = start.clone();
        let wjson = |extra: serde_json::Value| json!({"nodes": n, "keys": keys.iter().map(|k| format!("{:?}", k.kind)).collect::<Vec<_>>(), "ranged": ranged, "random_schedule": random_sched, "detail": extra});
        let satisfied = |sim: &Sim, now: &Vec<Vec<Held>>| -> Vec<(usize, usize)> {
            let mut missing = vec![];
            for (ki, kc) in keys.iter().enumerate() {
                for i in 0..n {
                    if !in_range(sim, i, &kc.key, &ranges[i]) || want[ki] == Held::None {
                        continue;
                    }
                    let ok = match (&want[ki], &now[ki][i]) {
                        (Held::Pad(c, _), Held::Pad(c2, _)) => c2 >= c,
                        (w, h) => w == h,
                    };
                    if !ok {
                        missing.push((ki, i));
                    }
                }
            }
            missing
        };
        for round in 0..rounds {
            let mut order: Vec<usize> = (0..n).collect();
            order.shuffle(&mut cx.rng);
            let together = cx.rng.gen_bool(0.5);
            for i in order {
                sim.nodes[i].drv.verif_reset_replication_throttle();
                sim.nodes[i].drv.verif_fetcher_age(std::time::Duration::from_secs(25));
                // (a) the advertisement
                // what the node holds, typed from the *content it serves* (not from its own index): chunks as
                // Chunk, mutable kinds by the hash of the stored value (scratchpads: the marker is admitted too)
                let listed = sim.all_addresses(i);
                let mut held_now: BTreeSet<(Vec<u8>, String)> = BTreeSet::new();
                let mut pad_marker_ok: BTreeSet<Vec<u8>> = BTreeSet::new();
                for (a, _) in listed.iter() {
                    let k = a.to_record_key();
                    match sim.get_local(i, &k) {
                        Some(rec) => {
                            let is_chunk = ant_protocol::storage::RecordHeader::is_record_of_type_chunk(&rec).unwrap_or(false);
                            let t = if is_chunk { RecordType::Chunk } else { RecordType::NonChunk(XorName::from_content(&rec.value)) };
                            if matches!(ant_protocol::storage::RecordHeader::from_record(&rec).map(|h| h.kind), Ok(ant_protocol::storage::RecordKind::Scratchpad)) {
                                pad_marker_ok.insert(k.to_vec());
                            }
                            held_now.insert((k.to_vec(), format!("{t:?}")));
                        }
                        None => {
                            cx.violation("listed-record-not-readable", format!("node {i} lists a record it cannot serve"), json!({"round": round}));
                        }
                    }
                }
                let self_addr = NetworkAddress::from_peer(sim.nodes[i].peer);
                let candidates: BTreeSet<PeerId> = sim.nodes[i].drv.verif_get_replicate_candidates(&self_addr).into_iter().collect();
                let before = sim.nodes[i].sent_replicates.len();
                {
                    let _g = sim.rt.enter();
                    sim.nodes[i].network.trigger_interval_replication();
                }
                // the trigger itself (one local command) must be handled before anything else changes the store
                sim.collect();
                let pos = sim.nodes[i].local_q.iter().position(|c| format!("{c:?}").contains("TriggerIntervalReplication"));
                if let Some(p) = pos {
                    let cmd = sim.nodes[i].local_q.remove(p).expect("cmd");
                    let _g = sim.rt.enter();
                    let _ = sim.nodes[i].drv.verif_handle_local_cmd(cmd);
                }
                sim.collect();
                // the queued sends are in net_q now; compare them before they are delivered
                let mut sent_to: BTreeSet<PeerId> = BTreeSet::new();
                for c in sim.nodes[i].net_q.iter() {
                    if let ant_networking::verif::NetworkSwarmCmd::SendRequest { req: ant_protocol::messages::Request::Cmd(ant_protocol::messages::Cmd::Replicate { holder, keys: adv }), peer, .. } = c {
                        cx.eval();
                        cx.count("advertisements-checked");
                        sent_to.insert(*peer);
                        let adv_set: BTreeSet<(Vec<u8>, String)> = adv
                            .iter()
                            .map(|(a, t)| {
                                let k = a.to_record_key().to_vec();
                                if *t == RecordType::Scratchpad && pad_marker_ok.contains(&k) {
                                    // version-less marker: compare as the current version
                                    let cur = held_now.iter().find(|(hk, _)| *hk == k).map(|(_, ht)| ht.clone()).unwrap_or_default();
                                    (k, cur)
                                } else {
                                    (k, format!("{t:?}"))
                                }
                            })
                            .collect();
                        if *holder != self_addr {
                            cx.violation("advertisement-names-another-holder", format!("node {i} advertised as {holder:?}"), wjson(json!({"round": round})));
                        }
                        if adv_set != held_now {
                            let missing = held_now.difference(&adv_set).count();
                            let surplus = adv_set.difference(&held_now).count();
                            let stale = held_now.difference(&adv_set).filter(|(k, _)| adv_set.iter().any(|(ak, _)| ak == k)).count();
                            let sig = if stale > 0 { "record-advertised-with-a-version-it-does-not-hold" } else if missing > 0 { "held-record-not-advertised" } else { "advertised-record-not-held" };
                            cx.violation(sig, format!("node {i} round {round}: advertisement to {peer} lacks {missing} of {} held (address, version) pairs ({stale} with another version) and lists {surplus} it does not hold", held_now.len()), wjson(json!({"round": round})));
                        }
                    }
                }
                let _ = before;
                if !held_now.is_empty() && sent_to != candidates {
                    cx.violation("advertisement-not-sent-to-every-replication-target", format!("node {i} round {round}: sent to {} peers, replicate candidates are {}", sent_to.len(), candidates.len()), wjson(json!({"round": round})));
                }
                if !together {
                    let mut d = || true;
                    if !sim.settle(&mut d) {
                        cx.inconclusive("replication round did not settle");
                        let _ = std::fs::remove_dir_all(&root);
                        return;
                    }
                }
            }
            let mut d = || true;
            if !sim.settle(&mut d) {
                if sim.settle_ran_out_of_steps {
                    // a logical bound, not a clock: 400000 scheduler steps without quiescence for <= 3 nodes and <= 10 keys
                    cx.violation("replication-exchange-never-quiesces", format!("round {round}: the nodes were still fetching from each other after 400000 scheduler steps (a round normally needs a few thousand)"), wjson(json!({"round": round})));
                } else {
                    cx.inconclusive("replication round did not settle");
                }
                let _ = std::fs::remove_dir_all(&root);
                return;
            }
            // monotonicity + progress
            let now = snapshot(&mut sim, &keys);
            for (ki, kc) in keys.iter().enumerate() {
                if kc.kind == Kind::Tx {
                    for i in 0..n {
                        let rec = sim.get_local(i, &kc.key);
                        if tx_duplicates(&rec) {
                            cx.violation("stored-transaction-set-lists-a-transaction-twice", format!("round {round}: node {i} stores key {ki} as a list in which one transaction occurs more than once (the record grows with every exchange and never equals its neighbour's)"), wjson(json!({"round": round})));
                        }
                    }
                }
            }
            for (ki, kc) in keys.iter().enumerate() {
                for i in 0..n {
                    cx.eval();
                    let regress = match (&prev[ki][i], &now[ki][i]) {
                        (Held::None, _) => false,
                        (_, Held::None) => true,
                        (Held::Pad(c0, _), Held::Pad(c1, _)) => c1 < c0,
                        (Held::Txs(a), Held::Txs(b)) => !a.is_subset(b),
                        (Held::Reg(a), Held::Reg(b)) => !a.is_subset(b),
                        (Held::Chunk(a), Held::Chunk(b)) => a != b,
                        (_, Held::Unreadable) => true,
                        _ => false,
                    };
                    if regress {
                        cx.violation(format!("replication-lost-content:{:?}", kc.kind), format!("node {i} key {ki} went from {:?} to {:?} in round {round}", short(&prev[ki][i]), short(&now[ki][i])), wjson(json!({"round": round})));
                    }
                }
            }
            if converged_at.is_none() && satisfied(&sim, &now).is_empty() {
                converged_at = Some(round + 1);
            }
            prev = now;
        }
        cx.nontrivial(&(&plan_sig, sim.schedule_hash(), ranged, wave));
        if divergent {
            cx.count("cases-with-divergent-versions");
        }
        let missing = satisfied(&sim, &prev);
        match converged_at {
            Some(r) if missing.is_empty() => {
                cx.count(&format!("converged-after-rounds:{r}"));
                cx.sample(json!({"nodes": n, "keys": keys.len(), "converged_after_rounds": r, "ranged": ranged, "steps": sim.steps}));
            }
            _ => {}
        }
        let mut reported: BTreeSet<String> = BTreeSet::new();
        for (ki, i) in missing {
            let kc = &keys[ki];
            let sig = match (&kc.kind, &prev[ki][i]) {
                (Kind::Chunk, Held::None) => "chunk-not-replicated-to-in-range-neighbour".to_string(),
                (Kind::Chunk, _) => "chunk-copy-differs".to_string(),
                (k, Held::None) => format!("{k:?}-not-replicated-to-in-range-neighbour"),
                (k, _) => format!("{k:?}-versions-not-converged"),
            };
            if reported.insert(sig.clone()) {
                cx.violation(sig, format!("after {rounds} rounds node {i} holds {} for key {ki}, the merged state is {}", short(&prev[ki][i]), short(&want[ki])), wjson(json!({"key": ki, "node": i})));
            }
        }
        for (ki, kc) in keys.iter().enumerate() {
            if kc.kind == Kind::Chunk && (0..n).any(|i| start[ki][i] == Held::None && prev[ki][i] != Held::None) {
                cx.count("chunks-replicated");
            }
        }
        if wave + 1 >= waves {
            break;
        }
        cx.count("later-waves");
        // ---- new content appears on single nodes (placed directly, as a node does once it has accepted a record)
        let mut changed = 0;
        for ki in 0..keys.len() {
            if !cx.rng.gen_bool(0.6) {
                continue;
            }
            let node_i = cx.rng.gen_range(0..n);
            let rec: Option<Record> = match (keys[ki].kind, &prev[ki][node_i]) {
                (Kind::Pad, _) => {
                    let top = (0..n).filter_map(|i| if let Held::Pad(c, _) = &prev[ki][i] { Some(*c) } else { None }).max().unwrap_or(0);
                    Some(gen::pad_record(&gen::pad(&keys[ki].owner, top + cx.rng.gen_range(1..4), &gen::bytes_r(&mut cx.rng, 1, 50), 0)))
                }
                (Kind::Tx, Held::Txs(have)) => {
                    let mut v: Vec<Transaction> = have.iter().cloned().collect();
                    v.push(gen::transaction(&mut cx.rng, &keys[ki].owner));
                    Some(gen::txs_record(keys[ki].key.clone(), &v))
                }
                (Kind::Reg, Held::Reg(have)) => keys[ki].reg_base.clone().map(|mut r| {
                    for op in have.iter() {
                        let _ = r.add_op(op.clone());
                    }
                    let addr = *r.address();
                    let _ = r.add_op(gen::reg_op(addr, vec![200 + wave as u8, cx.rng.gen(), cx.rng.gen()], BTreeSet::new(), &keys[ki].owner));
                    gen::reg_record(&r)
                }),
                _ => None,
            };
            if let Some(rec) = rec {
                let _g = sim.rt.enter();
                let _ = sim.nodes[node_i].drv.verif_handle_local_cmd(ant_networking::verif::LocalSwarmCmd::PutLocalRecord { record: rec });
                changed += 1;
            }
        }
        // and a brand-new chunk on one node
        {
            let c = gen::chunk(&mut cx.rng, 120);
            let r = gen::chunk_record(&c);
            let node_i = cx.rng.gen_range(0..n);
            let _g = sim.rt.enter();
            let _ = sim.nodes[node_i].drv.verif_handle_local_cmd(ant_networking::verif::LocalSwarmCmd::PutLocalRecord { record: r.clone() });
            keys.push(KeyCase { kind: Kind::Chunk, key: r.key, seeds: vec![vec![]; n], owner: gen::bls_sk(&mut cx.rng), reg_base: None });
            changed += 1;
        }
        cx.count_n("later-waves:records-changed-on-single-nodes", changed);
        let mut d = || true;
        if !sim.settle(&mut d) {
            cx.inconclusive("seeding of a later wave did not settle");
            let _ = std::fs::remove_dir_all(&root);
            return;
        }
    }
    drop(sim);
    let _ = std::fs::remove_dir_all(&root);
}

fn short(h: &Held) -> String {
    match h {
        Held::None => "nothing".into(),
        Held::Chunk(v) => format!("chunk[{}B]", v.len()),
        Held::Pad(c, _) => format!("pad#{c}"),
        Held::Txs(s) => format!("{} txs", s.len()),
        Held::Reg(s) => format!("{} ops", s.len()),
        Held::Unreadable => "unreadable".into(),
    }
}

/// advertisements are acted on only when the holder is among the K closest known peers
fn advertiser_case(cx: &mut Cx) {
    let root = scratch_dir("c09a");
    let mut sim = Sim::new(cx.rng.gen(), false);
    sim.policy = Policy::Fifo;
    sim.set_gates_controlled(false);
    let kp = gen::ed_keypair(&mut cx.rng);
    sim.add_node(kp, root.join("n0"), true);
    let me = sim.nodes[0].peer;
    let npeers = cx.rng.gen_range(22..=45);
    let peers: Vec<PeerId> = (0..npeers).map(|_| PeerId::from(gen::ed_keypair(&mut cx.rng).public())).collect();
    let added = sim.add_rt_peers(0, &peers);
    // reference: the K (=20) closest of the peers that made it into the table
    let mut by_d: Vec<(ant_evm::U256, PeerId)> = added.iter().map(|p| (to_u256(&ref_distance(&me.to_bytes(), &p.to_bytes())), *p)).collect();
    by_d.sort();
    // the code's closest-K list starts with the node itself, so K-1 others are certainly inside; the
    // peer of rank K is the boundary and is not judged either way
    let k = 20usize;
    let closest: BTreeSet<PeerId> = by_d.iter().take(k - 1).map(|(_, p)| *p).collect();
    let far: Vec<PeerId> = by_d.iter().skip(k).map(|(_, p)| *p).collect();
    let mode = cx.rng.gen_range(0..4);
    let (holder, label): (PeerId, &str) = match mode {
        0 => (PeerId::from(gen::ed_keypair(&mut cx.rng).public()), "unknown"),
        1 if !far.is_empty() => (*far.choose(&mut cx.rng).expect("nonempty"), "known-not-closest"),
        2 => (me, "self"),
        _ => (*closest.iter().nth(cx.rng.gen_range(0..closest.len())).expect("nonempty"), "closest"),
    };
    cx.count(&format!("advertiser:{label}"));
    let nk = cx.rng.gen_range(1..=6);
    let adv: Vec<(NetworkAddress, RecordType)> = (0..nk)
        .map(|_| {
            let len = cx.rng.gen_range(1..40);
            let c = gen::chunk(&mut cx.rng, len);
            (c.network_address(), RecordType::Chunk)
        })
        .collect();
    {
        let _g = sim.rt.enter();
        sim.nodes[0].drv.verif_handle_replicate(NetworkAddress::from_peer(holder), adv.clone());
    }
    sim.auto_events = false;
    for _ in 0..20 {
        if !sim.step() {
            break;
        }
    }
    sim.collect();
    cx.eval();
    let snap = sim.nodes[0].drv.verif_fetcher_snapshot();
    let queued = snap.to_be_fetched.len() + snap.on_going_fetches.len();
    let fetch_events = sim.nodes[0].event_q.iter().chain(sim.nodes[0].kept_events.iter()).filter(|e| matches!(e, ant_networking::NetworkEvent::KeysToFetchForReplication(_))).count();
    let w = json!({"advertiser": label, "routing_table": added.len(), "keys": nk, "queued": queued, "fetch_events": fetch_events});
    if label != "closest" {
        cx.nontrivial(&(label, added.len(), nk, holder.to_bytes()));
    }
    match label {
        "closest" => {
            if fetch_events == 0 || queued == 0 {
                cx.violation("advertisement-from-close-peer-ignored", format!("a holder among the {k} closest advertised {nk} new keys: {fetch_events} fetch events, {queued} fetcher entries"), w);
            } else {
                cx.sample(w);
            }
        }
        _ => {
            if fetch_events > 0 || queued > 0 {
                cx.violation(format!("advertisement-from-{label}-peer-acted-on"), format!("{fetch_events} fetch events, {queued} fetcher entries after an advertisement from a holder that is {label}"), w);
            }
        }
    }
    drop(sim);
    let _ = std::fs::remove_dir_all(&root);
}

#[allow(dead_code)]
fn _unused(_: BTreeMap<u8, u8>) {}
