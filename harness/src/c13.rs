//! C13 — payment quotes are bound to their signer and to every signed field.

use crate::common::*;
use ant_evm::{EncodedPeerId, PaymentQuote, ProofOfPayment, QuotingMetrics, RewardsAddress};
use libp2p::identity::Keypair;
use libp2p::PeerId;
use rand::{seq::SliceRandom, Rng};
use serde_json::json;
use std::time::{Duration, SystemTime};
use xor_name::XorName;

pub struct C13;

pub fn keypair(rng: &mut impl Rng) -> Keypair {
    let mut seed = [0u8; 32];
    rng.fill(&mut seed);
    Keypair::ed25519_from_bytes(seed).expect("ed25519 from 32 bytes")
}

fn random_metrics(rng: &mut impl Rng) -> QuotingMetrics {
    QuotingMetrics {
        close_records_stored: rng.gen_range(0..20_000),
        max_records: rng.gen_range(1..20_000),
        received_payment_count: rng.gen_range(0..1_000),
        live_time: rng.gen_range(0..1_000_000),
        network_density: if rng.gen_bool(0.5) { Some(rng.gen()) } else { None },
        network_size: if rng.gen_bool(0.5) { Some(rng.gen_range(0..10_000_000)) } else { None },
    }
}

pub fn signed_quote(
    kp: &Keypair,
    content: XorName,
    timestamp: SystemTime,
    metrics: QuotingMetrics,
    rewards: RewardsAddress,
) -> PaymentQuote {
    let bytes = PaymentQuote::bytes_for_signing(content, timestamp, &metrics, &rewards);
    PaymentQuote {
        content,
        timestamp,
        quoting_metrics: metrics,
        rewards_address: rewards,
        pub_key: kp.public().encode_protobuf(),
        signature: kp.sign(&bytes).expect("sign"),
    }
}

fn resign(kp: &Keypair, q: &mut PaymentQuote) {
    q.pub_key = kp.public().encode_protobuf();
    q.signature = kp.sign(&q.bytes_for_sig()).expect("sign");
}

fn random_quote(rng: &mut impl Rng, kp: &Keypair) -> PaymentQuote {
    // whole seconds plus random nanos, within the last half hour
    let ts = SystemTime::now() - Duration::from_secs(rng.gen_range(0..1800)) - Duration::from_nanos(rng.gen_range(0..1_000_000_000));
    signed_quote(kp, XorName(rng.gen()), ts, random_metrics(rng), RewardsAddress::from(rng.gen::<[u8; 20]>()))
}

pub fn bad_encoded_peer_id(rng: &mut impl Rng) -> EncodedPeerId {
    // EncodedPeerId is a serde newtype around Vec<u8>; build an undecodable one through serde
    loop {
        let n = rng.gen_range(0..40);
        let bytes: Vec<u8> = (0..n).map(|_| rng.gen()).collect();
        let enc = rmp_serde::to_vec(&bytes).expect("encode");
        let e: EncodedPeerId = rmp_serde::from_slice(&enc).expect("decode newtype");
        if e.to_peer_id().is_err() {
            return e;
        }
    }
}

/// Mutations of one signed field; returns a label. `whole_second` tells whether the signed
/// representation of the quote changed (sub-second timestamp changes are not signed: by design).
fn mutate_field(rng: &mut impl Rng, q: &mut PaymentQuote, field: usize, other: &Keypair) -> (&'static str, bool) {
    match field {
        0 => {
            let i = rng.gen_range(0..32);
            q.content.0[i] ^= 1 << rng.gen_range(0..8);
            ("content", true)
        }
        1 => {
            let d = Duration::from_secs(rng.gen_range(1..100_000));
            q.timestamp = if rng.gen_bool(0.5) { q.timestamp + d } else { q.timestamp - d };
            ("timestamp-seconds", true)
        }
        2 => {
            q.quoting_metrics.close_records_stored ^= 1 << rng.gen_range(0..20);
            ("metrics.close_records_stored", true)
        }
        3 => {
            q.quoting_metrics.max_records ^= 1 << rng.gen_range(0..20);
            ("metrics.max_records", true)
        }
        4 => {
            q.quoting_metrics.received_payment_count ^= 1 << rng.gen_range(0..20);
            ("metrics.received_payment_count", true)
        }
        5 => {
            q.quoting_metrics.live_time ^= 1 << rng.gen_range(0..40);
            ("metrics.live_time", true)
        }
        6 => {
            q.quoting_metrics.network_density = match q.quoting_metrics.network_density {
                None => Some(rng.gen()),
                Some(mut d) => {
                    if rng.gen_bool(0.3) {
                        None
                    } else {
                        d[rng.gen_range(0..32)] ^= 1 << rng.gen_range(0..8);
                        Some(d)
                    }
                }
            };
            ("metrics.network_density", true)
        }
        7 => {
            q.quoting_metrics.network_size = match q.quoting_metrics.network_size {
                None => Some(rng.gen_range(0..1000)),
                Some(s) => {
                    if rng.gen_bool(0.3) {
                        None
                    } else {
                        Some(s ^ (1 << rng.gen_range(0..30)))
                    }
                }
            };
            ("metrics.network_size", true)
        }
        8 => {
            let mut a = q.rewards_address.0 .0;
            a[rng.gen_range(0..20)] ^= 1 << rng.gen_range(0..8);
            q.rewards_address = RewardsAddress::from(a);
            ("rewards_address", true)
        }
        9 => {
            q.pub_key = other.public().encode_protobuf();
            ("pub_key-other-node", true)
        }
        10 => {
            let choice = if q.signature.is_empty() { 2 } else { rng.gen_range(0..4) };
            match choice {
                0 => {
                    let i = rng.gen_range(0..q.signature.len());
                    q.signature[i] ^= 1 << rng.gen_range(0..8);
                }
                1 => {
                    let n = rng.gen_range(0..q.signature.len());
                    q.signature.truncate(n);
                }
                2 => q.signature = other.sign(&q.bytes_for_sig()).expect("sign"),
                _ => q.signature = vec![],
            }
            ("signature", true)
        }
        11 => {
            let n = rng.gen_range(0..50);
            q.pub_key = (0..n).map(|_| rng.gen()).collect();
            ("pub_key-garbage", true)
        }
        _ => {
            // sub-second timestamp change within the same whole second: not part of the signed bytes
            let secs = q.timestamp.duration_since(SystemTime::UNIX_EPOCH).expect("after epoch").as_secs();
            q.timestamp = SystemTime::UNIX_EPOCH + Duration::from_secs(secs) + Duration::from_nanos(rng.gen_range(0..1_000_000_000));
            ("timestamp-subsecond", false)
        }
    }
}

fn quote_json(q: &PaymentQuote) -> serde_json::Value {
    json!({
        "content": hex(&q.content.0),
        "timestamp_s": q.timestamp.duration_since(SystemTime::UNIX_EPOCH).map(|d| d.as_secs_f64()).unwrap_or(-1.0),
        "metrics": format!("{:?}", q.quoting_metrics),
        "rewards": format!("{:?}", q.rewards_address),
        "pub_key": hex(&q.pub_key), "signature": hex(&q.signature),
    })
}

impl Check for C13 {
    fn id(&self) -> &'static str {
        "C13"
    }
    fn rule(&self) -> String {
        "each case: one authentically signed quote (ed25519 libp2p key, random fields) then (a) 13 single-field mutations and 6 random multi-field mutations judged for verification==false and hash change, \
         plus re-signed controls; (b) 8 proofs of 1-5 quotes with 0-2 faulty entries (foreign signer, mutated field, undecodable payee id) at random positions, verify_for judged for every payee and for outsiders; \
         (c) expiry at now-{0,10,3598,3603,7200,1e6}s and now+{2,60,3600}s for quotes and proofs (boundary samples judged only if two clock readings bracketing the call agree); \
         (d) historical_verify on later quotes reporting less uptime / fewer payments, both argument orders. distinct_nontrivial counts distinct (base quote, mutation kind) pairs and proof compositions containing at least one faulty entry."
            .into()
    }
    fn assumptions(&self) -> Vec<String> {
        vec![
            "sub-second timestamp changes are not covered by the signature by design (the signed form is whole seconds); they are counted, not judged".into(),
            "only ed25519 identities are available in the libp2p-identity build of this workspace".into(),
            "the 'if' direction (authentic quotes do verify, consistent quote pairs are not flagged) is a sanity control: its failure is reported as inconclusive, not as a violation, because the statement only demands 'only if'".into(),
        ]
    }
    fn hang_cpu_budget(&self, _tier: Tier) -> Option<std::time::Duration> {
        // a case of this check is a few milliseconds of computation; one that has burnt two minutes of CPU time is not coming back
        Some(std::time::Duration::from_secs(120))
    }
    fn cases(&self, tier: Tier) -> u64 {
        tier.pick(9_000, 60_000)
    }
    fn min_nontrivial(&self, tier: Tier) -> u64 {
        tier.pick(30_000, 200_000)
    }
    fn required_counters(&self, _tier: Tier) -> Vec<&'static str> {
        vec!["mut:content", "mut:signature", "proof:faulty", "expiry:judged", "historical:judged", "node:duty-events", "node:own-quote-forged", "node:history-steps", "node:late-older-quotes", "node:inconsistent-quotes", "node:peer-left-the-routing-table-between-quotes", "historical:later-quote-dated-ahead-of-our-clock"]
    }
    fn lane_cases(&self, tier: Tier) -> u64 {
        tier.pick(6, 48)
    }
    fn run_case(&self, cx: &mut Cx) {
        if cx.index >= LANE_BASE {
            return crate::realcases::c13_case(cx);
        }
        // every 8th case runs the node's quote-verification duty and the driver's per-peer quote history
        if cx.index % 8 == 7 {
            return node_case(cx);
        }
        if cx.index % 64 == 5 {
            concurrent_verification(cx);
        }
        let kp = keypair(&mut cx.rng);
        let other = keypair(&mut cx.rng);
        let peer = PeerId::from(kp.public());
        let base = random_quote(&mut cx.rng, &kp);
        let base_hash = base.hash();
        cx.eval();
        if !base.check_is_signed_by_claimed_peer(peer) {
            cx.inconclusive("authentic quote does not verify for its signer (sanity control)");
            return;
        }
        if cx.index < 2 {
            cx.sample(json!({"kind": "base-quote", "quote": quote_json(&base)}));
        }
        // (a) single-field mutations
        for field in 0..13 {
            let mut q = base.clone();
            let (label, signed_change) = mutate_field(&mut cx.rng, &mut q, field, &other);
            if q == base {
                continue;
            }
            cx.eval();
            if !signed_change {
                cx.count("not-judged:timestamp-subsecond");
                continue;
            }
            cx.count(&format!("mut:{}", label.split('-').next().unwrap_or(label).split('.').next().unwrap_or(label)));
            cx.nontrivial(&(base_hash.0, label));
            for claimed in [peer, PeerId::from(other.public())] {
                if q.check_is_signed_by_claimed_peer(claimed) {
                    cx.violation(
                        format!("quote-verifies-after-mutation:{label}"),
                        format!("quote still verifies for {claimed} after altering {label}"),
                        json!({"base": quote_json(&base), "mutated": quote_json(&q), "field": label, "claimed": claimed.to_string()}),
                    );
                }
            }
            if q.hash() == base_hash {
                cx.violation(format!("hash-unchanged:{label}"), format!("hash() unchanged after altering {label}"), json!({"base": quote_json(&base), "mutated": quote_json(&q)}));
            }
        }
        // multi-field
        for _ in 0..6 {
            let mut q = base.clone();
            let n = cx.rng.gen_range(2..5);
            let mut labels = vec![];
            for _ in 0..n {
                let f = cx.rng.gen_range(0..12);
                labels.push(mutate_field(&mut cx.rng, &mut q, f, &other).0);
            }
            if q.bytes_for_sig() == base.bytes_for_sig() && q.pub_key == base.pub_key && q.signature == base.signature {
                continue;
            }
            cx.eval();
            cx.count("mut:multi");
            cx.nontrivial(&(base_hash.0, &labels));
            if q.check_is_signed_by_claimed_peer(peer) {
                cx.violation("quote-verifies-after-mutation:multi", format!("quote still verifies after altering {labels:?}"), json!({"base": quote_json(&base), "mutated": quote_json(&q)}));
            }
        }
        // claimed identity
        cx.eval();
        if base.check_is_signed_by_claimed_peer(PeerId::from(other.public())) || base.check_is_signed_by_claimed_peer(PeerId::random()) {
            cx.violation("quote-verifies-for-other-identity", "authentic quote verifies for a peer that did not sign it", json!({"quote": quote_json(&base)}));
        }
        // re-signed control: a mutated and re-signed quote is authentic again
        {
            let mut q = base.clone();
            let f = cx.rng.gen_range(0..9);
            mutate_field(&mut cx.rng, &mut q, f, &other);
            resign(&kp, &mut q);
            cx.eval();
            if !q.check_is_signed_by_claimed_peer(peer) {
                cx.inconclusive("re-signed quote does not verify (sanity control)");
            }
        }

        // (b) proofs
        for _ in 0..8 {
            let n = cx.rng.gen_range(1..=5usize);
            let keys: Vec<Keypair> = (0..n).map(|_| keypair(&mut cx.rng)).collect();
            let mut entries: Vec<(EncodedPeerId, PaymentQuote)> = keys
                .iter()
                .map(|k| (EncodedPeerId::from(PeerId::from(k.public())), random_quote(&mut cx.rng, k)))
                .collect();
            // independent bookkeeping per entry: who is claimed, who signed, was it tampered with
            let mut claimed: Vec<Option<PeerId>> = keys.iter().map(|k| Some(PeerId::from(k.public()))).collect();
            let mut signer: Vec<PeerId> = keys.iter().map(|k| PeerId::from(k.public())).collect();
            let mut tampered = vec![false; n];
            // the authentically signed quote each entry started from (two mutations of one field can cancel out)
            let mut orig: Vec<PaymentQuote> = entries.iter().map(|(_, q)| q.clone()).collect();
            let nfaults = *[0usize, 0, 1, 1, 1, 2].choose(&mut cx.rng).expect("nonempty");
            let mut kinds = vec![];
            for _ in 0..nfaults {
                let i = cx.rng.gen_range(0..n);
                match cx.rng.gen_range(0..4) {
                    0 => {
                        // quote signed by a different node than the claimed payee
                        entries[i].1 = random_quote(&mut cx.rng, &other);
                        orig[i] = entries[i].1.clone();
                        signer[i] = PeerId::from(other.public());
                        tampered[i] = false;
                        kinds.push(format!("foreign-signer@{i}"));
                    }
                    1 => {
                        let f = cx.rng.gen_range(0..11);
                        let before = entries[i].1.clone();
                        let (l, _) = mutate_field(&mut cx.rng, &mut entries[i].1, f, &other);
                        if entries[i].1 != before {
                            tampered[i] = true;
                            kinds.push(format!("{l}@{i}"));
                        }
                    }
                    2 => {
                        entries[i].0 = bad_encoded_peer_id(&mut cx.rng);
                        claimed[i] = None;
                        kinds.push(format!("undecodable-payee@{i}"));
                    }
                    _ => {
                        // claimed payee is someone else than the signer
                        entries[i].0 = EncodedPeerId::from(PeerId::from(other.public()));
                        claimed[i] = Some(PeerId::from(other.public()));
                        kinds.push(format!("claimed-payee-not-signer@{i}"));
                    }
                }
            }
            if cx.rng.gen_bool(0.15) && n >= 2 {
                // duplicate an entry
                let i = cx.rng.gen_range(0..n);
                entries.push(entries[i].clone());
                orig.push(orig[i].clone());
                claimed.push(claimed[i]);
                signer.push(signer[i]);
                tampered.push(tampered[i]);
                kinds.push(format!("dup@{i}"));
            }
            if cx.rng.gen_bool(0.15) {
                // a payee listed twice: an altered copy of its quote AHEAD of the entry itself (whoever looks quotes up by
                // payee must not lose sight of the altered one)
                let i = cx.rng.gen_range(0..entries.len());
                let mut copy = entries[i].clone();
                let f = cx.rng.gen_range(0..11);
                let (l, _) = mutate_field(&mut cx.rng, &mut copy.1, f, &other);
                if copy.1 != entries[i].1 && copy.1 != orig[i] {
                    entries.insert(i, copy);
                    orig.insert(i, orig[i].clone());
                    claimed.insert(i, claimed[i]);
                    signer.insert(i, signer[i]);
                    tampered.insert(i, true);
                    kinds.push(format!("altered-twin-ahead-of@{i}:{l}"));
                    cx.count("proof:altered-twin-ahead-of-an-entry");
                }
            }
            for i in 0..entries.len() {
                if tampered[i] && entries[i].1 == orig[i] {
                    tampered[i] = false;
                    cx.count("proof:mutations-cancelled-out");
                }
            }
            let authentic: Vec<bool> = (0..entries.len()).map(|i| !tampered[i] && claimed[i] == Some(signer[i])).collect();
            let proof = ProofOfPayment { peer_quotes: entries.clone() };
            let all_ok = authentic.iter().all(|a| *a);
            if !all_ok {
                cx.count("proof:faulty");
                cx.nontrivial(&(base_hash.0, &kinds, n));
            } else {
                cx.count("proof:authentic");
            }
            let payees: Vec<PeerId> = entries.iter().filter_map(|(e, _)| e.to_peer_id().ok()).collect();
            let mut asked: Vec<PeerId> = payees.clone();
            asked.push(PeerId::random());
            asked.push(peer);
            for p in asked {
                cx.eval();
                let expected = payees.contains(&p) && all_ok;
                let got = proof.verify_for(p);
                if got && !expected {
                    cx.violation(
                        if payees.contains(&p) { "proof-verifies-with-faulty-quote" } else { "proof-verifies-for-non-payee" },
                        format!("verify_for({p}) == true for a proof with faults {kinds:?} (payee: {})", payees.contains(&p)),
                        json!({"faults": kinds, "entries": entries.iter().map(|(e, q)| json!({"payee": e.to_peer_id().map(|p| p.to_string()).unwrap_or_else(|_| "undecodable".into()), "quote": quote_json(q)})).collect::<Vec<_>>()}),
                    );
                }
                if !got && expected {
                    cx.inconclusive("fully authentic proof does not verify for a payee (sanity control)");
                }
            }
        }

        // (c) expiry
        let offsets: [(i64, bool); 9] = [(0, false), (-10, false), (-3598, false), (-3603, true), (-7200, true), (-1_000_000, true), (2, true), (60, true), (3600, true)];
        for (off, _) in offsets {
            let before = SystemTime::now();
            let ts = if off <= 0 { before - Duration::from_secs((-off) as u64) } else { before + Duration::from_secs(off as u64) };
            let mut q = base.clone();
            q.timestamp = ts;
            let got = q.has_expired();
            let after = SystemTime::now();
            let expect_at = |now: SystemTime| match now.duration_since(ts) {
                Ok(d) => d.as_secs() > 3600,
                Err(_) => true,
            };
            let (e1, e2) = (expect_at(before), expect_at(after));
            cx.eval();
            if e1 != e2 {
                cx.count("expiry:skipped-clock-boundary");
                continue;
            }
            cx.count("expiry:judged");
            cx.nontrivial(&("expiry", off, cx.index));
            if got != e1 {
                cx.violation(
                    format!("expiry:{}", if off > 0 { "future-dated-not-expired" } else if e1 { "old-not-expired" } else { "fresh-reported-expired" }),
                    format!("quote dated now{off:+}s: has_expired()=={got}, expected {e1}"),
                    json!({"offset_s": off}),
                );
            }
            // proof-level: expired iff any quote expired
            let fresh = random_quote(&mut cx.rng, &kp);
            let proof = ProofOfPayment { peer_quotes: vec![(EncodedPeerId::from(peer), fresh), (EncodedPeerId::from(peer), q.clone())] };
            let pg = proof.has_expired();
            let after2 = SystemTime::now();
            if expect_at(after2) == e1 && pg != e1 {
                cx.violation("expiry:proof", format!("proof containing a quote dated now{off:+}s: has_expired()=={pg}, expected {e1}"), json!({"offset_s": off}));
            }
        }

        // (d) historical consistency
        for _ in 0..4 {
            // one case in four: the quoting peer's clock runs a few seconds ahead of ours, so its newest quote is dated
            // in our future (quotes up to 10 s apart from ours are still examined)
            let ahead = cx.rng.gen_bool(0.25);
            let gap = cx.rng.gen_range(1..90u64);
            let t_old = if ahead { SystemTime::now() + Duration::from_secs(cx.rng.gen_range(2..9)) - Duration::from_secs(gap) } else { SystemTime::now() - Duration::from_secs(cx.rng.gen_range(100..3000)) };
            let t_new = t_old + Duration::from_secs(gap);
            if ahead {
                cx.count("historical:later-quote-dated-ahead-of-our-clock");
            }
            let mut m_old = random_metrics(&mut cx.rng);
            m_old.live_time = cx.rng.gen_range(100..1_000_000);
            m_old.received_payment_count = cx.rng.gen_range(10..1000);
            let old = signed_quote(&kp, XorName(cx.rng.gen()), t_old, m_old.clone(), base.rewards_address);
            for kind in 0..3 {
                let mut m_new = m_old.clone();
                let expect_flag = match kind {
                    0 => {
                        m_new.live_time = m_old.live_time - cx.rng.gen_range(1..=m_old.live_time.min(50));
                        true
                    }
                    1 => {
                        m_new.received_payment_count = m_old.received_payment_count - cx.rng.gen_range(1..=10);
                        true
                    }
                    _ => {
                        // consistent: counters non-decreasing, uptime growth <= elapsed time
                        m_new.live_time = m_old.live_time + cx.rng.gen_range(0..=gap);
                        m_new.received_payment_count = m_old.received_payment_count + cx.rng.gen_range(0..5);
                        false
                    }
                };
                let new = signed_quote(&kp, XorName(cx.rng.gen()), t_new, m_new, base.rewards_address);
                for (a, b, order) in [(&old, &new, "old.verify(new)"), (&new, &old, "new.verify(old)")] {
                    cx.eval();
                    let ok = a.historical_verify(b);
                    if expect_flag {
                        cx.count("historical:judged");
                        cx.nontrivial(&("hist", kind, order, cx.index, gap));
                        if ok {
                            cx.violation(
                                format!("historical:{}", if kind == 0 { "less-uptime-not-flagged" } else { "fewer-payments-not-flagged" }),
                                format!("{order}: later quote reports {} yet is not flagged", if kind == 0 { "less uptime" } else { "fewer received payments" }),
                                json!({"old": quote_json(&old), "new": quote_json(&new), "order": order}),
                            );
                        }
                    } else if !ok {
                        cx.inconclusive("consistent later quote flagged as inconsistent (sanity control)");
                    }
                }
            }
        }
    }
}

/// Quotes are verified on many threads of a node at once (one validation task per upload): each thread verifies its own
/// authentic quotes and altered copies of them; the answers must be those of the quote in hand, whatever the other
/// threads verify at the same moment.
fn concurrent_verification(cx: &mut Cx) {
    use rand::SeedableRng;
    let threads = cx.rng.gen_range(4..=8);
    let seeds: Vec<u64> = (0..threads).map(|_| cx.rng.gen()).collect();
    let handles: Vec<std::thread::JoinHandle<(u64, Vec<(String, String)>)>> = seeds
        .into_iter()
        .map(|seed| {
            std::thread::spawn(move || {
                let mut rng = rand::rngs::StdRng::seed_from_u64(seed);
                let kp = keypair(&mut rng);
                let other = keypair(&mut rng);
                let peer = PeerId::from(kp.public());
                let mut faults = vec![];
                let mut done = 0u64;
                for _ in 0..120 {
                    let q = random_quote(&mut rng, &kp);
                    if !q.check_is_signed_by_claimed_peer(peer) {
                        faults.push(("concurrent:authentic-quote-rejected".to_string(), "an authentically signed quote did not verify for its signer while other threads were verifying".to_string()));
                    }
                    let mut m = q.clone();
                    let f = rng.gen_range(0..11);
                    let (label, must_fail) = mutate_field(&mut rng, &mut m, f, &other);
                    // (must_fail is false for changes that are unsigned by design, e.g. below one second)
                    if must_fail && m != q && m.check_is_signed_by_claimed_peer(peer) {
                        faults.push((format!("concurrent:quote-verifies-after-mutation:{label}"), format!("an altered copy ({label}) verified while other threads were verifying")));
                    }
                    done += 2;
                    if faults.len() > 10 {
                        break;
                    }
                }
                (done, faults)
            })
        })
        .collect();
    for h in handles {
        match h.join() {
            Ok((done, faults)) => {
                cx.count_n("concurrent-verifications", done);
                for (sig, d) in faults.into_iter().take(2) {
                    cx.violation(sig, d, json!({"threads": threads}));
                }
            }
            Err(_) => cx.violation("concurrent:verification-thread-died", "a verifying thread died".to_string(), json!({"threads": threads})),
        }
    }
}

fn metrics(live: u64, pay: usize) -> QuotingMetrics {
    QuotingMetrics { close_records_stored: 10, max_records: 16_384, received_payment_count: pay, live_time: live, network_density: None, network_size: Some(1000) }
}

/// The node layer's duty on a QuoteVerification event (act only on an authentic own quote, pass on only quotes
/// bound to their claimed signer) and the driver's per-peer quote history (later quotes reporting less are flagged,
/// the newest accepted quote stays the reference whatever the delivery order).
fn node_case(cx: &mut Cx) {
    use crate::sim::{Policy, Sim};
    use ant_networking::verif::LocalSwarmCmd;
    use ant_networking::NetworkEvent;
    let root = scratch_dir("c13n");
    let mut sim = Sim::new(cx.rng.gen(), false);
    sim.policy = Policy::Fifo;
    sim.set_gates_controlled(false);
    let own = keypair(&mut cx.rng);
    sim.add_node(own.clone(), root.clone(), true);
    let me = sim.nodes[0].peer;
    let node = sim.nodes[0].node.clone().expect("node layer");
    let now = SystemTime::now();
    let rewards = RewardsAddress::from(cx.rng.gen::<[u8; 20]>());

    // ---- part 1: the duty filter
    for _ in 0..4 {
        let content = XorName(cx.rng.gen());
        let own_age = cx.rng.gen_range(20..200u64);
        let own_ts = now - Duration::from_secs(own_age);
        let stranger = keypair(&mut cx.rng);
        let own_mode = cx.rng.gen_range(0..7);
        let (own_quote, own_valid, own_label): (Option<PaymentQuote>, bool, &str) = match own_mode {
            0 | 1 => (Some(signed_quote(&own, content, own_ts, metrics(100, 1), rewards)), true, "authentic"),
            2 => {
                cx.count("node:own-quote-forged");
                (Some(signed_quote(&stranger, content, own_ts, metrics(100, 1), rewards)), false, "signed-and-keyed-by-another-node")
            }
            3 => {
                cx.count("node:own-quote-forged");
                let mut q = signed_quote(&stranger, content, own_ts, metrics(100, 1), rewards);
                q.pub_key = own.public().encode_protobuf();
                (Some(q), false, "our-key-foreign-signature")
            }
            4 => (Some(signed_quote(&own, content, now - Duration::from_secs(3600 + 1000), metrics(100, 1), rewards)), false, "expired"),
            5 => (Some(signed_quote(&own, content, now + Duration::from_secs(1000), metrics(100, 1), rewards)), false, "future-dated"),
            _ => (None, false, "absent"),
        };
        let base_ts = own_quote.as_ref().map(|q| q.timestamp).unwrap_or(own_ts);
        let mut quotes: Vec<(PeerId, PaymentQuote)> = vec![];
        let mut expected: Vec<Vec<u8>> = vec![];
        for _ in 0..cx.rng.gen_range(1..=5) {
            let kp = keypair(&mut cx.rng);
            let claimed = if cx.rng.gen_bool(0.75) { PeerId::from(kp.public()) } else { PeerId::from(keypair(&mut cx.rng).public()) };
            let same_target = cx.rng.gen_bool(0.75);
            let near = cx.rng.gen_bool(0.75);
            let gap = if near { cx.rng.gen_range(0..8u64) } else { cx.rng.gen_range(13..300u64) };
            let ts = if cx.rng.gen_bool(0.5) { base_ts + Duration::from_secs(gap) } else { base_ts - Duration::from_secs(gap) };
            let q = signed_quote(&kp, if same_target { content } else { XorName(cx.rng.gen()) }, ts, random_metrics(&mut cx.rng), rewards);
            let bound = claimed == PeerId::from(kp.public());
            if own_valid && same_target && near && bound {
                expected.push(q.signature.clone());
            }
            quotes.push((claimed, q));
        }
        if let Some(q) = own_quote {
            let pos = cx.rng.gen_range(0..=quotes.len());
            quotes.insert(pos, (me, q));
        }
        {
            let _g = sim.rt.enter();
            node.handle_network_event(NetworkEvent::QuoteVerification { quotes: quotes.clone() });
        }
        sim.yield_rounds(12);
        sim.collect();
        let mut passed_on: Vec<Vec<u8>> = vec![];
        let mut rest = std::collections::VecDeque::new();
        while let Some(c) = sim.nodes[0].local_q.pop_front() {
            match c {
                LocalSwarmCmd::QuoteVerification { quotes } => passed_on.extend(quotes.into_iter().map(|(_, q)| q.signature)),
                other => rest.push_back(other),
            }
        }
        sim.nodes[0].local_q = rest;
        cx.eval();
        cx.count("node:duty-events");
        passed_on.sort();
        expected.sort();
        let w = json!({"own_quote": own_label, "quotes": quotes.len(), "passed_on": passed_on.len(), "expected": expected.len()});
        if !own_valid && !passed_on.is_empty() {
            cx.violation(format!("node-acts-on-unauthentic-own-quote:{own_label}"), format!("the quote listed under this node's identity is {own_label}, yet {} quotes were passed on for the historical check", passed_on.len()), w);
        } else if passed_on != expected {
            cx.violation("node-duty-filter-wrong", format!("own quote {own_label}: {} quotes passed on, {} are bound to their claimed signer, for the same target and within the time window", passed_on.len(), expected.len()), w);
        } else if cx.index % 64 == 7 {
            cx.sample(w);
        }
        cx.nontrivial(&("duty", own_label, quotes.len(), passed_on.len(), cx.index));
    }

    // ---- part 2: per-peer quote history in the driver
    // honest quotes of one peer (all on its true time line) are delivered in a shuffled order, so that older quotes
    // arrive late; then a newer quote reporting less uptime / fewer payments than the newest one must be flagged
    let peer_kp = keypair(&mut cx.rng);
    let peer = PeerId::from(peer_kp.public());
    let content = XorName(cx.rng.gen());
    let start_age: u64 = 20_000;
    let n = cx.rng.gen_range(3..=8);
    let mut ages: Vec<u64> = (0..n).map(|_| cx.rng.gen_range(300..3000u64)).collect();
    ages.sort();
    ages.dedup();
    let mut order: Vec<u64> = ages.clone();
    order.reverse(); // issue order: oldest first
    for i in 0..order.len() {
        if cx.rng.gen_bool(0.35) {
            let j = cx.rng.gen_range(0..order.len());
            order.swap(i, j);
        }
    }
    let mut hist = vec![];
    let mut newest: Option<u64> = None; // age of the newest delivered quote
    let mut ok = true;
    let deliver = |sim: &mut Sim, q: PaymentQuote| {
        let _g = sim.rt.enter();
        let _ = sim.nodes[0].drv.verif_handle_local_cmd(LocalSwarmCmd::QuoteVerification { quotes: vec![(peer, q)] });
    };
    let flagged = |sim: &Sim| sim.nodes[0].drv.verif_node_issues().iter().any(|(p, names, _)| *p == peer && names.iter().any(|n| n == "BadQuoting"));
    for age in order {
        let (live, pay) = (start_age - age, ((start_age - age) / 400) as usize);
        if newest.map(|a| age > a).unwrap_or(false) {
            cx.count("node:late-older-quotes");
        }
        deliver(&mut sim, signed_quote(&peer_kp, content, now - Duration::from_secs(age), metrics(live, pay), rewards));
        newest = Some(newest.map(|a| a.min(age)).unwrap_or(age));
        cx.eval();
        cx.count("node:history-steps");
        hist.push(json!({"age_s": age, "live_time": live, "payments": pay, "kind": "honest"}));
        let w = json!({"deliveries": hist});
        if flagged(&sim) {
            cx.violation("consistent-quote-flagged", format!("after {} quotes that all lie on one true time line the peer is recorded for bad quoting", hist.len()), w);
            ok = false;
            break;
        }
        let kept_age = sim.nodes[0].drv.verif_quotes_history().into_iter().find(|(p, _)| *p == peer).and_then(|(_, q)| now.duration_since(q.timestamp).ok()).map(|d| d.as_secs());
        if kept_age != newest {
            cx.violation("quote-history-reference-is-not-the-newest-quote", format!("the driver keeps a quote of age {kept_age:?} s as reference, the newest one delivered is {newest:?} s old"), w);
            ok = false;
            break;
        }
    }
    if ok {
        if let Some(na) = newest {
            // in between the peer may drop out of the routing table and come back (connection error, eviction): what it
            // quoted before still binds it
            if cx.rng.gen_bool(0.5) {
                let (added, removed) = {
                    let _g = sim.rt.enter();
                    (sim.nodes[0].drv.verif_add_peer(peer, crate::sim::quic_addr(33_333)), sim.nodes[0].drv.verif_remove_peer(peer))
                };
                if added && removed {
                    cx.count("node:peer-left-the-routing-table-between-quotes");
                    hist.push(json!("peer dropped out of the routing table"));
                }
            }
            let age = na - cx.rng.gen_range(50..250);
            let (true_live, true_pay) = (start_age - na, ((start_age - na) / 400) as usize);
            let (live, pay, label) = if cx.rng.gen_bool(0.5) { (true_live - cx.rng.gen_range(1..2000), true_pay, "later-quote-with-less-uptime") } else { (start_age - age, true_pay - cx.rng.gen_range(1..10), "later-quote-with-fewer-payments") };
            deliver(&mut sim, signed_quote(&peer_kp, content, now - Duration::from_secs(age), metrics(live, pay), rewards));
            cx.eval();
            cx.count("node:inconsistent-quotes");
            hist.push(json!({"age_s": age, "live_time": live, "payments": pay, "kind": label}));
            if !flagged(&sim) {
                cx.violation(format!("inconsistent-later-quote-not-flagged:{label}"), format!("a quote issued after all others ({age} s ago) reports {label} than the newest earlier one ({na} s ago: live {true_live}, payments {true_pay}) and was not flagged"), json!({"deliveries": hist}));
            }
        }
    }
    // ---- part 3: the same inconsistency, delivered the other way round: payments overtake each other, so the later,
    // lesser quote of a peer can reach the driver BEFORE the earlier one that reports more; the pair is inconsistent
    // whichever of the two arrives first
    {
        let kp2 = keypair(&mut cx.rng);
        let peer2 = PeerId::from(kp2.public());
        let (early_age, late_age) = (cx.rng.gen_range(1500..3000u64), cx.rng.gen_range(300..1400u64));
        let (early_live, early_pay) = (start_age - early_age, cx.rng.gen_range(10..60usize));
        let by_uptime = cx.rng.gen_bool(0.5);
        let (late_live, late_pay, label) = if by_uptime { (early_live - cx.rng.gen_range(1..1000), early_pay, "less-uptime") } else { (start_age - late_age, early_pay - cx.rng.gen_range(1..10), "fewer-payments") };
        let flagged2 = |sim: &Sim| sim.nodes[0].drv.verif_node_issues().iter().any(|(p, names, _)| *p == peer2 && names.iter().any(|n| n == "BadQuoting"));
        let deliver2 = |sim: &mut Sim, q: PaymentQuote| {
            let _g = sim.rt.enter();
            let _ = sim.nodes[0].drv.verif_handle_local_cmd(LocalSwarmCmd::QuoteVerification { quotes: vec![(peer2, q)] });
        };
        deliver2(&mut sim, signed_quote(&kp2, content, now - Duration::from_secs(late_age), metrics(late_live, late_pay), rewards));
        let early_flag = flagged2(&sim);
        deliver2(&mut sim, signed_quote(&kp2, content, now - Duration::from_secs(early_age), metrics(early_live, early_pay), rewards));
        cx.eval();
        cx.count("node:inconsistent-pairs-delivered-later-quote-first");
        if early_flag {
            cx.violation("consistent-quote-flagged", "the first quote ever seen from a peer was flagged".to_string(), json!({}));
        } else if !flagged2(&sim) {
            cx.violation(format!("inconsistent-later-quote-not-flagged:delivered-before-the-earlier-one:{label}"), format!("quote A ({late_age} s old: live {late_live}, payments {late_pay}) was delivered first, then quote B issued before it ({early_age} s old: live {early_live}, payments {early_pay}); A is later and reports {label} than B, yet the peer was not flagged"), json!({"late": [late_age, late_live, late_pay], "early": [early_age, early_live, early_pay]}));
        }
    }
    cx.nontrivial(&("history", h64(&serde_json::to_string(&hist).unwrap_or_default())));
    drop(sim);
    let _ = std::fs::remove_dir_all(&root);
}
