//! C10 — store capacity, distance-based eviction and quoting metrics are exact.

use crate::c01::value_with_id;
use crate::common::*;
use crate::gen;
use crate::refmetric::*;
use crate::sim::{Policy, Sim};
use ant_networking::verif::LocalSwarmCmd;
use ant_protocol::storage::RecordKind;
use libp2p::kad::{Record, RecordKey};
use libp2p::PeerId;
use rand::{seq::SliceRandom, Rng};
use serde_json::json;
use std::collections::{BTreeMap, BTreeSet};
use tokio::sync::oneshot;

pub struct C10;

struct Run<'a, 'b> {
    cx: &'a mut Cx<'b>,
    sim: Sim,
    me: PeerId,
    cap: usize,
    cache: usize,
    /// model: keys whose write has been acknowledged (the held set)
    held: BTreeMap<Vec<u8>, Vec<u8>>,
    /// accepted writes not yet acknowledged: key -> value
    inflight: Vec<(Vec<u8>, Vec<u8>)>,
    /// every value ever handed in per key
    values: BTreeMap<Vec<u8>, Vec<Vec<u8>>>,
    payments: usize,
    range: Option<D32>,
    hist: Vec<serde_json::Value>,
    next_id: u64,
    overshoot_seen: bool,
    /// explained excess over capacity: puts accepted while index + unacknowledged writes had already reached capacity
    credit: usize,
    /// keys evicted while one of their own writes was still in flight (a late ack may re-index them)
    evicted_with_write_in_flight: BTreeSet<Vec<u8>>,
    prev_index: BTreeSet<Vec<u8>>,
    expected_removed: BTreeSet<Vec<u8>>,
    /// keys that ANOTHER store of this process (another identity) has held before this case started
    pool: Vec<Vec<u8>>,
}

impl Run<'_, '_> {
    fn d(&self, key: &[u8]) -> D32 {
        ref_distance(&self.me.to_bytes(), key)
    }
    fn viol(&mut self, sig: &str, detail: String) {
        let n = self.hist.len();
        let tail = self.hist[n.saturating_sub(30)..].to_vec();
        self.cx.violation(sig, detail, json!({"capacity": self.cap, "history_tail": tail}));
    }
    fn snapshot(&mut self) -> ant_networking::verif::VerifStoreSnapshot {
        self.sim.nodes[0].drv.verif_store_mut().expect("node store").verif_snapshot()
    }
    fn farthest_held(&self) -> Option<(Vec<u8>, D32)> {
        self.held.keys().map(|k| (k.clone(), self.d(k))).max_by_key(|(_, d)| *d)
    }
    fn fresh_key(&mut self, want_closer_than: Option<D32>, closer: bool) -> Vec<u8> {
        // first choice: a key the other store of this process has already handled
        for i in 0..self.pool.len() {
            let k = self.pool[i].clone();
            if self.values.contains_key(&k) {
                continue;
            }
            let fits = match want_closer_than {
                None => true,
                Some(b) => {
                    let d = self.d(&k);
                    (closer && d < b) || (!closer && d > b)
                }
            };
            if fits {
                self.pool.swap_remove(i);
                return k;
            }
        }
        for _ in 0..4000 {
            let k = gen::bytes(&mut self.cx.rng, 32);
            if self.values.contains_key(&k) {
                continue;
            }
            match want_closer_than {
                None => return k,
                Some(b) => {
                    let d = self.d(&k);
                    if (closer && d < b) || (!closer && d > b) {
                        return k;
                    }
                }
            }
        }
        gen::bytes(&mut self.cx.rng, 32)
    }

    /// put through the real PutLocalRecord handler; returns whether the store accepted it
    fn put(&mut self, key: Vec<u8>, label: &str) -> bool {
        self.next_id += 1;
        let id = self.next_id;
        let sz = self.cx.rng.gen_range(0..200);
        let value = value_with_id(&mut self.cx.rng, RecordKind::Chunk, id, sz);
        let rk = RecordKey::from(key.clone());
        let pre = self.snapshot();
        let pre_len = pre.records.len();
        let pre_keys: BTreeSet<Vec<u8>> = pre.records.iter().map(|(k, _, _)| k.to_vec()).collect();
        let new_key = !self.held.contains_key(&key) && !self.inflight.iter().any(|(k, _)| *k == key);
        let quiet = self.inflight.is_empty();
        let at_capacity = pre_len >= self.cap;
        // "the farthest record held" = farthest key of the store's own index, by the reference metric
        let farthest: Option<(Vec<u8>, D32)> = pre_keys.iter().map(|k| (k.clone(), self.d(k))).max_by_key(|(_, d)| *d);
        let inflight_new = self.inflight.iter().filter(|(k, _)| !pre_keys.contains(k)).map(|(k, _)| k.clone()).collect::<BTreeSet<_>>().len();
        let res = {
            let _g = self.sim.rt.enter();
            self.sim.nodes[0].drv.verif_handle_local_cmd(LocalSwarmCmd::PutLocalRecord { record: Record { key: rk.clone(), value: value.clone(), publisher: None, expires: None } })
        };
        let ok = res.is_ok();
        self.cx.eval();
        self.hist.push(json!({"put": short_hex(&key), "d": short_hex(&self.d(&key)), "label": label, "ok": ok, "held": self.held.len(), "inflight": self.inflight.len()}));
        self.values.entry(key.clone()).or_default().push(value.clone());
        let post = self.snapshot();
        let post_keys: BTreeSet<Vec<u8>> = post.records.iter().map(|(k, _, _)| k.to_vec()).collect();
        if self.cx.verbose {
            let true_far = pre.records.iter().map(|(k, _, _)| (self.d(k.as_ref()), k.to_vec())).max();
            eprintln!(
                "put {} ({label}) ok={ok} | pre: index {} store-farthest {:?} true-farthest {:?} | model held {} inflight {} | post index {}",
                short_hex(self.values.keys().last().map(|k| k.as_slice()).unwrap_or(&[])),
                pre_len,
                pre.farthest_record.as_ref().map(|(k, _)| short_hex(k.as_ref())),
                true_far.map(|(_, k)| short_hex(&k)),
                self.held.len(),
                self.inflight.len(),
                post.records.len()
            );
        }
        // (b) decisions at capacity, judged only when nothing is in flight
        if new_key && quiet && at_capacity {
            self.cx.count("capacity-decisions-judged");
            let (fk, fd) = farthest.clone().expect("at capacity implies a farthest record");
            let dk = self.d(&key);
            if dk == fd {
                // cannot happen for distinct keys
            } else if dk < fd {
                if !ok {
                    self.viol("closer-record-refused-at-capacity", format!("store at capacity ({pre_len}/{}) refused a record closer (d={}) than its farthest held record (d={})", self.cap, short_hex(&dk), short_hex(&fd)));
                } else {
                    let removed: Vec<&Vec<u8>> = pre_keys.difference(&post_keys).collect();
                    if removed != vec![&fk] {
                        self.viol("eviction-not-exactly-farthest", format!("accepting a closer record at capacity removed {:?} from the index, expected exactly the farthest held record {}", removed.iter().map(|k| short_hex(k)).collect::<Vec<_>>(), short_hex(&fk)));
                    }
                    self.held.remove(&fk);
                    self.expected_removed.insert(fk.clone());
                    self.cx.count("evictions");
                }
            } else if ok {
                self.viol("farther-record-accepted-at-capacity", format!("store at capacity accepted a record farther (d={}) than its farthest held record (d={})", short_hex(&dk), short_hex(&fd)));
            } else {
                self.cx.count("refusals");
                if pre_keys != post_keys {
                    self.viol("refusal-changed-held-set", "a refused put changed the record index".to_string());
                }
                // the refused record must not be served
                let got = self.sim.get_local(0, &rk);
                if got.is_some() {
                    self.viol("refused-record-readable", format!("a record refused with MaxRecords (d={}) is returned by get", short_hex(&dk)));
                }
                // and a retry of the identical record must be refused again
                let retry = {
                    let _g = self.sim.rt.enter();
                    self.sim.nodes[0].drv.verif_handle_local_cmd(LocalSwarmCmd::PutLocalRecord { record: Record { key: rk.clone(), value: value.clone(), publisher: None, expires: None } })
                };
                if retry.is_ok() {
                    self.viol("refused-record-accepted-on-identical-retry", "an identical retry of a record refused with MaxRecords returned Ok although the store is unchanged and still full".to_string());
                }
            }
        } else if !new_key && quiet && self.held.contains_key(&key) && !ok {
            // an update of a record the store holds is never a question of capacity
            self.viol("held-record-update-refused", format!("the store ({pre_len}/{} records, nothing in flight) refused a new version of a record it holds (d={}, farthest held d={:?})", self.cap, short_hex(&self.d(&key)), farthest.as_ref().map(|(_, d)| short_hex(d))));
        } else if ok && !quiet && at_capacity && new_key {
            // eviction while something is in flight: not judged as a decision, but it must still be the index's farthest record
            let removed: Vec<Vec<u8>> = pre_keys.difference(&post_keys).cloned().collect();
            if let Some((fk, _)) = &farthest {
                if !removed.is_empty() && removed != vec![fk.clone()] {
                    self.viol("eviction-not-exactly-farthest", format!("an eviction removed {:?}, the farthest indexed record was {}", removed.iter().map(|k| short_hex(k)).collect::<Vec<_>>(), short_hex(fk)));
                }
            }
        }
        // whatever left the index during this put was removed by the store's own pruning (exactness is judged above for
        // new keys; an overwrite at capacity also prunes, which the statement neither demands nor forbids)
        for k in pre_keys.difference(&post_keys) {
            self.held.remove(k);
            if self.inflight.iter().any(|(ik, _)| ik == k) && !self.evicted_with_write_in_flight.contains(k) {
                self.evicted_with_write_in_flight.insert(k.clone());
                self.credit += 1;
            }
            self.expected_removed.insert(k.clone());
        }
        if ok && new_key && pre_len < self.cap && pre_len + inflight_new >= self.cap {
            // accepted without pruning although index + unacknowledged writes had reached capacity
            self.credit += 1;
            self.cx.count("puts-accepted-while-logically-full");
        }
        if ok {
            self.inflight.push((key, value));
        }
        ok
    }

    /// an identical re-delivery of a record that is held, acknowledged and still in the store's cache: nothing
    /// new is stored, so the held set must not change (in particular nothing may be evicted for it)
    fn reput_identical(&mut self) {
        if !self.settle() {
            return;
        }
        let pre = self.snapshot();
        let cached: BTreeSet<Vec<u8>> = pre.cache_keys.iter().map(|k| k.to_vec()).collect();
        let cands: Vec<Vec<u8>> = self.held.keys().filter(|k| cached.contains(*k)).cloned().collect();
        let Some(key) = cands.choose(&mut self.cx.rng).cloned() else { return };
        let value = self.held.get(&key).cloned().expect("held");
        // only when the cached copy is this very value (it is the last one accepted for the key)
        if self.values.get(&key).and_then(|v| v.last()) != Some(&value) {
            return;
        }
        let rk = RecordKey::from(key.clone());
        let pre_keys: BTreeSet<Vec<u8>> = pre.records.iter().map(|(k, _, _)| k.to_vec()).collect();
        let res = {
            let _g = self.sim.rt.enter();
            self.sim.nodes[0].drv.verif_handle_local_cmd(LocalSwarmCmd::PutLocalRecord { record: Record { key: rk, value, publisher: None, expires: None } })
        };
        self.cx.eval();
        self.cx.count(if pre_keys.len() >= self.cap { "identical-reputs-at-capacity" } else { "identical-reputs" });
        self.hist.push(json!({"identical_reput": short_hex(&key), "ok": res.is_ok(), "held": pre_keys.len()}));
        let post_keys: BTreeSet<Vec<u8>> = self.snapshot().records.iter().map(|(k, _, _)| k.to_vec()).collect();
        if post_keys != pre_keys {
            let gone: Vec<String> = pre_keys.difference(&post_keys).map(|k| short_hex(k)).collect();
            self.viol("identical-reput-changed-held-set", format!("re-delivering the identical, held and cached record {} to a store of {}/{} records removed {gone:?} from the index", short_hex(&key), pre_keys.len(), self.cap));
            for k in pre_keys.difference(&post_keys) {
                self.held.remove(k);
                self.expected_removed.insert(k.clone());
            }
        }
        self.settle();
    }

    /// let the pipeline make progress: `n` scheduler steps
    fn progress(&mut self, n: usize) {
        for _ in 0..n {
            if !self.sim.step() {
                break;
            }
            self.sync_acks();
        }
    }

    /// move writes whose acknowledgement the store has processed from in-flight to held
    fn sync_acks(&mut self) {
        let (completed_writes, pending_cmds): (usize, usize) = {
            let g = self.sim.gates.lock().expect("gates");
            (g.completed_ids.iter().filter(|i| i.kind == ant_networking::verif::GateKind::DiskWrite).count(), 0)
        };
        let _ = (completed_writes, pending_cmds);
        let snap = self.snapshot();
        let idx: BTreeSet<Vec<u8>> = snap.records.iter().map(|(k, _, _)| k.to_vec()).collect();
        // an in-flight write is acknowledged once no disk task and no queued command of its key remains
        let busy: BTreeSet<Vec<u8>> = {
            let g = self.sim.gates.lock().expect("gates");
            g.announced.iter().map(|x| x.key.clone()).chain(g.parked.iter().map(|(x, _)| x.key.clone())).chain(g.running.iter().map(|x| x.key.clone())).collect()
        };
        self.sim.collect();
        let queued: BTreeSet<Vec<u8>> = self.sim.nodes[0].local_q.iter().filter_map(crate::sim::local_cmd_key).collect();
        let mut still = vec![];
        for (k, v) in std::mem::take(&mut self.inflight) {
            if busy.contains(&k) || queued.contains(&k) {
                still.push((k, v));
            } else {
                if idx.contains(&k) {
                    self.held.insert(k, v);
                } else {
                    // acknowledged but not indexed (e.g. it was evicted meanwhile)
                    self.held.remove(&k);
                }
            }
        }
        self.inflight = still;
        // (a) never more than capacity + writes still in flight
        let len = snap.records.len();
        if len > self.cap + self.inflight.len() {
            self.overshoot_seen = true;
            let (l, c, f, cr) = (len, self.cap, self.inflight.len(), self.credit);
            if l - (c + f) <= cr {
                self.viol(
                    "capacity-exceeded:unacknowledged-writes-not-counted",
                    format!("store retains {l} records with capacity {c} and {f} writes in flight; {cr} puts had been accepted while index + unacknowledged writes already reached capacity (fullness is tested against acknowledged records only)"),
                );
            } else {
                self.viol("capacity-exceeded", format!("store retains {l} records with capacity {c} and {f} writes in flight (only {cr} explained by unacknowledged writes)"));
            }
        }
        // index watch: records leave the index only through a judged eviction / clean-up / explicit removal
        let vanished: Vec<Vec<u8>> = self.prev_index.difference(&idx).filter(|k| !self.expected_removed.contains(*k)).cloned().collect();
        for k in vanished {
            self.viol("record-vanished-from-index", format!("record {} left the index without an eviction or clean-up", short_hex(&k)));
        }
        self.expected_removed.clear();
        self.prev_index = idx;
        self.cx.eval();
    }

    fn settle(&mut self) -> bool {
        let mut d = || true;
        let ok = self.sim.settle(&mut d);
        self.sync_acks();
        ok
    }

    /// (e) + readability at a quiescent point
    fn check_quiescent(&mut self) {
        if !self.settle() {
            self.cx.inconclusive("simulator did not reach quiescence");
            return;
        }
        let snap = self.snapshot();
        self.cx.eval();
        self.cx.count("quiescent-checks");
        let expect_by_d: BTreeMap<D32, Vec<u8>> = snap.records.iter().map(|(k, _, _)| (self.d(k.as_ref()), k.to_vec())).collect();
        let got_by_d: BTreeMap<D32, Vec<u8>> = snap.records_by_distance.iter().map(|(d, k)| (from_u256(d), k.to_vec())).collect();
        if expect_by_d != got_by_d {
            self.viol("distance-index-mismatch", format!("distance index has {} entries, record index {}; they do not describe the same records at their true distances", got_by_d.len(), expect_by_d.len()));
        }
        let true_far = expect_by_d.iter().next_back().map(|(d, k)| (k.clone(), *d));
        let got_far = snap.farthest_record.as_ref().map(|(k, d)| (k.to_vec(), from_u256(d)));
        if true_far != got_far && !(snap.records.is_empty() && got_far.is_some()) {
            self.viol("farthest-record-wrong", format!("store's farthest record is {:?}, the farthest held record is {:?}", got_far.map(|(k, d)| (short_hex(&k), short_hex(&d))), true_far.map(|(k, d)| (short_hex(&k), short_hex(&d)))));
        }
        // every indexed record is readable as one of the values handed in for it; evicted ones are gone
        let keys: Vec<Vec<u8>> = snap.records.iter().map(|(k, _, _)| k.to_vec()).collect();
        for k in keys {
            let got = self.sim.get_local(0, &RecordKey::from(k.clone()));
            let known = self.values.get(&k).cloned().unwrap_or_default();
            match got {
                Some(r) if known.contains(&r.value) => {}
                Some(_) => self.viol("held-record-wrong-bytes", format!("held record {} reads back bytes never handed in for it", short_hex(&k))),
                None => {
                    if self.evicted_with_write_in_flight.contains(&k) {
                        self.viol("evicted-record-reindexed-by-late-ack", format!("record {} was evicted while its own overwrite was in flight; the late acknowledgement re-indexed it although its file is gone (indexed, counted in quotes, unreadable)", short_hex(&k)));
                    } else {
                        self.viol("held-record-unreadable", format!("record {} is in the index (counted towards capacity and quotes) but cannot be read", short_hex(&k)));
                    }
                }
            }
        }
        // every acknowledged, never-evicted write is still held
        let idx: BTreeSet<Vec<u8>> = snap.records.iter().map(|(k, _, _)| k.to_vec()).collect();
        let missing: Vec<String> = self.held.keys().filter(|k| !idx.contains(*k)).map(|k| short_hex(k)).collect();
        if !missing.is_empty() {
            self.viol("held-record-missing", format!("acknowledged records {missing:?} are no longer in the index although nothing evicted or cleaned them"));
            self.held.retain(|k, _| idx.contains(k));
        }
        self.check_quote();
    }

    /// (d) quoting metrics equal the true values
    fn check_quote(&mut self) {
        let probe = RecordKey::from(gen::bytes(&mut self.cx.rng, 32));
        let (tx, mut rx) = oneshot::channel();
        {
            let _g = self.sim.rt.enter();
            let _ = self.sim.nodes[0].drv.verif_handle_local_cmd(LocalSwarmCmd::GetLocalQuotingMetrics { key: probe, sender: tx });
        }
        let Ok((qm, stored)) = rx.try_recv() else {
            self.cx.inconclusive("no quoting metrics reply");
            return;
        };
        self.cx.eval();
        self.cx.count("quotes-judged");
        let snap = self.snapshot();
        let dists: Vec<D32> = snap.records.iter().map(|(k, _, _)| self.d(k.as_ref())).collect();
        let (lo, hi) = match self.range {
            None => (dists.len(), dists.len()),
            Some(r) => (dists.iter().filter(|d| **d < r).count(), dists.iter().filter(|d| **d <= r).count()),
        };
        if qm.close_records_stored < lo || qm.close_records_stored > hi {
            self.viol("quote-close-records-wrong", format!("quote reports {} records within range, true count is {lo}..={hi} (held {}, range set: {})", qm.close_records_stored, dists.len(), self.range.is_some()));
        }
        if qm.max_records != self.cap {
            self.viol("quote-capacity-wrong", format!("quote reports max_records {}, configured capacity is {}", qm.max_records, self.cap));
        }
        if qm.received_payment_count != self.payments {
            self.viol("quote-payment-count-wrong", format!("quote reports {} payments received, true count is {}", qm.received_payment_count, self.payments));
        }
        if stored {
            self.viol("quote-claims-unknown-key-stored", "quote says a never-stored key is already stored".to_string());
        }
    }
}

fn large_cleanup_case(cx: &mut Cx) {
    // clean-up applies only above MAX_RECORDS_COUNT/10 = 1638 held records
    let root = scratch_dir("c10L");
    let mut sim = Sim::new(cx.rng.gen(), false);
    sim.policy = Policy::Fifo;
    sim.set_gates_controlled(false);
    let kp = gen::ed_keypair(&mut cx.rng);
    let me = PeerId::from(kp.public());
    sim.add_node(kp, root.clone(), false);
    let n = *[900usize, 1637, 1700, 1800].choose(&mut cx.rng).expect("nonempty");
    let mut keys = vec![];
    for i in 0..n {
        let k = gen::bytes(&mut cx.rng, 32);
        let v = value_with_id(&mut cx.rng, RecordKind::Chunk, i as u64, 8);
        let _g = sim.rt.enter();
        let _ = sim.nodes[0].drv.verif_handle_local_cmd(LocalSwarmCmd::PutLocalRecord { record: Record { key: RecordKey::from(k.clone()), value: v, publisher: None, expires: None } });
        keys.push(k);
    }
    let mut d = || true;
    if !sim.settle(&mut d) {
        cx.inconclusive("large store did not settle");
        return;
    }
    let mut ds: Vec<D32> = keys.iter().map(|k| ref_distance(&me.to_bytes(), k)).collect();
    ds.sort();
    let with_range = cx.rng.gen_bool(0.8);
    // the range is the distance of a held record: usually one in the middle, sometimes exactly the farthest or the closest
    let range = match cx.rng.gen_range(0..8) {
        0 | 1 => {
            cx.count("large-cleanups:range-is-the-farthest-records-distance");
            *ds.last().expect("nonempty")
        }
        2 => ds[0],
        _ => ds[ds.len() * cx.rng.gen_range(20..80) / 100],
    };
    if with_range {
        sim.nodes[0].drv.verif_set_distance_range(to_u256(&range));
    }
    let before: BTreeSet<Vec<u8>> = sim.nodes[0].drv.verif_store_mut().expect("store").verif_snapshot().records.iter().map(|(k, _, _)| k.to_vec()).collect();
    let quoted_close = |sim: &mut Sim, rng: &mut rand::rngs::StdRng| -> Option<usize> {
        let (tx, mut rx) = oneshot::channel();
        let _g = sim.rt.enter();
        let _ = sim.nodes[0].drv.verif_handle_local_cmd(LocalSwarmCmd::GetLocalQuotingMetrics { key: RecordKey::from(gen::bytes(rng, 32)), sender: tx });
        rx.try_recv().ok().map(|(qm, _)| qm.close_records_stored)
    };
    let quoted_before = quoted_close(&mut sim, &mut cx.rng);
    {
        let _g = sim.rt.enter();
        let _ = sim.nodes[0].drv.verif_handle_local_cmd(LocalSwarmCmd::TriggerIrrelevantRecordCleanup);
    }
    sim.settle(&mut d);
    let snap_after = sim.nodes[0].drv.verif_store_mut().expect("store").verif_snapshot();
    let after: BTreeSet<Vec<u8>> = snap_after.records.iter().map(|(k, _, _)| k.to_vec()).collect();
    let quoted_after = quoted_close(&mut sim, &mut cx.rng);
    // whatever the clean-up did, the farthest-record marker must name the farthest record still held
    {
        let true_far = after.iter().map(|k| (ref_distance(&me.to_bytes(), k), k.clone())).max();
        let got_far = snap_after.farthest_record.as_ref().map(|(k, dd)| (from_u256(dd), k.to_vec()));
        if true_far != got_far && !after.is_empty() {
            cx.violation("farthest-record-wrong", format!("after a clean-up of {} -> {} records the store's farthest record is {:?}, the farthest held record is {:?}", before.len(), after.len(), got_far.map(|(dd, _)| short_hex(&dd)), true_far.map(|(dd, _)| short_hex(&dd))), json!({"held": before.len(), "kept": after.len()}));
        }
    }
    cx.eval();
    cx.count("large-cleanups");
    let applies = with_range && before.len() >= 16 * 1024 / 10;
    let w = json!({"held": before.len(), "range_set": with_range, "kept": after.len()});
    if !applies {
        if before != after {
            cx.violation("cleanup-applied-when-it-must-not", format!("clean-up changed the held set ({} -> {}) although the store holds {} records (< 1638) or no range is set ({with_range})", before.len(), after.len(), before.len()), w);
        }
    } else {
        for k in &before {
            let dk = ref_distance(&me.to_bytes(), k);
            let kept = after.contains(k);
            if dk < range && !kept {
                cx.violation("cleanup-removed-in-range-record", format!("clean-up removed a record inside the responsible range (d={} < range {})", short_hex(&dk), short_hex(&range)), w.clone());
                break;
            }
            if dk > range && kept {
                cx.violation("cleanup-kept-out-of-range-record", format!("clean-up kept a record outside the responsible range (d={} > range {})", short_hex(&dk), short_hex(&range)), w.clone());
                break;
            }
        }
        if !after.is_subset(&before) {
            cx.violation("cleanup-added-records", "clean-up added records".to_string(), w.clone());
        }
        // a record the clean-up removed is gone for readers too (the most recently put ones are still in the cache
        // when the clean-up runs), and it can be stored again later
        let removed: Vec<&Vec<u8>> = keys.iter().rev().filter(|k| before.contains(*k) && !after.contains(*k)).take(40).collect();
        for k in &removed {
            cx.eval();
            if sim.get_local(0, &RecordKey::from((*k).clone())).is_some() {
                cx.violation("cleaned-up-record-still-readable", format!("a record removed by the clean-up (d={}) is still returned by get", short_hex(&ref_distance(&me.to_bytes(), k))), w.clone());
                break;
            }
        }
        cx.count_n("cleaned-up-records-read-back", removed.len() as u64);
        // the records a quote counts as "within the responsible range" are exactly those the clean-up keeps
        // (the range is the distance of a held record here, so one record sits exactly on the edge)
        cx.count("quotes-judged-against-cleanup");
        if let Some(q) = quoted_before {
            if q != after.len() {
                cx.violation("quote-close-records-differ-from-what-cleanup-keeps", format!("before the clean-up the quote counted {q} records within the responsible range, the clean-up kept {} (held before: {})", after.len(), before.len()), w.clone());
            }
        }
        if let Some(q) = quoted_after {
            if q != after.len() {
                cx.violation("quote-close-records-wrong", format!("after the clean-up the quote counts {q} records within range, {} are held and all of them are in range", after.len()), w);
            }
        }
    }
    cx.nontrivial(&("large", n, with_range, cx.index));
    drop(sim);
    let _ = std::fs::remove_dir_all(&root);
}

impl Check for C10 {
    fn id(&self) -> &'static str {
        "C10"
    }
    fn rule(&self) -> String {
        "each case: a real node store with capacity 3-40 (cache 1-25), a history of 30-150 steps: puts of new keys chosen closer / farther than the current farthest held record, overwrites (incl. of the farthest record), acknowledgements delivered immediately, late or after bursts of 2-6 unacknowledged writes (disk tasks parked at gates, released in random order), responsible-range updates, clean-up triggers, payment notifications and quiesced restarts. \
         Judged: (a) records <= capacity + writes in flight after every step; (b) at capacity with nothing in flight a new key is accepted iff closer than the farthest held record, evicting exactly that record, a refusal changes nothing and the refused record is neither readable nor accepted on an identical retry; (c) clean-up changes nothing below 1638 records / without a range and removes exactly the out-of-range records above (every 20th case holds 900-1800 records); \
         (d) quoted close_records_stored / max_records / received_payment_count equal the true values, the payment count surviving restarts; (e) at quiescent points the distance index equals {metric(k)->k}, the farthest record is the arg-max and every indexed record is readable. Non-trivial: a history with at least one eviction, one refusal and one burst; distinct = history hash."
            .into()
    }
    fn assumptions(&self) -> Vec<String> {
        vec![
            "capacity decisions are judged only in the state where 'at capacity' is unambiguous: index full and no write in flight".into(),
            "distance == range is not judged (the code counts strictly-below; the statement does not settle the boundary)".into(),
            "restarts are quiesced (all disk tasks incl. the metrics flush have completed); build_node resets the limits, which the harness re-applies through the guarded hook".into(),
        ]
    }
    fn cases(&self, tier: Tier) -> u64 {
        tier.pick(1_000, 8_000)
    }
    fn min_nontrivial(&self, tier: Tier) -> u64 {
        tier.pick(300, 2_000)
    }
    fn shard_budget(&self, tier: Tier) -> std::time::Duration {
        tier.pick(std::time::Duration::from_secs(200), std::time::Duration::from_secs(1500))
    }
    fn required_counters(&self, _tier: Tier) -> Vec<&'static str> {
        vec!["capacity-decisions-judged", "evictions", "refusals", "quotes-judged", "restarts", "large-cleanups", "bursts", "identical-reputs-at-capacity"]
    }
    fn lane_cases(&self, tier: Tier) -> u64 {
        tier.pick(6, 48)
    }
    fn run_case(&self, cx: &mut Cx) {
        if cx.index >= LANE_BASE {
            return crate::realcases::c10_case(cx);
        }
        if cx.index % 20 == 19 {
            large_cleanup_case(cx);
            return;
        }
        // one case in three: another node's store lives in this process first (several nodes of one process, a node
        // re-created under a new identity) and holds the keys this case is going to use; nothing of it may show here
        let mut pool: Vec<Vec<u8>> = vec![];
        if cx.rng.gen_bool(0.33) {
            let root2 = scratch_dir("c10n");
            let mut sim2 = Sim::new(cx.rng.gen(), false);
            sim2.policy = Policy::Fifo;
            sim2.set_gates_controlled(false);
            sim2.add_node(gen::ed_keypair(&mut cx.rng), root2.clone(), false);
            for i in 0..160u64 {
                let k = gen::bytes(&mut cx.rng, 32);
                let value = value_with_id(&mut cx.rng, RecordKind::Chunk, 1_000_000 + i, 10);
                {
                    let _g = sim2.rt.enter();
                    let _ = sim2.nodes[0].drv.verif_handle_local_cmd(LocalSwarmCmd::PutLocalRecord { record: Record { key: RecordKey::from(k.clone()), value, publisher: None, expires: None } });
                }
                pool.push(k);
            }
            let mut d = || true;
            let _ = sim2.settle(&mut d);
            drop(sim2);
            let _ = std::fs::remove_dir_all(&root2);
            cx.count("cases-after-another-store-of-the-process-held-the-keys");
        }
        let root = scratch_dir("c10");
        let mut sim = Sim::new(cx.rng.gen(), false);
        sim.policy = Policy::Random;
        sim.set_gates_controlled(true);
        let kp = gen::ed_keypair(&mut cx.rng);
        let me = PeerId::from(kp.public());
        sim.add_node(kp.clone(), root.clone(), false);
        let cap = cx.rng.gen_range(3..=40);
        let cache = *[1usize, 2, 4, 25].choose(&mut cx.rng).expect("nonempty");
        sim.nodes[0].drv.verif_store_mut().expect("store").verif_set_limits(cap, cache);
        let ev0 = cx.report.counters.get("evictions").copied().unwrap_or(0);
        let rf0 = cx.report.counters.get("refusals").copied().unwrap_or(0);
        let mut r = Run { cx, sim, me, cap, cache, held: BTreeMap::new(), inflight: vec![], values: BTreeMap::new(), payments: 0, range: None, hist: vec![], next_id: 0, overshoot_seen: false, credit: 0, evicted_with_write_in_flight: BTreeSet::new(), prev_index: BTreeSet::new(), expected_removed: BTreeSet::new(), pool };
        let nsteps = r.cx.rng.gen_range(30..=150);
        let (mut n_evict0, mut bursts) = (0u64, 0u64);
        let _ = &mut n_evict0;
        for _ in 0..nsteps {
            let full = r.held.len() >= r.cap;
            match r.cx.rng.gen_range(0..100) {
                0..=44 => {
                    // a new key; when full, aim closer or farther than the farthest held record
                    let far = r.farthest_held().map(|(_, d)| d);
                    let closer = r.cx.rng.gen_bool(0.6);
                    let k = r.fresh_key(if full { far } else { None }, closer);
                    // decisions are judged in the quiet state half of the time
                    if r.cx.rng.gen_bool(0.5) && !r.settle() {
                        break;
                    }
                    r.put(k, if closer { "new-closer" } else { "new-farther" });
                    let n = r.cx.rng.gen_range(0..4);
                    r.progress(n);
                }
                45..=56 => {
                    // burst of unacknowledged writes of new keys
                    if !r.settle() {
                        break;
                    }
                    bursts += 1;
                    r.cx.count("bursts");
                    let n = r.cx.rng.gen_range(2..=6);
                    for _ in 0..n {
                        let far = r.farthest_held().map(|(_, d)| d);
                        let k = r.fresh_key(if r.held.len() >= r.cap { far } else { None }, true);
                        r.put(k, "burst");
                    }
                    let n = r.cx.rng.gen_range(0..20);
                    r.progress(n);
                }
                57..=66 => {
                    // overwrite of a held key (the farthest one half of the time)
                    let target = if r.cx.rng.gen_bool(0.5) { r.farthest_held().map(|(k, _)| k) } else { r.held.keys().cloned().collect::<Vec<_>>().choose(&mut r.cx.rng).cloned() };
                    // judged (never refused) when nothing is in flight
                    if r.cx.rng.gen_bool(0.5) && !r.settle() {
                        break;
                    }
                    if let Some(k) = target {
                        r.put(k, "overwrite");
                        // sometimes immediately followed by a closer new key while the overwrite is in flight
                        if r.cx.rng.gen_bool(0.4) {
                            let far = r.farthest_held().map(|(_, d)| d);
                            let nk = r.fresh_key(far, true);
                            r.put(nk, "new-closer-during-overwrite");
                        }
                        let n = r.cx.rng.gen_range(0..6);
                        r.progress(n);
                    }
                }
                67..=70 => {
                    let n = r.cx.rng.gen_range(1..12);
                    r.progress(n);
                }
                71..=74 => r.reput_identical(),
                75..=80 => {
                    // responsible range around the held distances
                    let ds: Vec<D32> = r.held.keys().map(|k| r.d(k)).collect();
                    if let Some(d) = ds.choose(&mut r.cx.rng) {
                        let rg = if r.cx.rng.gen_bool(0.5) { inc(d) } else { dec(d) };
                        r.sim.nodes[0].drv.verif_set_distance_range(to_u256(&rg));
                        r.range = Some(rg);
                        r.hist.push(json!({"set_range": short_hex(&rg)}));
                    }
                }
                81..=85 => {
                    // clean-up far below the threshold must change nothing
                    if !r.settle() {
                        break;
                    }
                    let before = r.snapshot().records.len();
                    {
                        let _g = r.sim.rt.enter();
                        let _ = r.sim.nodes[0].drv.verif_handle_local_cmd(LocalSwarmCmd::TriggerIrrelevantRecordCleanup);
                    }
                    r.hist.push(json!("cleanup"));
                    r.settle();
                    if r.snapshot().records.len() != before {
                        r.viol("cleanup-applied-when-it-must-not", format!("clean-up changed a store of {before} records (threshold 1638)"));
                    }
                }
                86..=91 => {
                    let _g = r.sim.rt.enter();
                    let _ = r.sim.nodes[0].drv.verif_handle_local_cmd(LocalSwarmCmd::PaymentReceived);
                    drop(_g);
                    r.payments += 1;
                    r.hist.push(json!("payment_received"));
                }
                92..=95 => r.check_quiescent(),
                _ => {
                    // quiesced restart
                    if !r.settle() {
                        break;
                    }
                    r.check_quiescent();
                    let started = r.snapshot().timestamp;
                    // index entries whose file is gone do not survive a restart: expected for the known ghost entries
                    let ghosts: Vec<Vec<u8>> = r.evicted_with_write_in_flight.iter().cloned().collect();
                    for g in &ghosts {
                        r.held.remove(g);
                    }
                    r.expected_removed.extend(ghosts);
                    r.sim.bury_background_tasks();
                    r.sim.crash_node(0);
                    // one restart in four finds a start time that lies ahead of the clock (the clock was set back while the
                    // node was down, or the directory moved to a host whose clock is behind): the payments still count
                    let mut started = started;
                    if r.cx.rng.gen_bool(0.25) {
                        #[derive(serde::Serialize)]
                        struct HistoricQuotingMetrics {
                            received_payment_count: usize,
                            timestamp: std::time::SystemTime,
                        }
                        let ahead = std::time::SystemTime::now() + std::time::Duration::from_secs(r.cx.rng.gen_range(120..200_000));
                        let mut stack = vec![root.clone()];
                        let mut written = false;
                        while let Some(d) = stack.pop() {
                            for e in std::fs::read_dir(&d).into_iter().flatten().flatten() {
                                let p = e.path();
                                if p.is_dir() {
                                    stack.push(p);
                                } else if p.file_name().map(|n| n == "historic_quoting_metrics").unwrap_or(false) {
                                    if let Ok(old) = std::fs::read(&p) {
                                        if let Ok((count, _ts)) = rmp_serde::from_slice::<(usize, std::time::SystemTime)>(&old) {
                                            let bytes = rmp_serde::to_vec(&HistoricQuotingMetrics { received_payment_count: count, timestamp: ahead }).expect("rmp");
                                            written = std::fs::write(&p, bytes).is_ok();
                                        }
                                    }
                                }
                            }
                        }
                        if written {
                            started = ahead;
                            r.cx.count("restarts-with-a-start-time-ahead-of-the-clock");
                            r.hist.push(json!("clock-set-back"));
                        }
                    }
                    r.sim.set_gates_controlled(true);
                    r.sim.add_node(kp.clone(), root.clone(), false);
                    r.sim.nodes[0].drv.verif_store_mut().expect("store").verif_set_limits(r.cap, r.cache);
                    if let Some(rg) = r.range {
                        r.sim.nodes[0].drv.verif_set_distance_range(to_u256(&rg));
                    }
                    r.cx.count("restarts");
                    r.hist.push(json!("restart"));
                    if !r.settle() {
                        break;
                    }
                    let snap = r.snapshot();
                    if snap.timestamp != started {
                        r.viol("start-time-not-restored", "the store's start time (live_time basis of quotes) changed across a quiesced restart".to_string());
                    }
                    r.check_quiescent();
                }
            }
        }
        r.check_quiescent();
        let evictions = r.cx.report.counters.get("evictions").copied().unwrap_or(0) - ev0;
        let refusals = r.cx.report.counters.get("refusals").copied().unwrap_or(0) - rf0;
        if evictions > 0 && refusals > 0 && bursts > 0 {
            let hh = h64(&serde_json::to_string(&r.hist).unwrap_or_default());
            r.cx.nontrivial(&hh);
        }
        if r.cx.index < 2 {
            let head: Vec<_> = r.hist.iter().take(10).cloned().collect();
            r.cx.sample(json!({"capacity": cap, "cache": cache, "steps": nsteps, "first_steps": head}));
        }
        let Run { sim, .. } = r;
        drop(sim);
        let _ = std::fs::remove_dir_all(&root);
    }
}
