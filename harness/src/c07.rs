//! C07 — mutable records never regress and hold only owner-signed content.

use crate::c03::{build_proof, node_sim, Conds};
use crate::common::*;
use crate::gen;
use crate::sim::Policy;
use ant_protocol::storage::{try_deserialize_record, try_serialize_record, RecordKind, Scratchpad, Transaction};
use ant_registers::{Permissions, RegisterOp, SignedRegister};
use bls::SecretKey;
use libp2p::kad::{Record, RecordKey};
use rand::{seq::SliceRandom, Rng};
use serde_json::json;
use std::collections::BTreeSet;
use xor_name::XorName;

pub struct C07;

#[derive(Clone, Copy, Debug, PartialEq, Eq)]
enum Path {
    PaidUpload,
    UnpaidUpdate,
    Replication,
}

#[derive(Clone)]
struct Delivery {
    path: Path,
    record: Record,
    label: String,
    /// what a valid delivery contributes
    pad: Option<(u64, Vec<u8>)>, // (counter, record value) of a validly signed pad of the right owner
    txs: Vec<Transaction>,       // validly signed transactions of the key's owner
    ops: Vec<RegisterOp>,        // permitted ops of a verifying register with the same base
}

enum Family {
    Pad { owner: SecretKey },
    Tx { owner: SecretKey },
    Reg { owner: SecretKey, base: SignedRegister },
}

struct KeyCase {
    key: RecordKey,
    content: XorName,
    fam: Family,
}

fn make_pad_delivery(cx: &mut Cx, kc: &KeyCase, owner: &SecretKey, counter: u64) -> (Record, String, Option<(u64, Vec<u8>)>) {
    let other = gen::bls_sk(&mut cx.rng);
    let data = gen::bytes_r(&mut cx.rng, 0, 120);
    match cx.rng.gen_range(0..100) {
        0..=69 => {
            let p = gen::pad(owner, counter, &data, 0);
            let r = gen::pad_record(&p);
            let v = r.value.clone();
            (r, format!("valid#{counter}"), Some((counter, v)))
        }
        70..=72 => {
            // as created and never signed: counter 0, no payload, no signature
            let p = Scratchpad::new(owner.public_key(), 0);
            (gen::pad_record(&p), "never-signed#0".to_string(), None)
        }
        73..=77 => {
            let mut raw = gen::RawPad::from_pad(&gen::pad(owner, counter, &data, 0));
            raw.signature = None;
            (gen::pad_record(&raw.to_pad()), format!("unsigned#{counter}"), None)
        }
        78..=81 => {
            // right address, signature by somebody else
            let mut raw = gen::RawPad::from_pad(&gen::pad(owner, counter, &data, 0));
            raw.sign(&other);
            (gen::pad_record(&raw.to_pad()), format!("signed-by-other#{counter}"), None)
        }
        82..=85 => {
            // another owner's genuine pad - seen and validated in this process before - with its counter, payload and
            // signature transplanted under THIS owner's address (whatever the earlier validation left behind must not vouch for it)
            let theirs = gen::pad(&other, counter, &data, 0);
            let _ = theirs.is_valid();
            let mut raw = gen::RawPad::from_pad(&theirs);
            raw.address = ant_protocol::storage::ScratchpadAddress::new(owner.public_key());
            (gen::pad_record(&raw.to_pad()), format!("signed-by-other#{counter}(transplanted)"), None)
        }
        86..=92 => {
            // another owner's (valid) pad presented under this key
            let p = gen::pad(&other, counter, &data, 0);
            let mut r = gen::pad_record(&p);
            r.key = kc.key.clone();
            (r, format!("other-owners-pad#{counter}"), None)
        }
        _ => {
            // signature over other data (payload swapped after signing)
            let mut raw = gen::RawPad::from_pad(&gen::pad(owner, counter, &data, 0));
            raw.encrypted_data = bytes::Bytes::from(gen::bytes_r(&mut cx.rng, 1, 50));
            (gen::pad_record(&raw.to_pad()), format!("payload-swapped#{counter}"), None)
        }
    }
}

fn wrap_paid(cx: &mut Cx, env: &crate::c03::PayEnv, stub: &crate::stub::VaultStub, content: XorName, plain: &Record, fam: &Family) -> Option<Record> {
    let proof = build_proof(&mut cx.rng, env, content, 3, Conds::all(), stub);
    let value = match fam {
        Family::Pad { .. } => {
            let p: Scratchpad = try_deserialize_record(plain).ok()?;
            try_serialize_record(&(proof, p), RecordKind::ScratchpadWithPayment).ok()?.to_vec()
        }
        Family::Tx { .. } => {
            let t: Vec<Transaction> = try_deserialize_record(plain).ok()?;
            try_serialize_record(&(proof, t.first()?.clone()), RecordKind::TransactionWithPayment).ok()?.to_vec()
        }
        Family::Reg { .. } => {
            let r: SignedRegister = try_deserialize_record(plain).ok()?;
            try_serialize_record(&(proof, r), RecordKind::RegisterWithPayment).ok()?.to_vec()
        }
    };
    Some(Record { key: plain.key.clone(), value, publisher: None, expires: None })
}

impl Check for C07 {
    fn id(&self) -> &'static str {
        "C07"
    }
    fn rule(&self) -> String {
        "each case: a real node (driver, store, Node validation, vault stub confirming payments) and 2-3 mutable keys (scratchpad, transaction set, register); per key 4-9 rounds, each delivering 1-3 records at the same time through the paid-upload, unpaid-update and replication paths: scratchpads with fresh / stale / equal counters, unsigned, signed by another key, another owner's pad, payload swapped after signing; transactions valid, forged, of a foreign owner, mixed vectors; registers with permitted, unauthorised and forged operations and replicas of another base register. \
         The stored value of each key is sampled after every local command that touches it (version history) and at quiescence. Judged: every stored scratchpad is validly signed by the key's owner, its counter never decreases and never changes at equal counter, and at quiescence it is at least the highest counter among deliveries the node accepted (Ok) and among valid paid / replicated deliveries; stored transaction sets and register op sets only grow, contain only validly signed entries of that owner / permitted ops of that base, and contain everything from accepted and from valid paid / replicated deliveries. \
         A loss that involves deliveries overlapping in time on one key carries the suffix ':concurrent-deliveries-to-one-key'. Non-trivial: a key that saw a stale or equal-counter (or duplicate) delivery, an invalid delivery and a multi-delivery round; distinct = hash of the delivery labels and rounds."
            .into()
    }
    fn assumptions(&self) -> Vec<String> {
        vec![
            "an unpaid update of a key the node does not hold yet may be refused (C03), so only accepted (Ok) deliveries and valid paid / replicated deliveries are required to be reflected".into(),
            "same-key disk tasks and local commands keep spawn order; concurrency is between the validations (read local copy - check - write) of simultaneous deliveries".into(),
        ]
    }
    fn cases(&self, tier: Tier) -> u64 {
        tier.pick(480, 5_000)
    }
    fn min_nontrivial(&self, tier: Tier) -> u64 {
        tier.pick(300, 3_000)
    }
    fn shard_budget(&self, tier: Tier) -> std::time::Duration {
        tier.pick(std::time::Duration::from_secs(220), std::time::Duration::from_secs(1500))
    }
    fn required_counters(&self, _tier: Tier) -> Vec<&'static str> {
        vec!["deliveries:pad", "deliveries:tx", "deliveries:reg", "rounds:concurrent", "rounds:single", "rounds:back-to-back", "rounds:back-to-back-on-a-new-key", "path:PaidUpload", "path:UnpaidUpdate", "path:Replication"]
    }
    fn lane_cases(&self, tier: Tier) -> u64 {
        tier.pick(8, 64)
    }
    fn run_case(&self, cx: &mut Cx) {
        if cx.index >= LANE_BASE {
            return crate::realcases::c07_case(cx);
        }
        if cx.index % 64 == 9 {
            return long_lived_register_case(cx);
        }
        let root = scratch_dir("c07");
        let (mut sim, env) = node_sim(cx, &root, 0);
        // half of the cases park the store's disk tasks at the gates, which allows "back-to-back" rounds: the next
        // delivery starts as soon as the previous one has returned, while its disk write is still unacknowledged
        let controlled = cx.rng.gen_bool(0.5);
        sim.set_gates_controlled(controlled);
        sim.policy = if cx.rng.gen_bool(0.5) { Policy::Random } else { Policy::Fifo };
        sim.stub.as_ref().expect("stub").set_default(Some(500));
        let node = sim.nodes[0].node.clone().expect("node layer");
        let nkeys = cx.rng.gen_range(2..=3);
        let mut all_labels = vec![];
        for ki in 0..nkeys {
            // ---- the key and its family
            let owner = gen::bls_sk(&mut cx.rng);
            let writer = gen::bls_sk(&mut cx.rng);
            let outsider = gen::bls_sk(&mut cx.rng);
            let kc = match (ki + cx.index as usize) % 3 {
                0 => {
                    let p = gen::pad(&owner, 0, b"", 0);
                    KeyCase { key: gen::pad_key(&p), content: p.address().xorname(), fam: Family::Pad { owner: owner.clone() } }
                }
                1 => KeyCase { key: gen::tx_key(&owner.public_key()), content: *gen::transaction(&mut cx.rng, &owner).address().xorname(), fam: Family::Tx { owner: owner.clone() } },
                _ => {
                    let base = gen::register(&owner, XorName(cx.rng.gen()), Permissions::new_with([writer.public_key()]));
                    KeyCase { key: gen::reg_key(base.address()), content: base.address().xorname(), fam: Family::Reg { owner: owner.clone(), base } }
                }
            };
            sim.watch.push((0, kc.key.to_vec()));
            let fam_label = match kc.fam {
                Family::Pad { .. } => "pad",
                Family::Tx { .. } => "tx",
                Family::Reg { .. } => "reg",
            };
            // ---- oracle state
            let mut must_counter: u64 = 0; // highest counter that must be reflected
            let mut has_must_pad = false;
            let mut valid_pad_values: Vec<(u64, Vec<u8>)> = vec![];
            let mut must_txs: BTreeSet<Transaction> = BTreeSet::new();
            let mut valid_txs: BTreeSet<Transaction> = BTreeSet::new();
            let mut must_ops: BTreeSet<RegisterOp> = BTreeSet::new();
            let mut valid_ops: BTreeSet<RegisterOp> = BTreeSet::new();
            let mut reg_heads: Vec<[u8; 32]> = vec![];
            let mut next_counter: u64 = 1;
            let (mut saw_stale, mut saw_invalid, mut saw_concurrent) = (false, false, false);
            let mut concurrent_involved = false;
            let rounds = cx.rng.gen_range(4..=9);
            let mut round_spans: Vec<(u64, u64, bool)> = vec![];
            for round in 0..rounds {
                let back_to_back = controlled && cx.rng.gen_bool(0.3);
                let n = if back_to_back { cx.rng.gen_range(2..=3) } else if round == 0 { 1 } else { *[1usize, 1, 2, 2, 3].choose(&mut cx.rng).expect("nonempty") };
                let mut deliveries: Vec<Delivery> = vec![];
                for _ in 0..n {
                    let path = if round == 0 { *[Path::PaidUpload, Path::Replication].choose(&mut cx.rng).expect("nonempty") } else { *[Path::PaidUpload, Path::UnpaidUpdate, Path::UnpaidUpdate, Path::Replication, Path::Replication].choose(&mut cx.rng).expect("nonempty") };
                    let (record, label, pad, txs, ops): (Record, String, Option<(u64, Vec<u8>)>, Vec<Transaction>, Vec<RegisterOp>) = match &kc.fam {
                        Family::Pad { owner } => {
                            let counter = match cx.rng.gen_range(0..10) {
                                0..=5 => {
                                    // mostly small steps; sometimes a jump across 2^63 or to the very top of the range
                                    next_counter = match cx.rng.gen_range(0..40) {
                                        0 => next_counter.max((1u64 << 63) + cx.rng.gen_range(0..10)),
                                        1 => next_counter.max(u64::MAX - cx.rng.gen_range(1..50)),
                                        _ => next_counter.saturating_add(cx.rng.gen_range(1..4)),
                                    };
                                    if next_counter >= (1u64 << 63) {
                                        cx.count("scratchpad-counters-above-2^63");
                                    }
                                    next_counter
                                }
                                6..=7 => {
                                    saw_stale = true;
                                    cx.rng.gen_range(0..=next_counter.saturating_sub(1))
                                }
                                _ => {
                                    saw_stale = true;
                                    next_counter // equal to the highest issued so far, with different data
                                }
                            };
                            let (r, l, p) = make_pad_delivery(cx, &kc, owner, counter);
                            (r, l, p, vec![], vec![])
                        }
                        Family::Tx { owner } => {
                            let mut v: Vec<Transaction> = vec![];
                            let mut good = vec![];
                            let mut label = String::new();
                            for _ in 0..cx.rng.gen_range(1..=3) {
                                match cx.rng.gen_range(0..10) {
                                    0..=5 => {
                                        let t = gen::transaction(&mut cx.rng, owner);
                                        good.push(t.clone());
                                        v.push(t);
                                        label.push('v');
                                    }
                                    6 => {
                                        if let Some(t) = valid_txs.iter().next().cloned() {
                                            saw_stale = true;
                                            good.push(t.clone());
                                            v.push(t);
                                            label.push('d'); // duplicate of an earlier one
                                        }
                                    }
                                    7..=8 => {
                                        let mut t = gen::transaction(&mut cx.rng, owner);
                                        t.content[0] ^= 1; // signature no longer matches
                                        v.push(t);
                                        label.push('f');
                                    }
                                    _ => {
                                        v.push(gen::transaction(&mut cx.rng, &outsider));
                                        label.push('o'); // another owner's transaction
                                    }
                                }
                            }
                            if v.is_empty() {
                                let t = gen::transaction(&mut cx.rng, owner);
                                good.push(t.clone());
                                v.push(t);
                                label.push('v');
                            }
                            (gen::txs_record(kc.key.clone(), &v), format!("txs[{label}]"), None, good, vec![])
                        }
                        Family::Reg { owner, base } => {
                            let mut replica = base.clone();
                            let addr = *base.address();
                            let mut good = vec![];
                            let mut label = String::new();
                            let forged_whole = cx.rng.gen_range(0..10);
                            for _ in 0..cx.rng.gen_range(1..=3) {
                                let children: BTreeSet<[u8; 32]> = if !reg_heads.is_empty() && cx.rng.gen_bool(0.5) { [*reg_heads.choose(&mut cx.rng).expect("nonempty")].into_iter().collect() } else { BTreeSet::new() };
                                let signer = if cx.rng.gen_bool(0.6) { owner } else { &writer };
                                let op = gen::reg_op(addr, gen::bytes_r(&mut cx.rng, 1, 40), children, signer);
                                reg_heads.push(gen::RawOp::from_op(&op).crdt_op.hash());
                                if replica.add_op(op.clone()).is_ok() {
                                    good.push(op);
                                    label.push('v');
                                }
                            }
                            if cx.rng.gen_bool(0.25) {
                                if let Some(op) = valid_ops.iter().next().cloned() {
                                    saw_stale = true;
                                    let _ = replica.add_op(op.clone());
                                    good.push(op);
                                    label.push('d');
                                }
                            }
                            // a replica carrying an op that must never enter: inject it past add_op through serde
                            let rec = if forged_whole < 3 {
                                let bad = match forged_whole {
                                    0 => gen::reg_op(addr, vec![6, 6, 6], BTreeSet::new(), &outsider), // unauthorised signer
                                    1 => {
                                        let mut raw = gen::RawOp::from_op(&gen::reg_op(addr, vec![7, 7], BTreeSet::new(), owner));
                                        raw.signature = outsider.sign(b"x");
                                        raw.to_op()
                                    }
                                    _ => gen::reg_op(addr, vec![1u8; 1025], BTreeSet::new(), owner), // oversized entry
                                };
                                let mut ops: BTreeSet<RegisterOp> = replica.ops().clone();
                                ops.insert(bad);
                                let sig = owner.sign(base.base_register().bytes().expect("bytes"));
                                let forged = SignedRegister::new(base.base_register().clone(), sig, ops);
                                label.push('X');
                                good.clear(); // the whole replica fails verification: nothing from it is required
                                gen::reg_record(&forged)
                            } else if forged_whole == 3 {
                                // a replica of another base register (other permissions) under this key
                                let other = gen::register(owner, XorName(cx.rng.gen()), Permissions::new_anyone_can_write());
                                let mut r = gen::reg_record(&other);
                                r.key = kc.key.clone();
                                label.push('B');
                                good.clear();
                                r
                            } else {
                                gen::reg_record(&replica)
                            };
                            (rec, format!("reg[{label}]"), None, vec![], good)
                        }
                    };
                    // a scratchpad and the transactions of one owner share their record key: now and then a valid record of
                    // the *other* kind of the same owner arrives for the key (never as a paid upload of this family)
                    let mut path = path;
                    let (mut record, mut label, mut pad, mut txs, mut ops) = (record, label, pad, txs, ops);
                    // (only while the node holds a record of this family under the key: on a free key either kind is
                    // a legitimate first record)
                    let held_now = sim.get_local(0, &kc.key);
                    let holds_family = match (&kc.fam, &held_now) {
                        (Family::Pad { .. }, Some(r)) => try_deserialize_record::<Scratchpad>(r).is_ok(),
                        (Family::Tx { .. }, Some(r)) => try_deserialize_record::<Vec<Transaction>>(r).map(|v| !v.is_empty()).unwrap_or(false),
                        _ => false,
                    };
                    if round > 0 && holds_family && cx.rng.gen_bool(0.12) {
                        match &kc.fam {
                            Family::Pad { owner } if gen::tx_key(&owner.public_key()) == kc.key => {
                                record = gen::txs_record(kc.key.clone(), &vec![gen::transaction(&mut cx.rng, owner)]);
                                label = "other-kind:txs".into();
                                (pad, txs, ops) = (None, vec![], vec![]);
                                path = *[Path::UnpaidUpdate, Path::Replication].choose(&mut cx.rng).expect("nonempty");
                                cx.count("deliveries:other-kind-under-the-same-key");
                            }
                            Family::Tx { owner } => {
                                let p = gen::pad(owner, cx.rng.gen_range(1..50), &gen::bytes_r(&mut cx.rng, 1, 40), 0);
                                if gen::pad_key(&p) == kc.key {
                                    record = gen::pad_record(&p);
                                    label = "other-kind:pad".into();
                                    (pad, txs, ops) = (None, vec![], vec![]);
                                    path = *[Path::UnpaidUpdate, Path::Replication].choose(&mut cx.rng).expect("nonempty");
                                    cx.count("deliveries:other-kind-under-the-same-key");
                                }
                            }
                            _ => {}
                        }
                    }
                    if pad.is_none() && txs.is_empty() && ops.is_empty() {
                        saw_invalid = true;
                    }
                    if path == Path::PaidUpload {
                        // a paid transaction upload carries exactly one transaction: the first of the vector
                        if let Family::Tx { .. } = &kc.fam {
                            let first: Option<Transaction> = try_deserialize_record::<Vec<Transaction>>(&record).ok().and_then(|v| v.first().cloned());
                            txs.retain(|t| Some(t) == first.as_ref());
                        }
                        match wrap_paid(cx, &env, sim.stub.as_ref().expect("stub"), kc.content, &record, &kc.fam) {
                            Some(r) => record = r,
                            None => continue,
                        }
                    }
                    deliveries.push(Delivery { path, record, label, pad, txs, ops });
                }
                if deliveries.is_empty() {
                    continue;
                }
                let concurrent = deliveries.len() > 1 && !back_to_back;
                if concurrent {
                    saw_concurrent = true;
                    cx.count("rounds:concurrent");
                } else if back_to_back {
                    cx.count("rounds:back-to-back");
                    if round == 0 {
                        cx.count("rounds:back-to-back-on-a-new-key");
                    }
                } else {
                    cx.count("rounds:single");
                }
                // ---- deliver all of the round at once, then let everything settle
                let span_start = sim.steps;
                let mut handles = vec![];
                let mut b2b_ok = true;
                for d in &deliveries {
                    let (n2, rec, path) = (node.clone(), d.record.clone(), d.path);
                    handles.push(sim.spawn(async move {
                        match path {
                            Path::Replication => n2.store_replicated_in_record(rec).await,
                            _ => n2.validate_and_store_record(rec).await,
                        }
                    }));
                    cx.count(&format!("deliveries:{fam_label}"));
                    cx.count(&format!("path:{:?}", d.path));
                    if back_to_back {
                        // sequential at the API boundary: wait until this delivery has returned (its commands are
                        // handled, its disk write stays parked and unacknowledged), then start the next one
                        sim.hold_gates = true;
                        let mut done = || handles.iter().all(|h| h.is_finished());
                        b2b_ok &= sim.settle(&mut done);
                        sim.hold_gates = false;
                    }
                }
                let settled = b2b_ok && {
                    let mut done = || handles.iter().all(|h| h.is_finished());
                    sim.settle(&mut done)
                };
                round_spans.push((span_start, sim.steps, concurrent));
                if !settled {
                    cx.inconclusive("a round of deliveries did not settle");
                    break;
                }
                let results: Vec<Option<Result<(), String>>> = handles.into_iter().map(|h| sim.join(h)).collect();
                cx.eval();
                for (d, r) in deliveries.iter().zip(results.iter()) {
                    all_labels.push(format!("k{ki}r{round}:{:?}:{}:{}", d.path, d.label, match r { Some(Ok(())) => "ok", Some(Err(_)) => "err", None => "?" }));
                    let accepted = matches!(r, Some(Ok(())));
                    let unconditional = d.path != Path::UnpaidUpdate;
                    if let Some((c, v)) = &d.pad {
                        valid_pad_values.push((*c, v.clone()));
                        if accepted || unconditional {
                            if *c > must_counter || !has_must_pad {
                                must_counter = (*c).max(must_counter);
                            }
                            has_must_pad = true;
                            if concurrent && *c >= must_counter {
                                concurrent_involved = true;
                            }
                        }
                    }
                    for t in &d.txs {
                        valid_txs.insert(t.clone());
                        if accepted || unconditional {
                            must_txs.insert(t.clone());
                        }
                    }
                    for o in &d.ops {
                        valid_ops.insert(o.clone());
                        if accepted || unconditional {
                            must_ops.insert(o.clone());
                        }
                    }
                    if concurrent && (accepted || unconditional) {
                        concurrent_involved = true;
                    }
                }
                // ---- quiescent judgement for this key
                let tag = if concurrent_involved { ":concurrent-deliveries-to-one-key" } else { "" };
                let stored = sim.get_local(0, &kc.key);
                let w = json!({"key_family": fam_label, "round": round, "deliveries": all_labels.iter().filter(|l| l.starts_with(&format!("k{ki}"))).cloned().collect::<Vec<_>>(), "policy": format!("{:?}", sim.policy)});
                match &kc.fam {
                    Family::Pad { owner } => {
                        if let Some(r) = &stored {
                            match try_deserialize_record::<Scratchpad>(r) {
                                Ok(p) => {
                                    if !p.is_valid() || *p.owner() != owner.public_key() {
                                        cx.violation("stored-scratchpad-not-owner-signed", format!("stored scratchpad (counter {}) is not validly signed by the key's owner", p.count()), w.clone());
                                    }
                                    if has_must_pad && p.count() < must_counter {
                                        cx.violation(format!("scratchpad-update-lost{tag}"), format!("stored counter is {} although a validly signed update with counter {must_counter} was accepted / delivered", p.count()), w.clone());
                                        must_counter = p.count(); // reported once
                                    }
                                    if !valid_pad_values.iter().any(|(_, v)| *v == r.value) {
                                        cx.violation("stored-scratchpad-never-delivered", "the stored scratchpad is none of the validly signed versions delivered".to_string(), w.clone());
                                    }
                                }
                                Err(_) => cx.violation("stored-scratchpad-undecodable", "stored record under a scratchpad key does not decode".to_string(), w.clone()),
                            }
                        } else if has_must_pad {
                            cx.violation(format!("scratchpad-update-lost{tag}"), "no scratchpad is stored although a valid paid / replicated delivery was made".to_string(), w.clone());
                        }
                    }
                    Family::Tx { owner } => {
                        let listed: Vec<Transaction> = stored.as_ref().and_then(|r| try_deserialize_record::<Vec<Transaction>>(r).ok()).unwrap_or_default();
                        let set: BTreeSet<Transaction> = listed.iter().cloned().collect();
                        if set.len() != listed.len() {
                            cx.violation("stored-transaction-set-lists-a-transaction-twice", format!("the stored record lists {} transactions of which only {} are distinct", listed.len(), set.len()), w.clone());
                        }
                        for t in &set {
                            if !t.verify() || t.owner != owner.public_key() {
                                cx.violation("invalid-or-foreign-transaction-stored", "a stored transaction has an invalid signature or belongs to another owner".to_string(), w.clone());
                            } else if !valid_txs.contains(t) {
                                cx.violation("stored-transaction-never-delivered", "a stored transaction was never delivered".to_string(), w.clone());
                            }
                        }
                        let lost = must_txs.difference(&set).count();
                        if lost > 0 {
                            cx.violation(format!("transaction-lost{tag}"), format!("{lost} validly signed transaction(s) that were accepted / delivered are missing from the stored set of {}", set.len()), w.clone());
                            must_txs = must_txs.intersection(&set).cloned().collect();
                        }
                    }
                    Family::Reg { base, .. } => {
                        if let Some(r) = &stored {
                            match try_deserialize_record::<SignedRegister>(r) {
                                Ok(reg) => {
                                    if reg.verify().is_err() || reg.base_register() != base.base_register() {
                                        cx.violation("stored-register-invalid", "the stored register does not verify or has another base".to_string(), w.clone());
                                    }
                                    for o in reg.ops() {
                                        if !valid_ops.contains(o) {
                                            cx.violation("inadmissible-register-op-stored", "the stored register holds an operation that is not a permitted, validly signed one delivered for it".to_string(), w.clone());
                                        }
                                    }
                                    let lost = must_ops.difference(reg.ops()).count();
                                    if lost > 0 {
                                        cx.violation(format!("register-op-lost{tag}"), format!("{lost} permitted operation(s) that were accepted / delivered are missing from the stored register ({} ops)", reg.ops().len()), w.clone());
                                        must_ops = must_ops.intersection(reg.ops()).cloned().collect();
                                    }
                                }
                                Err(_) => cx.violation("stored-register-undecodable", "stored record under a register key does not decode".to_string(), w.clone()),
                            }
                        } else if !must_ops.is_empty() {
                            cx.violation(format!("register-op-lost{tag}"), "no register is stored although a valid paid / replicated delivery was made".to_string(), w.clone());
                        }
                    }
                }
                if !concurrent {
                    concurrent_involved = false;
                }
            }
            // ---- version history of this key (every stored version, in order)
            let history_steps: Vec<(u64, Vec<u8>)> = sim.watch_log.iter().filter(|(_, n, k, _)| *n == 0 && *k == kc.key.to_vec()).filter_map(|(st, _, _, v)| v.clone().map(|v| (*st, v))).collect();
            let history: Vec<Vec<u8>> = history_steps.iter().map(|(_, v)| v.clone()).collect();
            // a change of the stored value is attributed to the round during which it happened
            let tag_at = |idx: usize| -> &'static str {
                let st = history_steps.get(idx).map(|(s, _)| *s).unwrap_or(0);
                if round_spans.iter().any(|(a, b, c)| *c && st > *a && st <= *b) {
                    ":concurrent-deliveries-to-one-key"
                } else {
                    ""
                }
            };
            cx.eval();
            let wh = json!({"key_family": fam_label, "versions_seen": history.len(), "deliveries": all_labels.iter().filter(|l| l.starts_with(&format!("k{ki}"))).cloned().collect::<Vec<_>>()});
            match &kc.fam {
                Family::Pad { owner } => {
                    let mut last: Option<(u64, Vec<u8>)> = None;
                    for (hi, v) in history.iter().enumerate() {
                        let tagc = tag_at(hi);
                        let Ok(p) = try_deserialize_record::<Scratchpad>(&gen::record(kc.key.clone(), v.clone())) else { continue };
                        if !p.is_valid() || *p.owner() != owner.public_key() {
                            cx.violation("stored-scratchpad-not-owner-signed", format!("a stored version (counter {}) is not validly signed by the owner", p.count()), wh.clone());
                        }
                        if let Some((lc, lv)) = &last {
                            if p.count() < *lc {
                                cx.violation(format!("scratchpad-counter-regressed{tagc}"), format!("stored counter went from {lc} to {}", p.count()), wh.clone());
                            } else if p.count() == *lc && *lv != *v {
                                cx.violation(format!("scratchpad-replaced-at-equal-counter{tagc}"), format!("the stored scratchpad changed while its counter stayed {lc}"), wh.clone());
                            }
                        }
                        last = Some((p.count(), v.clone()));
                    }
                }
                Family::Tx { .. } => {
                    let mut last: BTreeSet<Transaction> = BTreeSet::new();
                    for (hi, v) in history.iter().enumerate() {
                        let tagc = tag_at(hi);
                        let set: BTreeSet<Transaction> = try_deserialize_record::<Vec<Transaction>>(&gen::record(kc.key.clone(), v.clone())).unwrap_or_default().into_iter().collect();
                        if !last.is_subset(&set) {
                            cx.violation(format!("transaction-set-shrank{tagc}"), format!("the stored transaction set went from {} to {} entries losing some", last.len(), set.len()), wh.clone());
                        }
                        last = set;
                    }
                }
                Family::Reg { .. } => {
                    let mut last: BTreeSet<RegisterOp> = BTreeSet::new();
                    for (hi, v) in history.iter().enumerate() {
                        let tagc = tag_at(hi);
                        let Ok(reg) = try_deserialize_record::<SignedRegister>(&gen::record(kc.key.clone(), v.clone())) else { continue };
                        if !last.is_subset(reg.ops()) {
                            cx.violation(format!("register-ops-shrank{tagc}"), format!("the stored register went from {} to {} ops losing some", last.len(), reg.ops().len()), wh.clone());
                        }
                        last = reg.ops().clone();
                    }
                }
            }
            if saw_stale && saw_invalid && saw_concurrent {
                cx.nontrivial(&(fam_label, all_labels.clone()));
            }
        }
        // ---- what the node holds is what it has on disk: after everything has settled the node is restarted over its
        //      directory and every watched key must read back exactly as before (a version that only lived in the read
        //      cache would fall back to an older one here)
        if cx.rng.gen_bool(0.5) {
            let mut d = || true;
            sim.set_gates_controlled(false);
            let settled = sim.settle(&mut d);
            let keys: Vec<Vec<u8>> = sim.watch.iter().map(|(_, k)| k.clone()).collect();
            let before: Vec<Option<Vec<u8>>> = keys.iter().map(|k| sim.get_local(0, &libp2p::kad::RecordKey::from(k.clone())).map(|r| r.value)).collect();
            if settled {
                sim.bury_background_tasks();
                let (kp, nroot) = sim.crash_node(0);
                let idx = sim.add_node(kp, nroot, false);
                sim.yield_rounds(8);
                cx.count("restarts-after-the-last-round");
                for (k, b) in keys.iter().zip(before.iter()) {
                    cx.eval();
                    let after = sim.get_local(idx, &libp2p::kad::RecordKey::from(k.clone())).map(|r| r.value);
                    if after != *b {
                        cx.violation("stored-version-differs-after-restart", format!("the version served before the restart ({} bytes) is not the one served after it ({})", b.as_ref().map(|v| v.len()).unwrap_or(0), after.as_ref().map(|v| format!("{} bytes", v.len())).unwrap_or_else(|| "nothing".into())), json!({"deliveries": all_labels.iter().take(40).cloned().collect::<Vec<_>>()}));
                    }
                }
            }
        }
        if cx.index < 2 {
            cx.sample(json!({"keys": nkeys, "policy": format!("{:?}", sim.policy), "deliveries": all_labels.iter().take(24).cloned().collect::<Vec<_>>()}));
        }
        drop(sim);
        let _ = std::fs::remove_dir_all(&root);
    }
}


/// A long-lived register: whole replicas of several hundred operations arrive one after the other (that is how updates
/// travel: the sender's whole register), each overlapping what the node already holds. The stored register must end up
/// with the union as long as the union is within the entry limit - however large the overlap.
fn long_lived_register_case(cx: &mut Cx) {
    let root = scratch_dir("c07");
    let (mut sim, _env) = node_sim(cx, &root, 0);
    sim.set_gates_controlled(false);
    sim.policy = Policy::Fifo;
    let node = sim.nodes[0].node.clone().expect("node layer");
    let owner = gen::bls_sk(&mut cx.rng);
    let base = gen::register(&owner, XorName(cx.rng.gen()), Permissions::default());
    let addr = *base.address();
    let key = gen::reg_key(&addr);
    let first = cx.rng.gen_range(505..=530usize);
    let mut replica = base.clone();
    let mut all: BTreeSet<RegisterOp> = BTreeSet::new();
    let mut grow = |replica: &mut SignedRegister, n: usize, rng: &mut rand::rngs::StdRng, all: &mut BTreeSet<RegisterOp>| {
        for _ in 0..n {
            // distinct entries (equal entries without predecessors are one and the same operation)
            let mut entry = (all.len() as u32).to_be_bytes().to_vec();
            entry.extend(gen::bytes_r(rng, 0, 8));
            let op = gen::reg_op(addr, entry, BTreeSet::new(), &owner);
            if replica.add_op(op.clone()).is_ok() {
                all.insert(op);
            }
        }
    };
    let mut steps: Vec<(String, usize)> = vec![];
    grow(&mut replica, 3, &mut cx.rng, &mut all);
    steps.push(("replica of 3".into(), 3));
    let mut deliveries = vec![gen::reg_record(&replica)];
    grow(&mut replica, first - 3, &mut cx.rng, &mut all);
    steps.push((format!("replica of {first}"), first));
    deliveries.push(gen::reg_record(&replica));
    // the same again (a duplicate), then a sibling that shares all but a few operations, then one more step
    deliveries.push(gen::reg_record(&replica));
    steps.push((format!("the same replica of {first} again"), first));
    let mut sibling = replica.clone();
    grow(&mut sibling, 2, &mut cx.rng, &mut all);
    grow(&mut replica, 1, &mut cx.rng, &mut all);
    deliveries.push(gen::reg_record(&replica));
    steps.push((format!("replica of {}", first + 1), first + 1));
    deliveries.push(gen::reg_record(&sibling));
    steps.push((format!("sibling of {} sharing {first}", first + 2), first + 3));
    for (i, rec) in deliveries.into_iter().enumerate() {
        let (n2, path_repl) = (node.clone(), i == 0 || cx.rng.gen_bool(0.5));
        let h = sim.spawn(async move { if path_repl { n2.store_replicated_in_record(rec).await } else { n2.validate_and_store_record(rec).await } });
        let mut done = || h.is_finished();
        if !sim.settle(&mut done) {
            cx.inconclusive("a delivery of a large register did not settle");
            let _ = std::fs::remove_dir_all(&root);
            return;
        }
        let res = sim.join(h);
        cx.eval();
        cx.count("deliveries:large-register");
        let want = steps[i].1;
        let have = sim.get_local(0, &key).and_then(|r| try_deserialize_record::<SignedRegister>(&r).ok()).map(|r| r.ops().clone()).unwrap_or_default();
        let w = json!({"history": steps.iter().take(i + 1).map(|s| s.0.clone()).collect::<Vec<_>>(), "result": format!("{res:?}")});
        if !have.is_subset(&all) {
            cx.violation("inadmissible-register-op-stored", "the stored register holds an operation that was never delivered".to_string(), w.clone());
        }
        if have.len() < want {
            cx.violation("register-op-lost", format!("after '{}' the stored register has {} operations; the union of everything delivered so far has {want} (limit 1024)", steps[i].0, have.len()), w);
            break;
        }
    }
    cx.nontrivial(&("c07-large-register", first));
    let _ = std::fs::remove_dir_all(&root);
}
