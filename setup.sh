#!/bin/bash
# Build the verification harness offline from files on disk only.
set -e
cd /verif
export CARGO_NET_OFFLINE=true
mkdir -p runs/tmp evidence
./check --build-only
echo "setup ok"
