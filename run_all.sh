#!/bin/bash
# run_all.sh <quick|thorough> <seed> : every check once, one line per check (exit code, summary)
TIER=${1:-quick}; SEED=${2:-1}
cd /verif
for c in C01 C02 C03 C04 C05 C06 C07 C08 C09 C10 C11 C12 C13 C14 C15 C16 C17 C18 C19 C20; do
  out=$(VERIF_SEED=$SEED ./check $c $TIER 2>&1); rc=$?
  echo "seed=$SEED $c exit=$rc $(echo "$out" | grep -E "^$c $TIER:" | tail -1 | cut -c1-150) $(echo "$out" | grep -cE '^(VIOLATION|INCONCLUSIVE)') alarms"
done
