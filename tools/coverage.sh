#!/bin/bash
# tools/coverage.sh [IDs...] — what the quick tier of the checks actually executes in /repo (not a registered check).
# Builds the harness with source-based coverage (nightly, -Cinstrument-coverage) into harness/target-cov,
# runs the quick tier of the given checks (default: all), merges the profiles of all shard processes and
# writes per-file line/function coverage of the /repo crates plus the list of never-executed functions
# to runs/cov/summary.txt and runs/cov/uncovered_functions.txt.
set -u
cd /verif || exit 2
export CARGO_NET_OFFLINE=true
IDS="${*:-C01 C02 C03 C04 C05 C06 C07 C08 C09 C10 C11 C12 C13 C14 C15 C16 C17 C18 C19 C20}"
TC=nightly
BIN_DIR=$(dirname "$(rustup which --toolchain $TC rustc)")/../lib/rustlib/x86_64-unknown-linux-gnu/bin
COV=/verif/runs/cov; rm -rf "$COV"; mkdir -p "$COV/raw"
cp /repo/Cargo.lock harness/Cargo.lock
RUSTFLAGS="-Cinstrument-coverage" CARGO_TARGET_DIR=/verif/harness/target-cov cargo +$TC build --release --offline --manifest-path /verif/harness/Cargo.toml >"$COV/build.log" 2>&1 || { echo "coverage build failed, see $COV/build.log"; tail -20 "$COV/build.log"; exit 2; }
BIN=/verif/harness/target-cov/release/vcheck
mkdir -p /verif/runs/cov-evidence
for id in $IDS; do
  # evidence of the coverage run is thrown away: the instrumented binary is not the registered check
  cp -f evidence/$id.json "$COV/$id.evidence.bak" 2>/dev/null
  LLVM_PROFILE_FILE="$COV/raw/$id-%p-%8m.profraw" "$BIN" "$id" quick >"$COV/$id.out" 2>&1; echo "$id exit=$?"
  [ -f "$COV/$id.evidence.bak" ] && mv -f "$COV/$id.evidence.bak" evidence/$id.json
done
"$BIN_DIR/llvm-profdata" merge -sparse "$COV"/raw/*.profraw -o "$COV/all.profdata" || exit 2
rm -rf "$COV/raw"
"$BIN_DIR/llvm-cov" report "$BIN" -instr-profile="$COV/all.profdata" --ignore-filename-regex='(\.cargo|rustc|/verif/)' 2>/dev/null | grep -E "^/repo|^Filename|^TOTAL" > "$COV/summary.txt"
"$BIN_DIR/llvm-cov" export "$BIN" -instr-profile="$COV/all.profdata" --ignore-filename-regex='(\.cargo|rustc|/verif/)' -format=lcov 2>/dev/null > "$COV/all.lcov"
python3 /verif/tools/cov_uncovered.py "$COV/all.lcov" > "$COV/uncovered_functions.txt"
echo "written: $COV/summary.txt $COV/uncovered_functions.txt"
