#!/usr/bin/env python3
"""lcov -> per file: functions never executed, and uncovered line ranges (anchored crates only)."""
import sys, re, collections
try:
    import subprocess
    def dem(n):
        return n
except Exception:
    pass
files = collections.OrderedDict()
cur = None
for line in open(sys.argv[1], errors="replace"):
    line = line.rstrip("\n")
    if line.startswith("SF:"):
        cur = files.setdefault(line[3:], {"fn": {}, "fnda": {}, "da": {}})
    elif line.startswith("FN:") and cur is not None:
        ln, name = line[3:].split(",", 1); cur["fn"][name] = int(ln.split(",")[0])
    elif line.startswith("FNDA:") and cur is not None:
        c, name = line[5:].split(",", 1); cur["fnda"][name] = cur["fnda"].get(name, 0) + int(c)
    elif line.startswith("DA:") and cur is not None:
        ln, c = line[3:].split(",")[:2]; cur["da"][int(ln)] = cur["da"].get(int(ln), 0) + int(c)
for f, d in files.items():
    if not f.startswith("/repo/"): continue
    das = sorted(d["da"].items())
    tot = len(das); hit = sum(1 for _, c in das if c > 0)
    if tot == 0: continue
    # group functions by line (generic instantiations share a line): executed if any instantiation ran
    by_line = collections.defaultdict(lambda: [0, None])
    for name, ln in d["fn"].items():
        by_line[ln][0] += d["fnda"].get(name, 0); by_line[ln][1] = name
    dead = sorted((ln, nm) for ln, (c, nm) in by_line.items() if c == 0)
    print(f"== {f}  lines {hit}/{tot} ({100*hit//tot}%)  functions never run: {len(dead)}/{len(by_line)}")
    for ln, nm in dead:
        print(f"   fn@{ln} {nm[:110]}")
    # uncovered ranges
    rngs = []; start = prev = None
    for ln, c in das:
        if c == 0:
            if start is None: start = ln
            prev = ln
        else:
            if start is not None: rngs.append((start, prev)); start = None
    if start is not None: rngs.append((start, prev))
    big = [f"{a}-{b}" for a, b in rngs if b - a >= 2]
    if big: print("   uncovered line ranges (>=3 lines): " + " ".join(big))
